"""C13 - computations cover exactly the requested grid and label states correctly.

G1 float -> step-count conversions are rounding tolerant, G2 the final-only
label depends on the number of propagated steps, G3 every time label has the
form START + k*DT with k the step of the state stored with it, G4 times and
states are inserted at the same index.
"""
from __future__ import annotations

import ast
from typing import Dict, List, Optional, Set, Tuple

from oqv import roles
from oqv.astutil import branch_context, call_name, method_call
from oqv.cfg import CFG
from oqv.dataflow import DefUse, expand, form_at
from oqv.forms import Poly, eval_form
from oqv.model import AnalysisError, Program, Unit, dotted, norm, walk_local, kw_of
from oqv.report import Check

ROUNDERS = {"round", "rint", "around", "round_"}
TRUNCATORS = {"int", "floor", "trunc", "fix"}
OUT_OF_SCOPE = {
    "helpers": "plot sampling of the correlation function, not a computation grid",
}
G1_EXCEPTIONS = {
    ("tempo", "guess_tempo_parameters"):
        "heuristic memory-length estimate: rounding a ratio of two estimated time steps up is "
        "conservative and never drops a requested grid point",
}


def _fn_last(c: ast.Call) -> str:
    return (dotted(c.func) or "").split(".")[-1]


def _div_by_dt(e: ast.AST) -> Optional[ast.BinOp]:
    for x in ast.walk(e):
        if isinstance(x, ast.BinOp) and isinstance(x.op, ast.Div) and roles.role_of(x.right) == "DT":
            return x
    return None


def _path_to(root: ast.AST, target: ast.AST) -> List[ast.AST]:
    path: List[ast.AST] = []

    def rec(n):
        if n is target:
            path.append(n)
            return True
        for ch in ast.iter_child_nodes(n):
            if rec(ch):
                path.append(n)
                return True
        return False
    rec(root)
    return list(reversed(path))


def _small_const(e: ast.AST) -> bool:
    v = None
    if isinstance(e, ast.Constant) and isinstance(e.value, (int, float)) \
            and not isinstance(e.value, bool):
        v = float(e.value)
    elif isinstance(e, ast.BinOp) and isinstance(e.op, ast.Pow):
        try:
            v = float(ast.literal_eval(ast.unparse(e)))
        except Exception:
            v = None
    elif isinstance(e, (ast.Name, ast.Attribute)):
        nm = (dotted(e) or "").upper()
        if "TOL" in nm or "EPS" in nm:
            return True
    return v is not None and 0 < abs(v) < 0.5


def g1(prog: Program, chk: Check) -> None:
    chk.rule("G1", "a float time quotient (x / DT) is converted to an integer only through a "
             "rounding-tolerant idiom: nearest-index sites use round(); sites that count the "
             "whole steps up to an END time use a tolerant floor (int/floor of q + eps, or of "
             "round(q, decimals>=1)); a bare int()/floor()/'//' silently drops a step when the "
             "quotient is 2.9999999999999996", floor=12)
    for u in prog.units.values():
        if isinstance(u.node, ast.Lambda):
            continue
        short = u.module.short
        convs = []
        for st in u.body:
            for x in walk_local(st):
                if isinstance(x, ast.Call) and _fn_last(x) in TRUNCATORS and len(x.args) >= 1:
                    convs.append((x, x.args[0]))
                elif isinstance(x, ast.BinOp) and isinstance(x.op, ast.FloorDiv) and \
                        roles.role_of(x.right) == "DT":
                    convs.append((x, None))
        if not convs:
            continue
        du = None
        for (conv, arg) in convs:
            if arg is None:
                chk.add("G1", u, norm(conv), False,
                        "floor division of a time by the time step truncates 2.9999999999999996 "
                        "to 2", conv)
                continue
            if du is None:
                du = DefUse(u, CFG(u.node, exc_edges=False))
            nid = du.node_of(conv)
            full = expand(du, nid, arg) if nid is not None else arg
            div = _div_by_dt(full)
            if div is None:
                continue
            # nested truncators (int(np.floor(..))): judge only the outermost conversion
            if any(isinstance(p, ast.Call) and _fn_last(p) in TRUNCATORS and p is not conv
                   and any(y is conv for y in ast.walk(p)) for (p, _) in convs):
                continue
            construct = f"{_fn_last(conv)}({norm(arg)})"
            if short in OUT_OF_SCOPE:
                chk.add("G1", u, construct, None, node=conv,
                        exception_reason=f"module out of scope: {OUT_OF_SCOPE[short]}")
                continue
            key = (short, u.qual.split(":")[1])
            if key in G1_EXCEPTIONS:
                # the exemption rests on "rounded up": check that premise on every run
                up = any(isinstance(y, ast.Call) and _fn_last(y) == "ceil"
                         for y in ast.walk(conv))
                if not up:
                    chk.add("G1", u, construct, False,
                            f"{key[1]} is exempt because it rounds its estimate UP (conservative); "
                            f"this conversion does not pass through ceil()", conv)
                    continue
                chk.add("G1", u, construct, None, node=conv,
                        exception_reason=G1_EXCEPTIONS[key])
                continue
            chk.saw(u, du.cfg)
            counts_to_end = any(roles.role_of(y) == "END" for y in ast.walk(div.left))
            path = _path_to(full, div)
            nearest = False
            tolerant = False
            for p in path:
                if isinstance(p, ast.Call) and _fn_last(p) in ROUNDERS:
                    dec = None
                    if len(p.args) >= 2:
                        dec = p.args[1]
                    for k in p.keywords:
                        if k.arg in ("decimals", "ndigits"):
                            dec = k.value
                    if dec is not None and not (isinstance(dec, ast.Constant) and dec.value == 0):
                        tolerant = True
                    else:
                        nearest = True
                if isinstance(p, ast.BinOp) and isinstance(p.op, (ast.Add, ast.Sub)):
                    inner_left = any(y is div for y in ast.walk(p.left))
                    other = p.right if inner_left else p.left
                    if _small_const(other) and (isinstance(p.op, ast.Add) or inner_left):
                        tolerant = True
                if isinstance(p, ast.BinOp) and isinstance(p.op, ast.Mult):
                    inner_left = any(y is div for y in ast.walk(p.left))
                    other = p.right if inner_left else p.left
                    if isinstance(other, ast.BinOp) and isinstance(other.op, ast.Add) and \
                            (_small_const(other.left) or _small_const(other.right)):
                        tolerant = True
            if counts_to_end:
                ok = tolerant
                why = "tolerant floor of (END - START)/DT" if ok else (
                    "rounds to the NEAREST step: for an off-grid end time (e.g. 11.6 dt) the "
                    "computation runs beyond end_time" if nearest else
                    "truncates (END - START)/DT: end_time = 0.3 with dt = 0.1 gives quotient "
                    "2.9999999999999996 and one requested step is silently dropped")
            else:
                ok = nearest or tolerant
                why = "rounded before conversion" if ok else \
                    "truncating conversion of a time quotient without rounding tolerance"
            chk.add("G1", u, construct, ok, why, conv)


# --------------------------------------------------------------------- G2
def _time_resolver(extra=None):
    def res(x):
        r = roles.role_of(x)
        if r in ("START", "DT", "NUM_STEPS", "STEP", "END"):
            return Poly.sym(r)
        if extra:
            return extra(x)
        return None
    return res


STEPPERS = ["system_dynamics:compute_dynamics",
            "system_dynamics:compute_dynamics_with_field",
            "gradient:compute_gradient_and_dynamics"]


def label_assignments(u) -> List[ast.Assign]:
    """Assignments to the local that is handed to the result object as its time axis
    (`Dynamics(times=...)` / `MeanFieldDynamics(times=...)`), whatever it is called."""
    names = set()
    for c in walk_local(u.node):
        if isinstance(c, ast.Call) and (call_name(c) or "").endswith("Dynamics"):
            v = kw_of(c).get("times", None)
            if v is None and c.args:
                v = c.args[0]
            if v is not None:
                names |= {y.id for y in ast.walk(v) if isinstance(y, ast.Name)
                          and y.id not in ("list", "tuple", "np")}
    return [st for st in walk_local(u.node) if isinstance(st, ast.Assign) and len(st.targets) == 1
            and isinstance(st.targets[0], ast.Name) and st.targets[0].id in names]


def g2_g3_steppers(prog: Program, chk: Check) -> None:
    chk.rule("G2", "with record_all False the single returned state is labelled "
             "START + NUM_STEPS*DT (the label depends on the number of propagated steps)",
             floor=3)
    chk.rule("G3", "every time label has the form START + k*DT with k the step index of the "
             "state stored with it", floor=9)
    for q in STEPPERS:
        u = prog.unit(q)
        du = DefUse(u, CFG(u.node, exc_edges=False))
        chk.saw(u, du.cfg)
        found = {True: 0, False: 0}
        for st in label_assignments(u):
            ctx = [(t, br) for (t, br) in branch_context(u.node, st) if dotted(t) == "record_all"]
            if len(ctx) != 1:
                raise AnalysisError(f"G2: `times` at {u.loc(st)} is not under `if record_all`")
            rec_all = ctx[0][1]
            found[rec_all] += 1
            nid = du.node_of(st.value)
            if rec_all:
                # START + arange(len(X)) * DT
                def ar(x):
                    if isinstance(x, ast.Call) and _fn_last(x) == "arange" and len(x.args) == 1 \
                            and not x.keywords:
                        return Poly.sym("ARANGE0")
                    return None
                f = form_at(du, nid, st.value, _time_resolver(ar))
                want = Poly.sym("START") + Poly.sym("ARANGE0") * Poly.sym("DT")
                chk.add("G3", u, f"record_all: times = {norm(st.value)}", f == want,
                        f"form {f}" if f == want else
                        f"time axis has form {f}, expected START + arange(n)*DT", st)
            else:
                v = st.value
                elt = v.elts[0] if isinstance(v, (ast.List, ast.Tuple)) and len(v.elts) == 1 else None
                if elt is None:
                    raise AnalysisError(f"G2: final-only `times` at {u.loc(st)} is not a "
                                        f"one-element list")

                def ln(x):
                    if isinstance(x, ast.Call) and dotted(x.func) == "len":
                        return Poly.sym("LEN(" + norm(x.args[0]) + ")")
                    return None
                f = form_at(du, nid, elt, _time_resolver(ln))
                ok = f is not None and f in (
                    Poly.sym("START") + Poly.sym("NUM_STEPS") * Poly.sym("DT"),
                    Poly.sym("START") + Poly.sym("STEP") * Poly.sym("DT"))
                chk.add("G2", u, f"final-only: times = {norm(st.value)}", ok,
                        f"form {f}" if ok else
                        f"label has form {f}: with record_all False the state list holds one "
                        f"element, so the label is START + DT whatever the number of steps", st)
        if found[True] != 1 or found[False] != 1:
            raise AnalysisError(f"G2/G3: expected one `times` assignment per record_all branch in {q}")


# --------------------------------------------------------------------- G3
def g3_front_ends(prog: Program, chk: Check) -> None:
    want = Poly.sym("START") + Poly.sym("STEP") * Poly.sym("DT")
    for q in ("tempo:Tempo._time", "tempo:MeanFieldTempo._time"):
        u = prog.unit(q)
        rets = [x for x in walk_local(u.node) if isinstance(x, ast.Return)]
        if len(rets) != 1:
            raise AnalysisError(f"G3: {q} has {len(rets)} returns")
        f = eval_form(rets[0].value, _time_resolver())
        chk.add("G3", u, f"return {norm(rets[0].value)}", f == want,
                f"form {f}" if f == want else f"form {f}, expected START + STEP*DT", rets[0])
    u = prog.unit("pt_tebd:PtTebd.time")
    rets = [x for x in walk_local(u.node) if isinstance(x, ast.Return)]

    def res(x):
        d = dotted(x) or ""
        if d.endswith("_start_step"):
            return Poly.sym("STEP0")
        return None
    f = eval_form(rets[0].value, _time_resolver(res))
    w2 = Poly.sym("START") + Poly.sym("DT") * (Poly.sym("STEP") - Poly.sym("STEP0"))
    chk.add("G3", u, f"return {norm(rets[0].value)}", f == w2,
            f"form {f}" if f == w2 else f"form {f}, expected START + DT*(STEP - START_STEP)", rets[0])
    # the process-tensor index stays the absolute step
    cs = prog.unit("pt_tebd:PtTebd.compute_step")
    for c in walk_local(cs.node):
        if isinstance(c, ast.Call) and method_call(c) and method_call(c)[1] == "apply_process_tensors":
            a0 = c.args[0] if c.args else None
            ok = a0 is not None and dotted(a0) in ("self.step", "self._step")
            chk.add("G3", cs, f"apply_process_tensors({norm(a0) if a0 is not None else ''}, ...)", ok,
                    "absolute step indexes the process tensors" if ok else
                    "process tensors are indexed by something else than the absolute step", c)
    # users of _time: step and state come from the same back-end result
    for q in ("tempo:Tempo.compute", "tempo:MeanFieldTempo.compute"):
        u = prog.unit(q)
        du = DefUse(u, CFG(u.node, exc_edges=False))
        chk.saw(u, du.cfg)
        n = 0
        for c in walk_local(u.node):
            if not (isinstance(c, ast.Call) and method_call(c)
                    and method_call(c) == ("self._dynamics", "add")):
                continue
            n += 1
            nid = du.node_of(c)
            call_nid = nid
            t = c.args[0]
            if isinstance(t, ast.Name):
                dt_ = du.unique_value(nid, t.id)
                if dt_ is not None and dt_.value is not None and not dt_.sel:
                    t, nid = dt_.value, dt_.node
            ok = False
            why = "time argument is not self._time(<step>)"
            if isinstance(t, ast.Call) and method_call(t) == ("self", "_time") and \
                    isinstance(t.args[0], ast.Name):
                sdefs = du.reaching(nid, t.args[0].id)
                state_names = [x.id for a in c.args[1:] for x in walk_local(a)
                               if isinstance(x, ast.Name)]
                srcs = {id(d.value) for d in sdefs}
                ok = True
                why = "step and state unpacked from the same back-end call"
                linked = False
                for nm in state_names:
                    for d in du.reaching(call_nid, nm):
                        if d.value is not None and id(d.value) in srcs:
                            linked = True
                        elif d.value is not None:
                            # derived from a name that is (matrix_list from state_list)
                            for y in walk_local(d.value):
                                if isinstance(y, ast.Name):
                                    for d2 in du.reaching(d.node, y.id):
                                        if d2.value is not None and id(d2.value) in srcs:
                                            linked = True
                if not linked or len(sdefs) != 1:
                    ok, why = False, "the step used for the label and the recorded state do " \
                                     "not come from the same back-end result"
            chk.add("G3", u, f"self._dynamics.add({norm(t)}, ...)", ok, why, c)
        if n < 2:
            raise AnalysisError(f"G3: fewer than two _dynamics.add calls in {q}")
    # correlation axes
    u = prog.unit("system_dynamics:compute_correlations_nt")
    du = DefUse(u, CFG(u.node, exc_edges=False))
    chk.saw(u, du.cfg)
    hit = 0
    from rules.c07 import NtView
    _axes = NtView(prog).ret_times      # the returned list of time axes, whatever it is called
    for c in walk_local(u.node):
        if isinstance(c, ast.Call) and method_call(c) == (_axes, "append"):
            hit += 1
            nid = du.node_of(c)

            def idx(x):
                if isinstance(x, ast.Call) and call_name(x) == "_parse_times":
                    return Poly.sym("IDX")
                return None
            f = form_at(du, nid, c.args[0], _time_resolver(idx))
            w = Poly.sym("START") + Poly.sym("DT") * Poly.sym("IDX")
            chk.add("G3", u, f"ret_times.append({norm(c.args[0])})", f == w,
                    f"form {f}" if f == w else f"form {f}, expected START + DT*index", c)
    if hit != 1:
        raise AnalysisError("G3: ret_times.append(...) not found once in compute_correlations_nt")


# --------------------------------------------------------------------- G4
def g4(prog: Program, chk: Check) -> None:
    chk.rule("G4", "Dynamics.add / MeanFieldDynamics.add insert time, state and field at one "
             "bisect index computed from the time list before it is modified", floor=3)
    fi = prog.unit("dynamics:_find_list_index")
    rets = [x for x in walk_local(fi.node) if isinstance(x, ast.Return)]
    ok = len(rets) == 1 and isinstance(rets[0].value, ast.Call) and \
        _fn_last(rets[0].value) in ("bisect", "bisect_right", "bisect_left") and \
        [dotted(a) for a in rets[0].value.args] == fi.params[:2]
    chk.add("G4", fi, f"return {norm(rets[0].value) if rets else ''}", ok,
            "" if ok else "index is not the bisect position of the entry in the sorted list")
    for q in ("dynamics:Dynamics.add", "dynamics:MeanFieldDynamics.add"):
        u = prog.unit(q)
        du = DefUse(u, CFG(u.node, exc_edges=False))
        g = du.cfg
        chk.saw(u, g)
        inserts = []
        for n in g.nodes:
            for c in n.calls():
                mc = method_call(c)
                if mc and mc[1] in ("insert", "append", "extend") and mc[0].startswith("self._"):
                    inserts.append((n.id, c, mc))
        if len(inserts) < 2:
            raise AnalysisError(f"G4: fewer than two list insertions in {q}")
        idx_defs = set()
        bad = []
        for (nid, c, mc) in inserts:
            if mc[1] != "insert" or not isinstance(c.args[0], ast.Name):
                bad.append(f"{mc[0]}.{mc[1]}")
                continue
            ds = du.reaching(nid, c.args[0].id)
            idx_defs |= {d.id for d in ds}
        ok = not bad and len(idx_defs) == 1
        detail = ""
        if ok:
            d = du.defs[next(iter(idx_defs))]
            v = d.value
            ok = isinstance(v, ast.Call) and call_name(v) in ("_find_list_index", "bisect",
                                                              "bisect.bisect") \
                and dotted(v.args[0]) == "self._times"
            detail = f"index = {norm(v)}"
            # the index is computed before the time list is modified
            first_ins = min(nid for (nid, c, mc) in inserts if mc[0] == "self._times")
            p = g.find_path([first_ins], lambda x: x == d.node)
            if p is not None and len(p) > 1:
                ok, detail = False, "the index is recomputed after the time list was modified"
        else:
            detail = f"insertions use different indices or append: {bad}"
        chk.add("G4", u, "; ".join(f"{mc[0]}.{mc[1]}({norm(c.args[0])}, ..)" for (_, c, mc) in inserts),
                ok, detail)
    # per-system dynamics get the same time
    u = prog.unit("dynamics:MeanFieldDynamics.add")
    for c in walk_local(u.node):
        if isinstance(c, ast.Call) and method_call(c) and method_call(c)[1] == "add" \
                and not method_call(c)[0].startswith("self."):
            ok = dotted(c.args[0]) in ("time", "tmp_time")
            chk.add("G4", u, f"{norm(c.func)}({norm(c.args[0])}, ...)", ok,
                    "system dynamics receive the same time as the field" if ok else
                    "system dynamics are labelled with a different time than the field", c)


# --------------------------------------------------------------------- G5
def g5(prog: Program, chk: Check) -> None:
    chk.rule("G5", "the step counter that labels the recorded states moves only after the state "
             "of that step exists: in a step transaction no write of a `_step` counter precedes a "
             "call of a user-supplied callable (Hamiltonian, rates, field equation) on any path - "
             "otherwise a failing callable leaves the counter ahead and a resumed computation "
             "skips one grid time and labels every later state one step late", floor=3)
    from rules import c14
    eff = c14.Effects(prog, chk)
    n = 0
    for q in c14.TRANSACTIONS:
        u = prog.unit(q)
        s_ = eff.summary(u)
        fn = q.split(":")[1]
        step_pairs = {(w, f): o for (w, f), o in s_["pairs"].items() if "_step" in w.split(" ")[0]}
        n += 1
        if not step_pairs:
            chk.add("G5", u, "no step counter is written before a foreign call", True,
                    f"foreign calls {sorted(s_['F_all'])[:4]}")
            continue
        for (w, f), owner_q in sorted(step_pairs.items()):
            owner = prog.unit(owner_q)
            ofn = owner_q.split(":")[1]
            w0 = w.replace(" (of a system back end)", "")
            reason = c14.T3_EXCEPTIONS.get((ofn, w0, f)) or c14.T3_EXCEPTIONS.get((ofn, "*", f))
            if reason:
                # triaged under C14 T3 (loud on retry / idempotent): same table, same reasons
                chk.add("G5", owner, f"write {w} before foreign call {f}", None,
                        exception_reason=reason)
                continue
            chk.add("G5", owner, f"write {w} before foreign call {f}", False,
                    f"if {f} raises, {w} is already advanced although no state was produced "
                    f"(reached from transaction {fn})")
    if n < 3:
        raise AnalysisError("G5: step transactions vanished")


def g6(prog: Program, chk: Check) -> None:
    chk.rule("G6", "every grid time handed to a result container is recorded with its value: "
             "along each path through Dynamics.add / MeanFieldDynamics.add the time list and the "
             "value list are both inserted into or both left alone (alignment), and recorded "
             "times are not compared through a relative tolerance (a tolerant 'already recorded' "
             "test merges distinct grid times with numpy's default rtol once |t| > 1e5*dt)", floor=3)
    from rules import c15
    for q in ("dynamics:Dynamics.add", "dynamics:MeanFieldDynamics.add"):
        u = prog.unit(q)
        g = CFG(u.node, exc_edges=False)
        chk.saw(u, g)
        inserts: Dict[str, List[int]] = {}
        for n in g.nodes:
            for c in n.calls():
                mc = method_call(c)
                if mc and mc[1] == "insert" and mc[0].startswith("self._"):
                    inserts.setdefault(mc[0], []).append(n.id)
        if "self._times" not in inserts or len(inserts) < 2:
            raise AnalysisError(f"G6: {q} no longer inserts into self._times and a value list")
        rets = [n.id for n in g.nodes if n.kind == "stmt" and isinstance(n.ast, ast.Return)] + [g.exit]
        t_nodes = inserts["self._times"]
        for attr, nodes in sorted(inserts.items()):
            if attr == "self._times":
                continue
            # a path that inserts the time but not the value, or the value but not the time
            for (have, miss, what) in ((t_nodes, nodes, f"the time but not {attr}"),
                                       (nodes, t_nodes, f"{attr} but not the time")):
                p_ = None
                for h in have:
                    a = g.find_path([g.entry], lambda x, h=h: x == h,
                                    blocked=lambda x, ms=miss: x in ms)
                    b = g.find_path([h], lambda x: x in rets, blocked=lambda x, ms=miss: x in ms)
                    if a is not None and b is not None:
                        p_ = a + b[1:]
                        break
                chk.add("G6", u, f"no path inserts {what}", p_ is None,
                        "" if p_ is None else "times and values get out of step on this path",
                        path=None if p_ is None else g.describe_path(p_, u.loc)[-6:])
    sites, n_cmp = c15.time_tolerance_sites(prog)
    for (u, c, relative) in sites:
        chk.add("G6", u, f"{norm(c)[:60]}", not relative,
                "absolute tolerance only (merges nothing on a grid with dt above it)"
                if not relative else
                "recorded times are compared through a relative tolerance: grid times closer than "
                "rtol*|t| (numpy's default 1e-5) are treated as one and the returned grid has "
                "holes", c)
    chk.add("G6", prog.module("dynamics"), f"{n_cmp} tolerant comparisons in dynamics.py, "
            f"{len(sites)} on recorded times", True, "")


def g7(prog: Program, chk: Check) -> None:
    chk.rule("G7", "a computation stops at the requested grid point wherever it starts from: every "
             "stepping call of a front-end compute() is control dependent on a condition that "
             "depends on the CURRENT step and on the target (range(target - step), while step < "
             "target) - a count taken from the step the object was initialised with makes a second "
             "compute() run past the requested end time and return times beyond the grid "
             "(same analysis as C14 T1)", floor=5)
    from rules import c14
    c14.guarded_stepping(prog, chk, "G7")


def g8(prog: Program, chk: Check) -> None:
    chk.rule("G8", "times and step sizes are numbers: no parameter with a time role (start time, end time, time step, step counts) is tested for truthiness - `if start_time:` treats a computation that starts at t = 0 as one without a start time, `if not num_steps` an empty grid as a missing one", floor=1)
    from rules.c02 import numeric_option_tests
    n = 0
    for (u, node, pname) in numeric_option_tests(prog):
        r = roles.role_of(ast.Name(id=pname, ctx=ast.Load()))
        if r not in ("START", "END", "DT", "STEP", "NUM_STEPS", "TIME"):
            continue
        n += 1
        chk.saw(u)
        chk.add("G8", u, f"truthiness test of `{pname}` ({r}): {norm(node)[:60]}", False,
                f"`{pname}` is a time / step quantity: the value 0 takes the 'not given' branch", node)
    timed = sum(1 for u in prog.units.values() if not isinstance(u.node, ast.Lambda)
                for x in u.node.args.args
                if roles.role_of(ast.Name(id=x.arg, ctx=ast.Load())) in ("START", "END", "DT"))
    chk.add("G8", prog.module("tempo"), f"{timed} parameters with a time role in the package, "
            f"{n} tested for truthiness", timed >= 30,
            "" if timed >= 30 else "fewer time parameters than confirmed by hand")


def restart_resets(prog: Program, chk: Check, rule: str, records: bool = True,
                   state: bool = True) -> None:
    chk.rule(rule, "a front end that can be started again (a public initialize() that sets the step "
             "counter back) starts all of its run state again: every attribute the stepping appends "
             "to (lists / dicts of times, states, norms) or assigns (counters, 'already applied' "
             "flags) is re-created by initialize() or by a method it calls - otherwise the second "
             "run appends to the first one's records, or skips what the flag says was done", floor=1)
    n = 0
    for m_ in ("tempo", "pt_tempo", "pt_tebd"):
        for ci in [c for c in prog.classes.values() if c.module.short == m_]:
            init = ci.methods.get("initialize")
            if init is None:
                continue
            sets_step = any(isinstance(st, ast.Assign) and any(dotted(t) == "self._step" for t in st.targets)
                            for st in walk_local(init.node))
            if not sets_step:
                continue

            def callees(mu, seen):
                out = [mu]
                for c in walk_local(mu.node):
                    mc = method_call(c) if isinstance(c, ast.Call) else None
                    if mc and mc[0] == "self" and mc[1] in ci.methods and mc[1] not in seen:
                        seen.add(mc[1])
                        out += callees(ci.methods[mc[1]], seen)
                return out
            stepping = []
            for name in ("compute", "compute_step"):
                if name in ci.methods:
                    stepping += callees(ci.methods[name], {name, "initialize"})
            acc = {}
            for mu in (stepping if records else []):
                for c in walk_local(mu.node):
                    if isinstance(c, ast.Call) and isinstance(c.func, ast.Attribute) \
                            and c.func.attr in ("append", "extend", "add", "insert"):
                        base = c.func.value
                        while isinstance(base, ast.Subscript):
                            base = base.value
                        if isinstance(base, ast.Attribute) and isinstance(base.value, ast.Name) \
                                and base.value.id == "self":
                            acc.setdefault(base.attr, (mu, c))
            # ... and every attribute the stepping assigns (counters, "already done" flags)
            for mu in (stepping if state else []):
                for st in walk_local(mu.node):
                    tgts = st.targets if isinstance(st, ast.Assign) else \
                        ([st.target] if isinstance(st, ast.AugAssign) else [])
                    for t in tgts:
                        if isinstance(t, ast.Attribute) and isinstance(t.value, ast.Name) \
                                and t.value.id == "self":
                            acc.setdefault(t.attr, (mu, st))
            resetting = callees(init, {"initialize"})
            reset = {t.attr for mu in resetting for st in walk_local(mu.node) if isinstance(st, ast.Assign)
                     for t in st.targets if isinstance(t, ast.Attribute) and isinstance(t.value, ast.Name)
                     and t.value.id == "self"}
            chk.saw(init)
            for attr, (mu, c) in sorted(acc.items()):
                n += 1
                ok = attr in reset
                chk.add(rule, init, f"{ci.name}.initialize() re-creates self.{attr} "
                        f"(changed in {mu.name})", ok,
                        "" if ok else f"self.{attr} keeps its value from the previous run: after "
                        f"initialize() the next compute() starts from the records / flags of the "
                        f"run before", c)
    if n < 1:
        raise AnalysisError(f"{rule}: no restartable front end with accumulated records found "
                            f"(PtTebd confirmed by hand)")


def g9(prog: Program, chk: Check) -> None:
    # C13 is about the recorded grid: the records (and nothing else) are judged here
    restart_resets(prog, chk, "G9", records=True, state=False)


def run(prog: Program, chk: Check) -> None:
    chk.explanation = (
        "Decides how floats become step counts and the polynomial form of every time label: "
        "G1 every int()/floor()/trunc()/'//' of a quotient by a DT-role value passes through a "
        "rounding-tolerant idiom (tolerant floor where whole steps up to an END time are "
        "counted, nearest elsewhere); G2 the final-only label is START + NUM_STEPS*DT; G3 label "
        "forms START + k*DT at every front end and stepper; G4 paired bisect insertion.")
    chk.not_decided = ("The floating-point value of (end-start)/dt itself; it is covered by "
                       "requiring a tolerant conversion rather than by evaluating it.")
    chk.assumptions = ["role vocabulary (printed under coverage.role_vocabulary)"]
    chk.extra["role_vocabulary"] = roles.VOCAB
    chk.call(g1, prog, chk)
    chk.call(g2_g3_steppers, prog, chk)
    chk.call(g3_front_ends, prog, chk)
    chk.call(g4, prog, chk)
    chk.call(g5, prog, chk)
    chk.call(g6, prog, chk)
    chk.call(g7, prog, chk)
    chk.call(g8, prog, chk)
    chk.call(g9, prog, chk)
