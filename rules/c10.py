"""C10 - PT-TEBD: all execution modes usable (I1, I3) and a parallel layer's
result independent of completion order (I2)."""
from __future__ import annotations

import ast
import os
import sys
from typing import Dict, List, Optional, Set, Tuple

from oqv.astutil import branch_context, call_name, enclosing_chain, method_call
from oqv.cfg import CFG
from oqv.dataflow import DefUse, expand
from oqv.model import AnalysisError, Program, Unit, dotted, norm, walk_local, kw_of
from oqv.report import Check

BACKEND = "backends.pt_tebd_backend"


# --------------------------------------------------------------------- I1
def _search_paths() -> List[str]:
    return [p for p in sys.path if p and os.path.isdir(p)]


def _locate(pkg: str) -> Optional[str]:
    """Directory of top-level package `pkg` (None: not a package / not found)."""
    for base in _search_paths():
        d = os.path.join(base, pkg)
        if os.path.isfile(os.path.join(d, "__init__.py")):
            return d
    return None


def _is_submodule(pkg_dir: str, name: str) -> bool:
    if os.path.isfile(os.path.join(pkg_dir, name + ".py")):
        return True
    if os.path.isfile(os.path.join(pkg_dir, name, "__init__.py")):
        return True
    try:
        for f in os.listdir(pkg_dir):
            if f.startswith(name + ".") and f.endswith((".so", ".pyd")):
                return True
    except OSError:
        pass
    return False


def _init_binds(pkg_dir: str, pkg: str) -> Tuple[Set[str], bool]:
    """Names bound at import time by <pkg>/__init__.py; second value: the file
    has a star import or dynamic __getattr__ (binding cannot be excluded)."""
    with open(os.path.join(pkg_dir, "__init__.py"), encoding="utf-8", errors="replace") as fh:
        try:
            tree = ast.parse(fh.read())
        except SyntaxError:
            return set(), True
    names: Set[str] = set()
    dynamic = False
    for n in ast.walk(tree):
        if isinstance(n, ast.ImportFrom):
            for a in n.names:
                if a.name == "*":
                    dynamic = True
                names.add(a.asname or a.name)
            # `from pkg.sub import x` / `from .sub import x` binds sub as a side effect
            if n.module:
                mod = n.module
                if n.level == 1 or mod.startswith(pkg + "."):
                    first = mod[len(pkg) + 1:] if mod.startswith(pkg + ".") else mod
                    names.add(first.split(".")[0])
        elif isinstance(n, ast.Import):
            for a in n.names:
                if a.name.startswith(pkg + "."):
                    names.add(a.name.split(".")[1])
                names.add((a.asname or a.name).split(".")[0])
        elif isinstance(n, (ast.FunctionDef, ast.ClassDef)):
            if n.name == "__getattr__":
                dynamic = True
            names.add(n.name)
        elif isinstance(n, ast.Assign):
            for t in n.targets:
                if isinstance(t, ast.Name):
                    names.add(t.id)
    return names, dynamic


def i1(prog: Program, chk: Check) -> None:
    chk.rule("I1", "for every `import P`, an attribute chain P.sub... where sub is a submodule of "
             "P that P/__init__.py does not bind requires an explicit import of P.sub in the "
             "using module (otherwise AttributeError in a fresh interpreter)", floor=2)
    n_inst = 0
    for m in prog.modules.values():
        plain: Dict[str, str] = {}      # local name -> package
        explicit: Set[str] = set()      # 'P.sub' imported explicitly
        for node in ast.walk(m.tree):
            if isinstance(node, ast.Import):
                for a in node.names:
                    if "." in a.name:
                        explicit.add(".".join(a.name.split(".")[:2]))
                        if not a.asname:
                            plain.setdefault(a.name.split(".")[0], a.name.split(".")[0])
                    else:
                        plain[a.asname or a.name] = a.name
            elif isinstance(node, ast.ImportFrom) and node.module and node.level == 0:
                for a in node.names:
                    explicit.add(f"{node.module.split('.')[0]}.{a.name}"
                                 if "." not in node.module else ".".join(node.module.split(".")[:2]))
                    explicit.add(".".join(node.module.split(".")[:2]))
        if not plain:
            continue
        cache: Dict[str, Tuple[Optional[str], Set[str], bool]] = {}
        seen_use: Set[Tuple[str, str]] = set()
        for x in ast.walk(m.tree):
            if not isinstance(x, ast.Attribute):
                continue
            d = dotted(x)
            if d is None:
                continue
            parts = d.split(".")
            if len(parts) < 2 or parts[0] not in plain:
                continue
            pkg = plain[parts[0]]
            if pkg.split(".")[0] == "oqupy":
                continue
            if pkg not in cache:
                loc = _locate(pkg)
                binds, dyn = _init_binds(loc, pkg) if loc else (set(), False)
                cache[pkg] = (loc, binds, dyn)
            loc, binds, dyn = cache[pkg]
            sub = parts[1]
            if loc is None or not _is_submodule(loc, sub):
                continue
            if (pkg, sub) in seen_use:
                continue
            seen_use.add((pkg, sub))
            n_inst += 1
            construct = f"{pkg}.{sub} used via `import {pkg}`"
            if f"{pkg}.{sub}" in explicit:
                chk.add("I1", m, construct, True, "imported explicitly", x)
            elif sub in binds:
                chk.add("I1", m, construct, True, f"{pkg}/__init__.py binds `{sub}`", x)
            elif dyn:
                chk.add("I1", m, construct, None,
                        f"{pkg}/__init__.py has a star import / __getattr__: cannot exclude "
                        f"that it binds `{sub}`", x)
            else:
                chk.add("I1", m, construct, False,
                        f"`{pkg}/__init__.py` does not bind `{sub}` and the module never imports "
                        f"{pkg}.{sub}: in a fresh interpreter `{d}` raises AttributeError "
                        f"(selecting the parallel modes fails)", x)
    if n_inst < 2:
        raise AnalysisError(f"I1: only {n_inst} submodule-attribute uses found (floor 2)")


# --------------------------------------------------------------------- I2
SUBMITTERS = {"map", "submit"}


def i2_i3(prog: Program, chk: Check) -> None:
    chk.rule("I2", "a parallel gate layer is schedule independent: snapshots before the first "
             "submission; submitted callable is a module-level function without persistent / "
             "global writes; results consumed in submission order; write-back in the calling "
             "thread after the executor has been joined; executors context-managed", floor=5)
    chk.rule("I3", "modes {absent, 'multithread', 'multiprocess'} reach the same worker and the "
             "same write-back; any other value raises", floor=4)
    u = prog.unit(f"{BACKEND}:PtTebdBackend.apply_nn_gate_layer")
    du = DefUse(u, CFG(u.node, exc_edges=False))
    g = du.cfg
    chk.saw(u, g)
    mod = u.module
    # completion-order consumption anywhere in the back end is decided first
    for v in prog.units_in(BACKEND):
        if isinstance(v.node, ast.Lambda):
            continue
        for x in walk_local(v.node):
            if isinstance(x, ast.Call):
                fn = dotted(x.func) or ""
                if fn.endswith("as_completed") or fn.endswith("add_done_callback") or \
                        fn.endswith("concurrent.futures.wait"):
                    chk.add("I2", v, f"{fn}(...)", False,
                            "results are consumed in completion order: the result of one gate "
                            "can be written back to the sites of another", x)

    def _is_executor_value(e: Optional[ast.AST]) -> bool:
        return e is not None and "Executor" in norm(e)
    submits: List[Tuple[int, ast.Call]] = []
    for n in g.nodes:
        for c in n.calls():
            mc = method_call(c)
            if mc and mc[1] in SUBMITTERS and isinstance(c.func.value, ast.Name):
                ds = du.reaching(n.id, c.func.value.id)
                if ds and all(_is_executor_value(d.value) for d in ds):
                    submits.append((n.id, c))
            elif mc and mc[1] in SUBMITTERS and (dotted(c.func.value) or "").startswith("self."):
                # an executor kept in an attribute of the back end
                ci_ = prog.class_of_unit(u)
                srcs = prog.attr_sources(ci_, dotted(c.func.value)[5:]) if ci_ else []
                if any(_is_executor_value(v) for (_, _, v, _) in srcs):
                    submits.append((n.id, c))
    if len(submits) < 1:
        raise AnalysisError("I2: no executor submission found in apply_nn_gate_layer")
    snap = [n.id for n in g.nodes for c in n.calls()
            if method_call(c) == ("self", "_apply_nn_gate_get_data")]
    wb = [n.id for n in g.nodes for c in n.calls()
          if method_call(c) == ("self", "_apply_nn_gate_replace_gam_lam_gam")]
    if not snap or not wb:
        raise AnalysisError("I2: snapshot / write-back call sites vanished")
    sub_ids = {nid for nid, _ in submits}
    # (i)
    p = g.find_path(list(sub_ids), lambda x: x in snap and x not in sub_ids)
    chk.add("I2", u, "(i) every snapshot precedes the first submission",
            p is None or len(p) <= 1,
            "" if p is None else "state is read after gates have been handed to workers")
    # parallel-branch write-backs: those reachable from a submission
    par_wb = [w for w in wb if g.find_path(list(sub_ids), lambda x, w=w: x == w) is not None]
    if not par_wb:
        chk.add("I2", u, "(iv) write-back after join", False,
                "no write-back is reachable after the submissions")
    exec_names = {c.func.value.id for (_, c) in submits if isinstance(c.func.value, ast.Name)}
    with_exits = {n.id for n in g.nodes if n.kind == "with_exit" and
                  ("Executor" in norm(n.ast) or (isinstance(n.ast, ast.Name)
                                                  and n.ast.id in exec_names))}
    managed = bool(with_exits)
    # whether the executor is shut down at all is C19's business (P2); for the independence of
    # the result from the completion order it only matters when results are written back
    chk.add("I2", u, "(v) executors are context managed", True if managed else None,
            "" if managed else "a persistent executor: joined-ness is judged under C19 (P2)")
    # names that hold results handed back by the executor (output of map / submit)
    result_names = set()
    for (nid_, c_) in submits:
        for d in du.defs:
            if d.value is not None and any(y is c_ for y in ast.walk(d.value)):
                result_names.add(d.name)
    for (nid, c) in submits:
        kind = method_call(c)[1]
        # (ii) callable
        fn_arg = c.args[0] if c.args else None
        callee = None
        if isinstance(fn_arg, ast.Name):
            callee = prog.units.get(f"{BACKEND}:{fn_arg.id}")
        if callee is None or callee.cls is not None or callee.parent is not None:
            chk.add("I2", u, f"(ii) {norm(c)}: submitted callable", False,
                    "not a module-level function (bound methods / closures drag shared state "
                    "into the workers and are not picklable)", c)
        else:
            bad = _impure(prog, callee, set())
            chk.add("I2", u, f"(ii) {norm(c)}: worker `{callee.name}` has no persistent write",
                    not bad, "" if not bad else f"worker writes shared state: {bad}", c)
        # (iii) ordered consumption
        ordered = kind == "map"
        why = "Executor.map yields results in submission order"
        if kind == "submit":
            ordered = False
            why = "futures from submit(): consumption order not proven (only Executor.map is " \
                  "recognised)"
        chk.add("I2", u, f"(iii) {norm(c.func)}: ordered consumption", ordered, why, c)
        # (iv) write-back after the executor has been joined
        ok = True
        for w in par_wb:
            if g.find_path([nid], lambda x, w=w: x == w) is None:
                continue
            p = g.find_path([nid], lambda x, w=w: x == w, blocked=lambda x: x in with_exits)
            if p is not None:
                # not joined: fine as long as the write-back consumes an element of the ordered
                # result (the caller blocks on it; workers only ever saw copies)
                consumes = False
                for wc in g.nodes[w].calls():
                    for a_ in wc.args:
                        for y in ast.walk(a_):
                            if isinstance(y, ast.Name):
                                for d in du.reaching(w, y.id):
                                    if d.value is not None and any(
                                            isinstance(z, ast.Name) and z.id in result_names
                                            for z in ast.walk(d.value)):
                                        consumes = True
                if not consumes:
                    ok = False
        chk.add("I2", u, f"(iv) {norm(c.func)}: write-back only after the executor is joined", ok,
                "" if ok else "results are written back while workers may still be running", c)
    # snapshot copies everything mutable it hands out
    gd = prog.unit(f"{BACKEND}:PtTebdBackend._apply_nn_gate_get_data")
    dg = DefUse(gd, CFG(gd.node, exc_edges=False))
    chk.saw(gd, dg.cfg)
    rets = [n for n in dg.cfg.nodes if n.kind == "stmt" and isinstance(n.ast, ast.Return)]
    shared = []
    for rn in rets:
        v = rn.ast.value
        if isinstance(v, ast.Name):
            d = dg.unique_value(rn.id, v.id)
            v = d.value if d is not None and d.value is not None else v
        elts = v.elts if isinstance(v, ast.Tuple) else [v]
        for e in elts:
            src = e
            if isinstance(e, ast.Name):
                d = dg.unique_value(rn.id, e.id)
                src = d.value if d is not None and d.value is not None else e
            s = norm(src)
            if "self._" in s and not (isinstance(src, ast.Call)
                                      and isinstance(src.func, ast.Attribute)
                                      and src.func.attr in ("copy", "__copy__")) \
                    and s not in ("self._epsrel",):
                shared.append(s)
    chk.add("I2", gd, "(i') snapshot hands out copies only", not shared,
            "every node is copied" if not shared else
            f"live back-end objects are handed to workers: {shared}")

    # ---------------------------------------------------------------- I3
    par_tests = []
    for n in g.nodes:
        if n.kind == "test" and any(dotted(x) == "self._parallel" for x in walk_local(n.ast)):
            par_tests.append(n)
    modes: Dict[object, str] = {}
    for n in par_tests:
        t = n.ast
        if isinstance(t, ast.Compare) and len(t.ops) == 1 and dotted(t.left) == "self._parallel" \
                and isinstance(t.comparators[0], ast.Constant):
            modes[t.comparators[0].value] = type(t.ops[0]).__name__
    want = {None, "multithread", "multiprocess"}
    chk.add("I3", u, f"dispatch on self._parallel: {sorted(map(str, modes))}", set(modes) == want,
            "" if set(modes) == want else f"expected exactly {sorted(map(str, want))}")
    # the else branch raises
    raises = [n for n in g.nodes if n.kind == "stmt" and isinstance(n.ast, ast.Raise)]
    ok = False
    for r in raises:
        ctx = branch_context(u.node, r.ast)
        if ctx and all(not br for (t, br) in ctx if any(dotted(x) == "self._parallel"
                                                         for x in walk_local(t))):
            ok = True
    chk.add("I3", u, "unknown mode raises", ok, "" if ok else "an unknown mode is silently accepted")
    # sequential branch and parallel branches reach the same worker / write-back
    seq = prog.unit(f"{BACKEND}:PtTebdBackend.apply_nn_gate")
    seq_calls = {(method_call(c) or (None, call_name(c)))[1] if method_call(c) else call_name(c)
                 for c in walk_local(seq.node) if isinstance(c, ast.Call)}
    need = {"_apply_nn_gate_get_data", "_apply_nn_gate", "_apply_nn_gate_replace_gam_lam_gam"}
    chk.add("I3", seq, f"sequential path uses {sorted(need)}", need <= seq_calls,
            "" if need <= seq_calls else f"missing {sorted(need - seq_calls)}")
    worker = prog.unit(f"{BACKEND}:apply_nn_gate")
    wcalls = {call_name(c) for c in walk_local(worker.node) if isinstance(c, ast.Call)}
    chk.add("I3", worker, "parallel worker delegates to _apply_nn_gate", "_apply_nn_gate" in wcalls,
            "" if "_apply_nn_gate" in wcalls else "the parallel worker runs different code than "
                                                   "the sequential path")
    seq_loop = [c for n in g.nodes for c in n.calls() if method_call(c) == ("self", "apply_nn_gate")]
    chk.add("I3", u, "sequential mode calls self.apply_nn_gate per gate", bool(seq_loop))


def _impure(prog: Program, u: Unit, seen: Set[str]) -> List[str]:
    if u.qual in seen:
        return []
    seen.add(u.qual)
    bad: List[str] = []
    module_names = {t.id for st in u.module.tree.body if isinstance(st, ast.Assign)
                    for t in st.targets if isinstance(t, ast.Name)}
    for x in walk_local(u.node):
        if isinstance(x, (ast.Global, ast.Nonlocal)):
            bad.append(f"{type(x).__name__.lower()} {', '.join(x.names)}")
        tg = []
        if isinstance(x, ast.Assign):
            tg = x.targets
        elif isinstance(x, (ast.AugAssign, ast.AnnAssign)):
            tg = [x.target]
        for t in tg:
            base = t
            while isinstance(base, (ast.Attribute, ast.Subscript)):
                base = base.value
            if isinstance(base, ast.Name) and base.id in module_names and t is not base:
                bad.append(f"store into module-level `{base.id}`")
            if isinstance(base, ast.Name) and base.id == "self":
                bad.append("store on self")
        if isinstance(x, ast.Call):
            fn = call_name(x)
            if fn and f"{u.module.short}:{fn}" in prog.units:
                bad += _impure(prog, prog.units[f"{u.module.short}:{fn}"], seen)
            mc = method_call(x)
            if mc and mc[0] in module_names and mc[1] in ("append", "update", "add", "pop",
                                                          "extend", "clear", "setdefault"):
                bad.append(f"mutates module-level `{mc[0]}`")
    return bad


def _eval_small(e: ast.AST, env: Dict[str, float]):
    """Evaluate an arithmetic / comparison / conditional expression over a small
    integer environment (finite case enumeration of the orderings involved)."""
    if isinstance(e, ast.Constant):
        return e.value
    if isinstance(e, ast.Name):
        return env[e.id]
    if isinstance(e, ast.Call) and dotted(e.func) == "len" and norm(e.args[0]) == "self":
        return env["n"]
    if isinstance(e, ast.BinOp):
        a, b = _eval_small(e.left, env), _eval_small(e.right, env)
        return {ast.Add: a + b, ast.Sub: a - b, ast.Mult: a * b,
                ast.Div: a / b if b else float("nan")}[type(e.op)]
    if isinstance(e, ast.Compare) and len(e.ops) == 1:
        a, b = _eval_small(e.left, env), _eval_small(e.comparators[0], env)
        return {ast.Eq: a == b, ast.NotEq: a != b, ast.Lt: a < b, ast.LtE: a <= b,
                ast.Gt: a > b, ast.GtE: a >= b}[type(e.ops[0])]
    if isinstance(e, ast.IfExp):
        return _eval_small(e.body, env) if _eval_small(e.test, env) else _eval_small(e.orelse, env)
    if isinstance(e, ast.UnaryOp) and isinstance(e.op, (ast.USub, ast.Not)):
        v = _eval_small(e.operand, env)
        return -v if isinstance(e.op, ast.USub) else (not v)
    if isinstance(e, ast.BoolOp):
        vals = [_eval_small(v, env) for v in e.values]
        return all(vals) if isinstance(e.op, ast.And) else any(vals)
    raise AnalysisError(f"I5: expression `{norm(e)}` outside the enumerated idioms")


def _exec_small(stmts, env: Dict[str, float]) -> None:
    """Evaluate plain assignments and if / elif / else over the small integer environment;
    a statement outside this fragment that binds a name makes that name unknown."""
    for st in stmts:
        if isinstance(st, ast.Assign):
            for t in st.targets:
                if isinstance(t, ast.Name):
                    try:
                        env[t.id] = _eval_small(st.value, env)
                    except (AnalysisError, KeyError, TypeError):
                        env.pop(t.id, None)
                elif isinstance(t, (ast.Tuple, ast.List)) and isinstance(st.value, (ast.Tuple, ast.List)) \
                        and len(t.elts) == len(st.value.elts):
                    vals = []
                    for e in st.value.elts:
                        try:
                            vals.append(_eval_small(e, env))
                        except (AnalysisError, KeyError, TypeError):
                            vals.append(None)
                    for el, v in zip(t.elts, vals):
                        if isinstance(el, ast.Name):
                            if v is None:
                                env.pop(el.id, None)
                            else:
                                env[el.id] = v
                else:
                    for y in ast.walk(t):
                        if isinstance(y, ast.Name):
                            env.pop(y.id, None)
        elif isinstance(st, ast.If):
            try:
                cond = _eval_small(st.test, env)
            except (AnalysisError, KeyError, TypeError):
                raise AnalysisError(f"I5: condition `{norm(st.test)}` outside the enumerated idioms")
            _exec_small(st.body if cond else st.orelse, env)
        elif isinstance(st, (ast.Expr, ast.Assert, ast.Pass)):
            continue
        elif isinstance(st, ast.AugAssign) and isinstance(st.target, ast.Name):
            try:
                cur = env[st.target.id]
                v = _eval_small(st.value, env)
                env[st.target.id] = {ast.Add: cur + v, ast.Sub: cur - v, ast.Mult: cur * v}[type(st.op)]
            except (AnalysisError, KeyError, TypeError):
                env.pop(st.target.id, None)


def i5_i6(prog: Program, chk: Check) -> None:
    chk.rule("I5", "every single-site Liouvillian enters the nearest-neighbour terms with total "
             "weight one (boundary sites once with weight 1, inner sites twice with weight 1/2), "
             "for every chain length - necessary for 'a chain without inter-site coupling evolves "
             "as the single sites'", floor=1)
    chk.rule("I6", "the gate layers of one TEBD propagator cover the time step exactly once per "
             "bond parity (order 1: even, odd with dt; order 2: the palindrome even, odd, odd, "
             "even with dt/2), and PT-TEBD applies two half-step propagators per step", floor=3)
    u = prog.unit("system:SystemChain.get_nn_full_liouvillians")
    chk.saw(u)
    du5 = DefUse(u, CFG(u.node, exc_edges=False))
    # the loop that builds the bond terms: the one that contains the weighted kron terms
    loops = [x for x in walk_local(u.node) if isinstance(x, ast.For)
             and isinstance(x.target, ast.Name)
             and any(isinstance(c, ast.Call) and (dotted(c.func) or "").split(".")[-1] == "kron"
                     for c in ast.walk(x))]
    if len(loops) != 1:
        raise AnalysisError("I5: the loop over the bonds was not found")
    loop = loops[0]
    iv = loop.target.id
    # weighted single-site terms: <weight> * kron(<site Liouvillian or identity>, ...)
    found = {}
    for x in ast.walk(loop):
        if not (isinstance(x, ast.BinOp) and isinstance(x.op, ast.Mult)):
            continue
        for w, k in ((x.left, x.right), (x.right, x.left)):
            nid = du5.node_of(x)
            if isinstance(k, ast.Name) and nid is not None:
                k = expand(du5, nid, k, depth=1)       # the Kronecker term held in a local
            if not (isinstance(k, ast.Call) and (dotted(k.func) or "").split(".")[-1] == "kron"
                    and len(k.args) == 2):
                continue
            a0, a1 = expand(du5, nid, k.args[0]), expand(du5, nid, k.args[1])
            for pos, a in ((0, a0), (1, a1)):
                if isinstance(a, ast.Subscript) and dotted(a.value) == "self._site_liouvillians":
                    off = norm(a.slice).replace(" ", "")
                    side = "l" if (pos == 0 and off == iv) else \
                        ("r" if (pos == 1 and off == f"{iv}+1") else None)
                    if side:
                        found[side] = (w, x)
    shape_ok = "l" in found and "r" in found
    if not shape_ok:
        raise AnalysisError("I5: the weights of the left / right site Liouvillian in the bond loop of "
                            "get_nn_full_liouvillians were not found")
    bad = []
    pre = [st for st in u.node.body if st is not loop and st.lineno < loop.lineno]
    if shape_ok:
        # finite case enumeration: chain lengths 2..7, every bond; the loop body is evaluated
        # over the small integer environment up to the statement that uses the weights
        use_line = min(found["l"][1].lineno, found["r"][1].lineno)
        body = [st for st in loop.body if st.lineno < use_line]
        for n in range(2, 8):
            env0 = {"n": n}
            _exec_small(pre, env0)
            it = loop.iter
            if not (isinstance(it, ast.Call) and dotted(it.func) == "range" and len(it.args) == 1):
                raise AnalysisError(f"I5: bond loop `{norm(it)}` is not range(<number of bonds>)")
            nb = _eval_small(it.args[0], env0)
            if nb != n - 1:
                bad.append((n, "bonds", nb))
                continue
            weight = {site: 0.0 for site in range(n)}
            for b in range(n - 1):
                env = dict(env0)
                env[iv] = b
                _exec_small(body, env)
                weight[b] += _eval_small(found["l"][0], env)
                weight[b + 1] += _eval_small(found["r"][0], env)
            for site, wt in weight.items():
                if abs(wt - 1.0) > 1e-12:
                    bad.append((n, site, wt))
    chk.add("I5", u, "total weight of every site Liouvillian over the bond terms", shape_ok and not bad,
            "weights sum to 1 for chain lengths 2..7" if shape_ok and not bad else
            f"site weights differ from 1 (chain length, site, weight): {bad[:4]} - e.g. in a "
            f"two-site chain the only bond is both the first and the last one")
    # I6
    cp = prog.unit("mps_mpo:compute_tebd_propagator")
    chk.saw(cp)
    branches = {}
    # each TebdPropagator(...) construction belongs to the branch `order == k` that encloses it
    for x in walk_local(cp.node):
        if not (isinstance(x, ast.Call) and call_name(x) == "TebdPropagator"):
            continue
        order = None
        for (t, br) in branch_context(cp.node, x):
            if isinstance(t, ast.Compare) and len(t.ops) == 1 and isinstance(t.ops[0], ast.Eq) \
                    and br and isinstance(t.comparators[0], ast.Constant) \
                    and dotted(t.left) == "order" and "order" in cp.params:
                order = t.comparators[0].value
        if order is None:
            raise AnalysisError("I6: a TebdPropagator is built outside an `order == k` branch")
        lst = kw_of(x).get("gate_layers", None)
        if not isinstance(lst, (ast.List, ast.Tuple)):
            raise AnalysisError("I6: gate_layers of TebdPropagator is not a literal sequence")
        seq, dts = [], set()
        du_cp = DefUse(cp, CFG(cp.node, exc_edges=False))
        for e in lst.elts:
            # each element is <layers>[parity] with <layers> = compute_trotter_layers(.., dt=..)
            if not (isinstance(e, ast.Subscript) and isinstance(e.slice, ast.Constant)):
                raise AnalysisError(f"I6: gate layer `{norm(e)}` is not <layers>[parity]")
            seq.append(e.slice.value)
            src = e.value
            if isinstance(src, ast.Name):
                d = du_cp.unique_value(du_cp.node_of(x), src.id)
                src = d.value if d is not None else None
            if not (isinstance(src, ast.Call) and call_name(src) == "compute_trotter_layers"):
                raise AnalysisError(f"I6: gate layer `{norm(e)}` does not come from "
                                    f"compute_trotter_layers")
            dt_e = kw_of(src).get("dt")
            if dt_e is None:
                raise AnalysisError("I6: compute_trotter_layers called without a dt argument")
            dts.add(norm(dt_e))
        if len(dts) != 1:
            raise AnalysisError(f"I6: layers of order {order} use different time steps {dts}")
        branches[order] = (dt_e, seq)
    for order, (dt_e, seq) in sorted(branches.items()):
        frac = None
        if dt_e is not None:
            from oqv.forms import Poly, eval_form
            f = eval_form(dt_e, lambda x: Poly.sym("TS") if dotted(x) == "time_step" else None)
            frac = f.coeff(TS=1) if f is not None else None
        per_parity = {0: 0, 1: 0}
        for k in (seq or []):
            per_parity[k] += frac if frac is not None else float("nan")
        ok = frac is not None and per_parity[0] == 1 and per_parity[1] == 1 and \
            (order == 1 or seq == list(reversed(seq)))
        chk.add("I6", cp, f"order {order}: layers {seq} with dt = {norm(dt_e) if dt_e is not None else '?'}",
                ok, f"each parity covers {per_parity[0]} x time_step" if ok else
                f"even layers cover {per_parity[0]}, odd layers {per_parity[1]} of the time step "
                f"(or the order-2 sequence is not symmetric)")
    if set(branches) != {1, 2}:
        raise AnalysisError(f"I6: Trotter orders found {sorted(branches)}, expected 1 and 2")
    pi = prog.unit("pt_tebd:PtTebd.initialize")
    c = [x for x in walk_local(pi.node) if isinstance(x, ast.Call)
         and call_name(x) == "compute_tebd_propagator"]
    ts = kw_of(c[0]).get("time_step", None) if c else None
    ok = ts is not None and norm(ts) in ("self._parameters.dt / 2.0", "self._parameters.dt / 2")
    cs = prog.unit("pt_tebd:PtTebd.compute_step")
    loops = sum(1 for x in walk_local(cs.node) if isinstance(x, ast.For)
                and "gate_layers" in norm(x.iter))
    chk.add("I6", pi, f"propagator time step {norm(ts) if ts is not None else '?'}, applied "
            f"{loops} times per step", ok and loops == 2,
            "" if ok and loops == 2 else "half-step propagators do not add up to one full step")


# --------------------------------------------------------------------- I7
def i7(prog: Program, chk: Check, rule: str = "I7") -> None:
    chk.rule(rule, "reduced density matrix of a subset of sites: between two recorded sites a < b "
             "the chain that is contracted consists of one bond matrix per bond a..b (b - a of "
             "them) and one fully traced site tensor per skipped site (b - a - 1) - counted as "
             "polynomials in a and b over the loops of get_density_matrix", floor=2)
    from oqv.forms import Poly, eval_form
    u = prog.unit("backends.pt_tebd_backend:PtTebdBackend.get_density_matrix")
    chk.saw(u)
    pair_loops = [x for x in walk_local(u.node) if isinstance(x, ast.For)
                  and isinstance(x.target, ast.Tuple) and len(x.target.elts) == 2
                  and all(isinstance(e, ast.Name) for e in x.target.elts)
                  and isinstance(x.iter, ast.Call) and dotted(x.iter.func) == "zip"]
    if len(pair_loops) != 1:
        raise AnalysisError(f"{rule}: the loop over consecutive recorded sites was not found")
    pl = pair_loops[0]
    a_name, b_name = (e.id for e in pl.target.elts)
    A, B = Poly.sym("A"), Poly.sym("B")

    def leaf(x):
        if isinstance(x, ast.Name):
            if x.id == a_name:
                return A
            if x.id == b_name:
                return B
        return None
    totals = {"self._lambdas": Poly(), "self._full_trace_gammas": Poly()}
    sites = {k: [] for k in totals}
    for x in ast.walk(pl):
        if not (isinstance(x, ast.Subscript) and dotted(x.value) in totals
                and isinstance(x.ctx, ast.Load)):
            continue
        mult = Poly.const(1)
        # enclosing loops / conditionals between the pair loop and the access
        chain = enclosing_chain(pl, x)
        for anc in chain:
            if anc is pl:
                continue
            if isinstance(anc, ast.For):
                it = anc.iter
                n = None
                if isinstance(it, ast.Call) and dotted(it.func) == "range" and not it.keywords:
                    fs = [eval_form(arg, leaf) for arg in it.args]
                    if all(f is not None for f in fs):
                        n = fs[0] if len(fs) == 1 else (fs[1] - fs[0] if len(fs) == 2 else None)
                if n is None:
                    raise AnalysisError(f"{rule}: loop `{norm(it)}` in get_density_matrix is outside "
                                        f"the enumerated idioms (range over forms in a, b)")
                mult = mult * n
            elif isinstance(anc, (ast.If, ast.IfExp)):
                mult = mult * Poly.sym("IF[" + norm(anc.test) + "]")
        totals[dotted(x.value)] = totals[dotted(x.value)] + mult
        sites[dotted(x.value)].append(norm(x))
    # which bonds / sites: enumerate small concrete gaps (the index forms are affine in a, b and
    # the loop variables) and compare the multisets of indices with lambda_{a+1..b} (the bond
    # matrix to the right of each site from a to b-1) and the traced tensors of sites a+1..b-1
    accesses = []
    for x in ast.walk(pl):
        if isinstance(x, ast.Subscript) and dotted(x.value) in totals and isinstance(x.ctx, ast.Load):
            loops_ = [anc for anc in enclosing_chain(pl, x) if isinstance(anc, ast.For) and anc is not pl]
            accesses.append((dotted(x.value), x.slice, loops_))

    def ev(e, env):
        if isinstance(e, ast.Constant) and isinstance(e.value, int):
            return e.value
        if isinstance(e, ast.Name):
            return env.get(e.id)
        if isinstance(e, ast.BinOp) and isinstance(e.op, (ast.Add, ast.Sub)):
            l_, r_ = ev(e.left, env), ev(e.right, env)
            if l_ is None or r_ is None:
                return None
            return l_ + r_ if isinstance(e.op, ast.Add) else l_ - r_
        if isinstance(e, ast.UnaryOp) and isinstance(e.op, ast.USub):
            v = ev(e.operand, env)
            return None if v is None else -v
        return None

    def indices(slice_e, loops_, env):
        if not loops_:
            v = ev(slice_e, env)
            return None if v is None else [v]
        lp = loops_[0]
        if not (isinstance(lp.target, ast.Name) and isinstance(lp.iter, ast.Call)
                and dotted(lp.iter.func) == "range" and 1 <= len(lp.iter.args) <= 2):
            return None
        bounds = [ev(a_, env) for a_ in lp.iter.args]
        if any(b_ is None for b_ in bounds):
            return None
        lo, hi = (0, bounds[0]) if len(bounds) == 1 else bounds
        out = []
        for v in range(lo, hi):
            sub = indices(slice_e, loops_[1:], dict(env, **{lp.target.id: v}))
            if sub is None:
                return None
            out += sub
        return out
    witness = None
    for (a_, b_) in ((0, 1), (0, 2), (0, 3), (1, 4), (2, 6)):
        got = {k: [] for k in totals}
        readable = True
        for (attr, sl, loops_) in accesses:
            idx = indices(sl, loops_, {a_name: a_, b_name: b_})
            if idx is None:
                readable = False
                break
            got[attr] += idx
        if not readable:
            witness = ("unreadable", a_, b_, None, None)
            break
        exp = {"self._lambdas": list(range(a_ + 1, b_ + 1)),
               "self._full_trace_gammas": list(range(a_ + 1, b_))}
        for k in totals:
            if sorted(got[k]) != exp[k]:
                witness = (k, a_, b_, sorted(got[k]), exp[k])
                break
        if witness:
            break
    if witness and witness[0] == "unreadable":
        chk.add(rule, u, "bond matrices / traced sites between a and b: index sets", None,
                "index expressions outside the enumerated idioms (affine in a, b and range "
                "variables)", pl)
    else:
        chk.add(rule, u, "bond matrices / traced sites between a and b: index sets for gaps "
                "(0,1) (0,2) (0,3) (1,4) (2,6)", witness is None,
                "lambda_{a+1..b} and the traced tensors of sites a+1..b-1, each once"
                if witness is None else
                f"between sites {witness[1]} and {witness[2]} the contraction uses "
                f"{witness[0].split('.')[-1]}{witness[3]}, the chain between them consists of "
                f"{witness[0].split('.')[-1]}{witness[4]}: a bond matrix enters twice and another is "
                f"missing - the reduced state of non-adjacent sites is wrong (trace, positivity) "
                f"once the chain is correlated", pl)
    want = {"self._lambdas": B - A, "self._full_trace_gammas": B - A - Poly.const(1)}
    for k in totals:
        ok = totals[k] == want[k]
        chk.add(rule, u, f"{k.split('.')[-1]} between sites a and b: {sites[k]}", ok,
                f"{totals[k]} of them" if ok else
                f"{totals[k]} of them, expected {want[k]}: bond matrices inside a gap of two or "
                f"more skipped sites are dropped (or counted twice); the reduced state of "
                f"non-adjacent sites is wrong although every single-site state is right", pl)


def i8(prog: Program, chk: Check) -> None:
    chk.rule("I8", "a chain state saved with get_augmented_mps() and handed back continues where it stopped: AugmentedMPS stores the gammas and lambdas it is given through value-preserving conversions only (the back end keeps the weight of the state in its unnormalised lambdas - normalising them to the pure-state convention sum(lambda^2) = 1 rescales every reduced density matrix of the continued run)", floor=2)
    from rules.valueflow import containers_keep_values
    containers_keep_values(prog, chk, "I8", which={'AugmentedMPS'})


def i9(prog: Program, chk: Check) -> None:
    chk.rule("I9", "the traces that turn the chain tensors into reduced density matrices belong to "
             "the current chain state: a back-end method that recomputes derived state only when "
             "it is missing (early return while the cached attribute is set) is reset by every "
             "method that changes the tensors it was computed from - otherwise a read-out between "
             "two compute calls (get_current_density_matrix) makes the next recorded step use the "
             "traces of the previous one, in every execution mode", floor=1)
    from rules.c20 import guarded_caches
    gc, n_guards = guarded_caches(prog)
    for (gu, attr, mu, written) in gc:
        if "pt_tebd" not in gu.qual:
            continue
        chk.saw(gu)
        chk.add("I9", gu, f"cache {attr} (guarded early return) vs "
                f"{mu.qual.split(':')[1]} writing {written}", False,
                f"{mu.qual.split(':')[1]} changes {written} without resetting {attr}: the states "
                f"recorded after a read-out are those of the earlier step", gu.node)
    units = [u for u in prog.units_in("backends.pt_tebd_backend") if not isinstance(u.node, ast.Lambda)]
    chk.add("I9", prog.module("backends.pt_tebd_backend"),
            f"{len(units)} functions of the PT-TEBD back end scanned, {n_guards} guarded caches in "
            f"the package", len(units) >= 15, "" if len(units) >= 15 else "the module shrank")


def i10(prog: Program, chk: Check) -> None:
    chk.rule("I10", "PT-TEBD attaches a process tensor to a site the way every other consumer "
             "does: in PtTebdBackend.apply_process_tensors axis 0 of the MPO tensor meets the "
             "current bond leg, axis 1 becomes the new one, axis 2 (system input) meets the "
             "site's physical leg and axis 3 (system output) becomes the new physical leg "
             "(leg roles inferred from what each axis is connected to / stored as; table shared "
             "with C03 M1) - exchanging 2 and 3 applies the transposed local map, invisible for "
             "PT-TEMPO tensors, which are symmetric under that exchange", floor=1)
    from rules import c03
    c03.leg_role_table(prog, chk, "I10", ["backends.pt_tebd_backend:PtTebdBackend.apply_process_tensors"])


def i12(prog: Program, chk: Check) -> None:
    chk.rule("I12", "every bond of the chain gets a gate of its own: each element that "
             "compute_trotter_layers collects is built for the bond of the current iteration "
             "(compute_nn_gate(.., site=<loop index>, ..) with that bond's Liouvillian and the "
             "dimensions of sites i, i+1). A gate object carries its site; one that is reused for "
             "another bond with the same Liouvillian is applied twice at the first bond and never "
             "at the second", floor=3)
    from oqv.dataflow import origin as _origin
    u = prog.unit("mps_mpo:compute_trotter_layers")
    du = DefUse(u, CFG(u.node, exc_edges=False))
    chk.saw(u, du.cfg)
    n = 0
    # collected elements: list.append in a loop, or the element of a comprehension
    for loop in [x for x in walk_local(u.node) if isinstance(x, ast.For)]:
        tgt = loop.target
        idx = None
        if isinstance(loop.iter, ast.Call) and call_name(loop.iter) == "enumerate" \
                and isinstance(tgt, ast.Tuple) and isinstance(tgt.elts[0], ast.Name):
            idx = tgt.elts[0].id
        elif isinstance(loop.iter, ast.Call) and call_name(loop.iter) == "range" and isinstance(tgt, ast.Name):
            idx = tgt.id
        for c in [x for x in walk_local(loop) if isinstance(x, ast.Call) and method_call(x)
                  and method_call(x)[1] == "append" and x.args]:
            n += 1
            o = c.args[0]
            for _ in range(3):          # through plain locals, to the expression as written
                if isinstance(o, ast.Name):
                    d_ = du.unique_value(du.node_of(c), o.id)
                    if d_ is None or d_.value is None or d_.sel:
                        break
                    o = d_.value
            built = isinstance(o, ast.Call) and call_name(o) in ("compute_nn_gate", "NnGate")
            site = kw_of(o).get("site") if built else None
            if built and site is None and call_name(o) == "NnGate" and o.args:
                site = o.args[0]
            ok = built and idx is not None and isinstance(site, ast.Name) and site.id == idx \
                and any(x is o for x in ast.walk(loop))
            chk.add("I12", u, f"{norm(c)[:50]}: element <- {norm(o)[:40] if o is not None else '?'}", ok,
                    f"gate built for bond {idx} in this iteration" if ok else
                    "the collected gate is not built for the bond of this iteration (reused / taken "
                    "from elsewhere): it keeps the site it was made for", c)
    for lc in [x for x in walk_local(u.node) if isinstance(x, ast.ListComp)]:
        o = lc.elt
        if isinstance(o, ast.Call) and call_name(o) in ("compute_nn_gate", "NnGate"):
            n += 1
            g0 = lc.generators[0]
            idx = None
            if isinstance(g0.iter, ast.Call) and call_name(g0.iter) == "enumerate" \
                    and isinstance(g0.target, ast.Tuple) and isinstance(g0.target.elts[0], ast.Name):
                idx = g0.target.elts[0].id
            elif isinstance(g0.iter, ast.Call) and call_name(g0.iter) == "range" and isinstance(g0.target, ast.Name):
                idx = g0.target.id
            site = kw_of(o).get("site")
            ok = idx is not None and isinstance(site, ast.Name) and site.id == idx and not g0.ifs
            chk.add("I12", u, f"[{norm(o)[:40]} for ...]", ok,
                    "" if ok else "the gate's site is not the index of the bond it is built for", lc)
    if n < 1:
        raise AnalysisError("I12: compute_trotter_layers no longer collects gates bond by bond")
    # the halves of the Trotter step take alternating bonds of that list
    sl = [norm(x) for x in walk_local(u.node) if isinstance(x, ast.Subscript) and isinstance(x.slice, ast.Slice)]
    ok = any(s_.endswith("[0::2]") or s_.endswith("[::2]") for s_ in sl) and any(s_.endswith("[1::2]") for s_ in sl)
    chk.add("I12", u, f"even / odd layers: {sorted(set(sl))[:4]}", ok,
            "" if ok else "the layers are not the even and the odd bonds")
    cg = prog.unit("mps_mpo:compute_nn_gate")
    chk.saw(cg)
    built = [c for c in walk_local(cg.node) if isinstance(c, ast.Call) and call_name(c) == "NnGate"]
    ok = bool(built) and all(
        (isinstance(kw_of(c).get("site"), ast.Name) and kw_of(c)["site"].id == "site")
        or (c.args and isinstance(c.args[0], ast.Name) and c.args[0].id == "site") for c in built)
    chk.add("I12", cg, "compute_nn_gate builds NnGate(site=site, ..)", ok,
            "" if ok else "the gate does not carry the site it was asked for")


def run(prog: Program, chk: Check) -> None:
    chk.explanation = (
        "Decides two clauses of C10: 'all execution modes are usable' as far as name resolution "
        "and dispatch go (I1: the submodule concurrent.futures must be imported explicitly - "
        "decided by locating the package on sys.path and parsing its __init__.py, nothing is "
        "imported; I3: dispatch table) and 'results do not depend on the order in which gates "
        "of a layer complete' (I2: effect + ordering rule - under (i)-(v) the layer result is a "
        "function of the inputs alone for every completion order).")
    chk.not_decided = ("Exactness against single-site / dense propagation, norm conservation, "
                       "picklability of the work items; I5/I6 are necessary structural "
                       "conditions of the exactness clauses (site weights, layer durations), not "
                       "exactness itself.")
    chk.assumptions = [
        "concurrent.futures: Executor.map yields results in submission order; leaving the "
        "`with` block joins all workers",
        "tensornetwork Node.copy() returns an independent node",
    ]
    chk.call(i1, prog, chk)
    chk.call(i2_i3, prog, chk)
    chk.call(i5_i6, prog, chk)
    chk.call(i7, prog, chk)
    chk.call(i8, prog, chk)
    chk.call(i9, prog, chk)
    chk.call(i10, prog, chk)
    from rules.c03 import site_gate_convention
    chk.call(site_gate_convention, prog, chk, "I11")
    chk.call(i12, prog, chk)
