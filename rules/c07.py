"""C07 - multi-time correlations aligned with the returned time axes.

V1 one time step for axes and dynamics, V2 values and write-back indices
selected together, V3 no wrap-around in interval parsing, V4 anti-ordering
swap-in / swap-out under one predicate, V5 NaN-initialised result written
only at scheduled indices.
"""
from __future__ import annotations

import ast
from typing import Dict, List, Optional, Set, Tuple

from oqv import roles, rolebind
from oqv.astutil import branch_context, call_name, method_call
from oqv.cfg import CFG
from oqv.dataflow import DefUse
from oqv.model import AnalysisError, Program, Unit, dotted, norm, walk_local
from oqv.report import Check

SD = "system_dynamics"


# --------------------------------------------------------------------- V1
def v1(prog: Program, chk: Check) -> None:
    chk.rule("V1", "the time step that labels the returned axes is the value that reaches "
             "compute_dynamics(dt=...) through _compute_ordered_nt_correlations", floor=3)
    u = prog.unit(f"{SD}:compute_correlations_nt")
    du = DefUse(u, CFG(u.node, exc_edges=False))
    chk.saw(u, du.cfg)
    # the DT value used for the labels
    label_dt = None
    for c in walk_local(u.node):
        if isinstance(c, ast.Call) and method_call(c) == ("ret_times", "append"):
            nid = du.node_of(c)
            e = c.args[0]
            if isinstance(e, ast.Name):
                d = du.unique_value(nid, e.id)
                if d is not None and d.value is not None:
                    nid, e = d.node, d.value
            for x in walk_local(e):
                if isinstance(x, ast.Name) and roles.role_of(x) == "DT":
                    label_dt = (x.id, frozenset(dd.id for dd in du.reaching(nid, x.id)))
    if label_dt is None:
        raise AnalysisError("V1: the DT value labelling ret_times was not found")
    inner = prog.unit(f"{SD}:_compute_ordered_nt_correlations")
    calls = [c for c in walk_local(u.node) if isinstance(c, ast.Call)
             and call_name(c) == "_compute_ordered_nt_correlations"]
    if len(calls) != 1:
        raise AnalysisError("V1: call of _compute_ordered_nt_correlations not found")
    c = calls[0]
    bound = rolebind._bind(inner, c) or {}
    if "**" in bound:
        bound.update(rolebind._expand_kwargs(u, bound.pop("**")))
    dt_params = [p for p in inner.params if rolebind.role_of_name(p) == "DT"]
    if len(dt_params) != 1:
        raise AnalysisError("V1: _compute_ordered_nt_correlations has no unique DT parameter")
    arg = bound.get(dt_params[0])
    ok = False
    why = (f"the callee's `{dt_params[0]}` is not bound: the dynamics use the process tensor's "
           f"own time step while the axes are labelled with `{label_dt[0]}` (and a process "
           f"tensor without dt fails with 'No timestep length')")
    if arg is not None:
        nid = du.node_of(c)
        if isinstance(arg, ast.Name) and arg.id == label_dt[0]:
            # for a dict literal the value is evaluated where the dict is built
            dict_nodes = [n.id for n in du.cfg.nodes if n.kind == "stmt"
                          and isinstance(n.ast, ast.Assign) and isinstance(n.ast.value, ast.Dict)
                          and any(v is arg for v in n.ast.value.values)]
            at = dict_nodes[0] if dict_nodes else nid
            same = frozenset(dd.id for dd in du.reaching(at, arg.id)) == label_dt[1]
            ok = same
            why = f"`{dt_params[0]}` = `{arg.id}` (same definition as the label)" if same else \
                f"`{arg.id}` is redefined between labelling and the call"
        else:
            why = (f"`{dt_params[0]}` is bound to `{norm(arg)}`, not to the value "
                   f"`{label_dt[0]}` that labels the axes")
    chk.add("V1", u, f"_compute_ordered_nt_correlations(.., {dt_params[0]}=?)", ok, why, c)
    # inside the callee the parameter reaches compute_dynamics(dt=...)
    cd = [x for x in walk_local(inner.node) if isinstance(x, ast.Call)
          and call_name(x) == "compute_dynamics"]
    if len(cd) != 1:
        raise AnalysisError("V1: compute_dynamics call vanished from _compute_ordered_nt_correlations")
    kw = {k.arg: k.value for k in cd[0].keywords}
    ok = dotted(kw.get("dt")) == dt_params[0] if kw.get("dt") is not None else False
    chk.add("V1", inner, f"compute_dynamics(dt={norm(kw['dt']) if 'dt' in kw else '<missing>'})", ok,
            "" if ok else "the time step parameter does not reach the dynamics", cd[0])
    # num_steps covers the latest requested time, control is forwarded
    ok = "control" in kw and "num_steps" in kw and "start_time" in kw
    chk.add("V1", inner, "compute_dynamics receives control, num_steps, start_time", ok,
            "" if ok else f"missing keyword(s): {sorted({'control','num_steps','start_time'}-set(kw))}",
            cd[0])


# --------------------------------------------------------------------- V2
def v2(prog: Program, chk: Check) -> None:
    chk.rule("V2", "where a subset of the last operator's times is selected by a predicate, the "
             "write-back indices are selected by the same selector (same mask value)", floor=1)
    u = prog.unit(f"{SD}:compute_correlations_nt")
    du = DefUse(u, CFG(u.node, exc_edges=False))
    # filtered selections inside the function: X = A[sel] with a non-constant, non-slice selector
    sels: List[Tuple[int, ast.Assign, ast.Subscript]] = []
    for n in du.cfg.nodes:
        if n.kind == "stmt" and isinstance(n.ast, ast.Assign) and \
                isinstance(n.ast.value, ast.Subscript):
            sels.append((n.id, n.ast, n.ast.value))

    def origin(nid: int, e: ast.AST, depth=0) -> str:
        """'times' / 'indices' / '' - which of the two parallel schedule arrays e derives from."""
        if depth > 6:
            return ""
        s = norm(e)
        if "sch_indices" in s:
            return "indices"
        if "schedule" in s:
            return "times"
        if isinstance(e, ast.Subscript):
            return origin(nid, e.value, depth + 1)
        if isinstance(e, ast.Name):
            for d in du.reaching(nid, e.id):
                if d.value is not None and d.node != nid:
                    o = origin(d.node, d.value, depth + 1)
                    if o:
                        return o
        return ""

    def selector_sig(nid: int, sub: ast.Subscript) -> Tuple[str, str]:
        sl = sub.slice
        if isinstance(sl, ast.Slice):
            return "slice", norm(sl)
        if isinstance(sl, ast.Constant):
            return "const", norm(sl)
        e = sl
        if isinstance(e, ast.Name):
            d = du.unique_value(nid, e.id)
            if d is not None and d.value is not None and not d.sel:
                return "mask", f"{e.id}@{d.id}"
        return "mask", norm(e)
    def base_text(nid: int, b: ast.AST) -> str:
        if isinstance(b, ast.Name):
            d = du.unique_value(nid, b.id)
            if d is not None and d.value is not None and not d.sel:
                return norm(d.value)
        return norm(b)

    def is_int_const(e: ast.AST) -> bool:
        if isinstance(e, ast.UnaryOp) and isinstance(e.op, ast.USub):
            e = e.operand
        return isinstance(e, ast.Constant) and isinstance(e.value, int)
    t_sel, i_sel = [], []
    for (nid, a, sub) in sels:
        if is_int_const(sub.slice):
            continue
        bt = base_text(nid, sub.value)
        if bt.startswith("schedule[") and bt.endswith("[-1]"):
            t_sel.append((nid, a, sub))
        elif bt.startswith("sch_indices[") and bt.endswith("[-1]"):
            i_sel.append((nid, a, sub))
    if not t_sel or not i_sel:
        raise AnalysisError("V2: the filtered selection of last_times / sch_indices was not found")
    for (tn, ta, ts) in t_sel:
        tsig = selector_sig(tn, ts)
        partner = None
        for (in_, ia, is_) in i_sel:
            partner = (in_, ia, is_)
        isig = selector_sig(partner[0], partner[2])
        ok = tsig == isig and tsig[0] == "mask"
        chk.add("V2", u, f"{norm(ta)}  ||  {norm(partner[1])}", ok,
                "values and indices filtered by the same mask" if ok else
                f"values are selected by `{norm(ts.slice)}` but their indices by "
                f"`{norm(partner[2].slice)}`: for a time list that is not ascending (e.g. "
                f"[4,3,2,1,0]) results are written to the wrong positions", ta)


# --------------------------------------------------------------------- V3
def _interval(du: DefUse, nid: int, e: ast.AST, guards: Dict[str, Tuple[float, float]],
              depth=0) -> Tuple[float, float]:
    INF = float("inf")
    if depth > 6:
        return (-INF, INF)
    if isinstance(e, ast.Constant) and isinstance(e.value, (int, float)) \
            and not isinstance(e.value, bool):
        return (e.value, e.value)
    if isinstance(e, ast.UnaryOp) and isinstance(e.op, ast.USub):
        lo, hi = _interval(du, nid, e.operand, guards, depth + 1)
        return (-hi, -lo)
    if isinstance(e, ast.IfExp):
        a = _interval(du, nid, e.body, guards, depth + 1)
        b = _interval(du, nid, e.orelse, guards, depth + 1)
        return (min(a[0], b[0]), max(a[1], b[1]))
    if isinstance(e, ast.BinOp) and isinstance(e.op, (ast.Add, ast.Sub)):
        a = _interval(du, nid, e.left, guards, depth + 1)
        b = _interval(du, nid, e.right, guards, depth + 1)
        if isinstance(e.op, ast.Add):
            return (a[0] + b[0], a[1] + b[1])
        return (a[0] - b[1], a[1] - b[0])
    if isinstance(e, ast.Name):
        if e.id in guards:
            return guards[e.id]
        ds = du.reaching(nid, e.id)
        if ds and all(d.value is not None and not d.sel for d in ds):
            ivs = [_interval(du, d.node, d.value, guards, depth + 1) for d in ds]
            return (min(i[0] for i in ivs), max(i[1] for i in ivs))
    return (-INF, INF)


def v3(prog: Program, chk: Check) -> None:
    chk.rule("V3", "a slice whose step may be negative must not have a stop that can evaluate to "
             "-1 (Python wraps it to the last element and the selection is empty)", floor=1)
    u = prog.unit(f"{SD}:_parse_times")
    du = DefUse(u, CFG(u.node, exc_edges=False))
    chk.saw(u, du.cfg)
    # guards of the form  if X < 0 or X > max_step: raise
    guards: Dict[str, Tuple[float, float]] = {}
    for st in walk_local(u.node):
        if isinstance(st, ast.If) and any(isinstance(b, ast.Raise) for b in st.body):
            for cmp_ in ast.walk(st.test):
                if isinstance(cmp_, ast.Compare) and isinstance(cmp_.left, ast.Name) \
                        and len(cmp_.ops) == 1 and isinstance(cmp_.ops[0], ast.Lt) \
                        and isinstance(cmp_.comparators[0], ast.Constant) \
                        and cmp_.comparators[0].value == 0:
                    lo, hi = guards.get(cmp_.left.id, (-float("inf"), float("inf")))
                    guards[cmp_.left.id] = (0, hi)
    n = 0
    for x in walk_local(u.node):
        interval_site = None
        if isinstance(x, ast.Subscript) and isinstance(x.slice, ast.Slice) and x.slice.step is not None:
            nid = du.node_of(x)
            step_iv = _interval(du, nid, x.slice.step, guards)
            if step_iv[0] >= 0:
                continue
            n += 1
            if x.slice.upper is None:
                chk.add("V3", u, norm(x), True, "open stop", x)
                continue
            stop_iv = _interval(du, nid, x.slice.upper, guards)
            ok = stop_iv[0] > -1 or (isinstance(x.slice.upper, ast.IfExp) and
                                     any(isinstance(y, ast.Constant) and y.value is None
                                         for y in ast.walk(x.slice.upper)))
            chk.add("V3", u, norm(x), ok,
                    f"stop in [{stop_iv[0]}, {stop_iv[1]}]" if ok else
                    f"step can be negative and the stop `{norm(x.slice.upper)}` ranges over "
                    f"[{stop_iv[0]}, {stop_iv[1]}]: an interval running down to step 0 gets "
                    f"stop -1, which Python treats as 'last element' - the selection is empty "
                    f"and the call fails", x)
        elif isinstance(x, ast.Call) and (dotted(x.func) or "").split(".")[-1] == "arange" \
                and len(x.args) == 3:
            nid = du.node_of(x)
            step_iv = _interval(du, nid, x.args[2], guards)
            if step_iv[0] < 0:
                n += 1
                chk.add("V3", u, norm(x), True,
                        "np.arange(start, stop, step) does not wrap a stop of -1", x)
    if n < 1:
        raise AnalysisError("V3: the descending interval selection in _parse_times was not found")


# --------------------------------------------------------------------- V4
def v4(prog: Program, chk: Check) -> None:
    chk.rule("V4", "anti-ordering: operators and time specifications are swapped going in iff "
             "the returned axes are reversed and the array transposed coming out, under the same "
             "predicate", floor=3)
    u = prog.unit(f"{SD}:compute_correlations")
    chk.saw(u)
    ifs = [st for st in u.node.body if isinstance(st, ast.If)]
    by_test: Dict[str, List[ast.If]] = {}
    for st in ifs:
        by_test.setdefault(norm(st.test), []).append(st)

    def lists(block: ast.If) -> Dict[str, List[str]]:
        out = {}
        for st in block.body:
            if isinstance(st, ast.Assign) and isinstance(st.value, ast.List):
                out[dotted(st.targets[0])] = [norm(e) for e in st.value.elts]
        return out
    ordered = next((b for t, bs in by_test.items() for b in bs if "'ordered'" in t), None)
    anti_blocks = [b for t, bs in by_test.items() for b in bs if "'anti'" in t]
    if ordered is None or len(anti_blocks) < 1:
        raise AnalysisError("V4: ordered / anti branches of compute_correlations not found")
    lo = lists(ordered)
    la = lists(anti_blocks[0])
    for k in ("operators", "ops_times"):
        if k not in lo or k not in la:
            raise AnalysisError(f"V4: list `{k}` not assigned in both branches")
        ok = la[k] == list(reversed(lo[k]))
        chk.add("V4", u, f"anti: {k} = {la[k]}", ok,
                "swapped relative to the ordered branch" if ok else
                f"not the reversal of the ordered branch {lo[k]}", anti_blocks[0])
    out_blocks = [b for b in anti_blocks[1:]]
    swapped_out = False
    detail = "no block under the same predicate undoes the swap on the results"
    for b in out_blocks:
        for st in b.body:
            if isinstance(st, ast.Assign) and isinstance(st.value, ast.Tuple) \
                    and len(st.value.elts) == 2:
                a, m = st.value.elts
                rev = isinstance(a, ast.Subscript) and isinstance(a.slice, ast.Slice) \
                    and a.slice.step is not None and norm(a.slice.step) == "-1" \
                    and a.slice.lower is None and a.slice.upper is None
                tr = (isinstance(m, ast.Call) and isinstance(m.func, ast.Attribute)
                      and m.func.attr in ("transpose",)) or \
                     (isinstance(m, ast.Attribute) and m.attr == "T")
                swapped_out = rev and tr
                detail = "axes list reversed and array transposed" if swapped_out else \
                    f"results are returned as {norm(st.value)}"
    chk.add("V4", u, "anti: results swapped back under the same predicate", swapped_out, detail,
            out_blocks[0] if out_blocks else anti_blocks[0])


# --------------------------------------------------------------------- V5
def v5(prog: Program, chk: Check) -> None:
    chk.rule("V5", "the result array is initialised to NaN and written only at the scheduled "
             "indices of the current schedule entry", floor=2)
    u = prog.unit(f"{SD}:compute_correlations_nt")
    stores = []
    for st in walk_local(u.node):
        if isinstance(st, ast.Assign):
            for t in st.targets:
                if isinstance(t, ast.Subscript) and dotted(t.value) == "ret_correlations":
                    stores.append((st, t))
    init = [s for s in stores if isinstance(s[1].slice, ast.Slice) and "nan" in norm(s[0].value)]
    writes = [s for s in stores if s not in init]
    chk.add("V5", u, "ret_correlations[:] = NaN", len(init) == 1,
            "" if len(init) == 1 else "the result array is not initialised to NaN")
    ok = len(writes) == 1 and norm(writes[0][1].slice) == "sch_indices[i]"
    chk.add("V5", u, f"writes: {[norm(w[0]) for w in writes]}", ok,
            "" if ok else "results are written elsewhere than at sch_indices[i]")


def v6_v7(prog: Program, chk: Check) -> None:
    chk.rule("V6", "the filter that keeps the time-ordered part of the last times is the exact "
             "complement of the test that detects unordered entries (equal times are ordered)",
             floor=1)
    chk.rule("V7", "'left' / 'right' select left_super / right_super; the ordered two-time "
             "correlation applies both operators from the left", floor=2)
    u = prog.unit(f"{SD}:compute_correlations_nt")
    du = DefUse(u, CFG(u.node, exc_edges=False))

    def norm_cmp(c: ast.Compare) -> Optional[Tuple[str, str, str]]:
        if len(c.ops) != 1:
            return None
        op = {ast.Gt: ">", ast.GtE: ">=", ast.Lt: "<", ast.LtE: "<="}.get(type(c.ops[0]))
        if op is None:
            return None
        l, r = norm(c.left), norm(c.comparators[0])
        if op in ("<", "<="):          # write everything as  big OP small
            l, r, op = r, l, {"<": ">", "<=": ">="}[op]
        return l, op, r
    trigger = keep = None
    for st in walk_local(u.node):
        if isinstance(st, ast.If):
            for c in ast.walk(st.test):
                if isinstance(c, ast.Compare) and "last_times" in norm(c) and "ft_max" in norm(c):
                    trigger = norm_cmp(c)
        if isinstance(st, ast.Assign) and isinstance(st.value, ast.Compare) \
                and "last_times" in norm(st.value) and "ft_max" in norm(st.value):
            keep = norm_cmp(st.value)
        if isinstance(st, ast.Assign) and isinstance(st.value, ast.Subscript) and \
                isinstance(st.value.slice, ast.Compare) and "ft_max" in norm(st.value.slice):
            keep = norm_cmp(st.value.slice)
    ok = trigger is not None and keep is not None and \
        trigger[0] == keep[2] and trigger[2] == keep[0] and \
        {trigger[1], keep[1]} == {">", ">="}
    chk.add("V6", u, f"unordered if {trigger}, kept if {keep}", ok,
            "complementary predicates" if ok else
            "an entry can be neither detected as unordered nor kept (or both): entries at equal "
            "times become NaN or unordered entries are computed")
    inner = prog.unit(f"{SD}:_compute_ordered_nt_correlations")
    table = {}
    for st in walk_local(inner.node):
        if isinstance(st, ast.If):
            cur = st
            while isinstance(cur, ast.If):
                t = cur.test
                if isinstance(t, ast.Compare) and isinstance(t.comparators[0], ast.Constant) \
                        and "ops_order" in norm(t.left):
                    fns = [call_name(c) for c in ast.walk(ast.Module(body=cur.body, type_ignores=[]))
                           if isinstance(c, ast.Call) and (call_name(c) or "").endswith("_super")]
                    table[t.comparators[0].value] = fns
                cur = cur.orelse[0] if len(cur.orelse) == 1 else None
            break
    ok = table == {"left": ["left_super"], "right": ["right_super"]}
    chk.add("V7", inner, f"ops_order table {table}", ok,
            "" if ok else "'left'/'right' do not select left_super/right_super")
    cc = prog.unit(f"{SD}:compute_correlations")
    orders = {}
    for st in cc.node.body:
        if isinstance(st, ast.If) and isinstance(st.test, ast.Compare) and \
                isinstance(st.test.comparators[0], ast.Constant):
            for b in st.body:
                if isinstance(b, ast.Assign) and dotted(b.targets[0]) == "ops_order" \
                        and isinstance(b.value, ast.List):
                    orders[st.test.comparators[0].value] = [e.value for e in b.value.elts]
    ok = orders == {"ordered": ["left", "left"], "anti": ["right", "left"]}
    chk.add("V7", cc, f"ops_order per time_order {orders}", ok,
            "" if ok else "expected ordered -> [left, left], anti -> [right, left]")
    # the expectation is taken with the LAST operator and read at the last times
    ok1 = any(isinstance(c, ast.Call) and method_call(c) == ("dynamics", "expectations")
              and norm(c.args[0]) == "operators[-1]" for c in walk_local(inner.node))
    ok2 = any(isinstance(x, ast.Subscript) and norm(x) == "corr[last_times]"
              for x in walk_local(inner.node))
    chk.add("V7", inner, "expectation of operators[-1] read at last_times", ok1 and ok2,
            "" if ok1 and ok2 else "the last operator / its times are not the ones read out")


def run(prog: Program, chk: Check) -> None:
    chk.explanation = (
        "Decides the alignment bookkeeping of compute_correlations(_nt): V1 the time step that "
        "labels the axes reaches the dynamics (interprocedural def-use incl. the **parameters "
        "dictionary); V2 values and write-back indices are filtered by the same mask; V3 "
        "interval analysis of slice bounds in _parse_times (no stop of -1 with a negative step); "
        "V4 swap-in / swap-out symmetry of the anti-ordered path; V5 NaN initialisation and "
        "single write site. Float times are rounded relative to start_time (decided under C15).")
    chk.not_decided = ("Exactness of the correlation values and the bath-occupation kernels of "
                       "bath_dynamics.")
    chk.assumptions = ["Python slice semantics: a negative stop counts from the end",
                       "numpy boolean-mask indexing keeps positions; np.arange(a, b, -1) "
                       "treats b = -1 literally"]
    v1(prog, chk)
    v2(prog, chk)
    v3(prog, chk)
    v4(prog, chk)
    v5(prog, chk)
    v6_v7(prog, chk)
