"""C07 - multi-time correlations aligned with the returned time axes.

V1 one time step for axes and dynamics, V2 values and write-back indices
selected together, V3 no wrap-around in interval parsing, V4 anti-ordering
swap-in / swap-out under one predicate, V5 NaN-initialised result written
only at scheduled indices.
"""
from __future__ import annotations

import ast
from typing import Dict, List, Optional, Set, Tuple

from oqv import roles, rolebind
from oqv.astutil import branch_context, call_name, method_call
from oqv.cfg import CFG
from oqv.dataflow import DefUse, origin
from oqv.model import AnalysisError, Program, Unit, dotted, norm, walk_local, kw_of
from oqv.report import Check

SD = "system_dynamics"


class NtView:
    """compute_correlations_nt with its working variables identified by what they are made
    from / flow into (not by their names): the two returned objects, the schedule pair from
    _schedule_nt_correlations, the arguments of _compute_ordered_nt_correlations."""

    def __init__(self, prog: Program):
        self.u = prog.unit(f"{SD}:compute_correlations_nt")
        self.du = DefUse(self.u, CFG(self.u.node, exc_edges=False))
        rets = [r for r in walk_local(self.u.node) if isinstance(r, ast.Return)]
        if len(rets) != 1 or not isinstance(rets[0].value, ast.Tuple) \
                or len(rets[0].value.elts) != 2 \
                or not all(isinstance(e, ast.Name) for e in rets[0].value.elts):
            raise AnalysisError("C07: compute_correlations_nt no longer returns (times, values) "
                                "as two local variables")
        self.ret_times, self.ret_corr = [e.id for e in rets[0].value.elts]
        # the two outputs of the scheduler, however they are taken apart (DefUse gives tuple
        # unpacking and indexing of a temporary the same shape)
        outs = {d.sel[0][1]: d.name for d in self.du.defs
                if isinstance(d.value, ast.Call) and call_name(d.value) == "_schedule_nt_correlations"
                and d.sel and d.sel[0][0] == "idx"}
        if set(outs) != {0, 1}:
            raise AnalysisError("C07: `schedule, indices = _schedule_nt_correlations(..)` not found")
        self.schedule, self.sch_indices = outs[0], outs[1]
        calls = [c for c in walk_local(self.u.node) if isinstance(c, ast.Call)
                 and call_name(c) == "_compute_ordered_nt_correlations"]
        if len(calls) != 1:
            raise AnalysisError("C07: call of _compute_ordered_nt_correlations not found")
        self.inner_call = calls[0]
        kw = kw_of(calls[0])
        self.last_times = kw["last_times"].id if isinstance(kw.get("last_times"), ast.Name) else None
        self.first_times = kw["first_times"].id if isinstance(kw.get("first_times"), ast.Name) \
            else None
        loops = [x for x in walk_local(self.u.node) if isinstance(x, ast.For)
                 and any(isinstance(y, ast.Name) and y.id == self.schedule for y in ast.walk(x.iter))
                 and isinstance(x.target, ast.Name)]
        self.loop_var = loops[0].target.id if len(loops) == 1 else None

    def canon(self, e: ast.AST) -> str:
        """Text of e with the identified working variables written canonically."""
        import copy
        m = {self.ret_times: "RET_TIMES", self.ret_corr: "RET_CORR", self.schedule: "SCHEDULE",
             self.sch_indices: "SCH_INDICES"}
        if self.last_times:
            m[self.last_times] = "LAST_TIMES"
        if self.first_times:
            m[self.first_times] = "FIRST_TIMES"
        if self.loop_var:
            m[self.loop_var] = "K"

        class T(ast.NodeTransformer):
            def visit_Name(self, n):
                return ast.copy_location(ast.Name(id=m.get(n.id, n.id), ctx=n.ctx), n)
        return norm(T().visit(copy.deepcopy(e)))


# --------------------------------------------------------------------- V1
def v1(prog: Program, chk: Check) -> None:
    chk.rule("V1", "the time step that labels the returned axes is the value that reaches "
             "compute_dynamics(dt=...) through _compute_ordered_nt_correlations", floor=3)
    view = NtView(prog)
    u, du = view.u, view.du
    chk.saw(u, du.cfg)
    # the DT value used for the labels: what is appended to the returned list of times
    label_dt = None
    for c in walk_local(u.node):
        if isinstance(c, ast.Call) and method_call(c) == (view.ret_times, "append"):
            nid = du.node_of(c)
            e = c.args[0]
            if isinstance(e, ast.Name):
                d = du.unique_value(nid, e.id)
                if d is not None and d.value is not None:
                    nid, e = d.node, d.value
            for x in walk_local(e):
                if isinstance(x, ast.Name) and rolebind.arg_role(u, x) == "DT":
                    label_dt = (x.id, frozenset(dd.id for dd in du.reaching(nid, x.id)))
    if label_dt is None:
        raise AnalysisError("V1: the DT value labelling the returned times was not found")
    inner = prog.unit(f"{SD}:_compute_ordered_nt_correlations")
    calls = [c for c in walk_local(u.node) if isinstance(c, ast.Call)
             and call_name(c) == "_compute_ordered_nt_correlations"]
    if len(calls) != 1:
        raise AnalysisError("V1: call of _compute_ordered_nt_correlations not found")
    c = calls[0]
    bound = rolebind._bind(inner, c) or {}
    if "**" in bound:
        bound.update(rolebind._expand_kwargs(u, bound.pop("**")))
    dt_params = [p for p in inner.params if rolebind.role_of_name(p) == "DT"]
    if len(dt_params) != 1:
        raise AnalysisError("V1: _compute_ordered_nt_correlations has no unique DT parameter")
    arg = bound.get(dt_params[0])
    ok = False
    why = (f"the callee's `{dt_params[0]}` is not bound: the dynamics use the process tensor's "
           f"own time step while the axes are labelled with `{label_dt[0]}` (and a process "
           f"tensor without dt fails with 'No timestep length')")
    if arg is not None:
        nid = du.node_of(c)
        if isinstance(arg, ast.Name) and arg.id == label_dt[0]:
            # for a dict literal the value is evaluated where the dict is built
            dict_nodes = [n.id for n in du.cfg.nodes if n.kind == "stmt"
                          and isinstance(n.ast, ast.Assign) and isinstance(n.ast.value, ast.Dict)
                          and any(v is arg for v in n.ast.value.values)]
            at = dict_nodes[0] if dict_nodes else nid
            same = frozenset(dd.id for dd in du.reaching(at, arg.id)) == label_dt[1]
            ok = same
            why = f"`{dt_params[0]}` = `{arg.id}` (same definition as the label)" if same else \
                f"`{arg.id}` is redefined between labelling and the call"
        else:
            why = (f"`{dt_params[0]}` is bound to `{norm(arg)}`, not to the value "
                   f"`{label_dt[0]}` that labels the axes")
    chk.add("V1", u, f"_compute_ordered_nt_correlations(.., {dt_params[0]}=?)", ok, why, c)
    # inside the callee the parameter reaches compute_dynamics(dt=...)
    cd = [x for x in walk_local(inner.node) if isinstance(x, ast.Call)
          and call_name(x) == "compute_dynamics"]
    if len(cd) != 1:
        raise AnalysisError("V1: compute_dynamics call vanished from _compute_ordered_nt_correlations")
    kw = kw_of(cd[0])
    ok = dotted(kw.get("dt")) == dt_params[0] if kw.get("dt") is not None else False
    chk.add("V1", inner, f"compute_dynamics(dt={norm(kw['dt']) if 'dt' in kw else '<missing>'})", ok,
            "" if ok else "the time step parameter does not reach the dynamics", cd[0])
    # num_steps covers the latest requested time, control is forwarded
    ok = "control" in kw and "num_steps" in kw and "start_time" in kw
    chk.add("V1", inner, "compute_dynamics receives control, num_steps, start_time", ok,
            "" if ok else f"missing keyword(s): {sorted({'control','num_steps','start_time'}-set(kw))}",
            cd[0])


# --------------------------------------------------------------------- V2
def v2(prog: Program, chk: Check) -> None:
    chk.rule("V2", "where a subset of the last operator's times is selected by a predicate, the "
             "write-back indices are selected by the same selector (same mask value)", floor=1)
    view = NtView(prog)
    u, du = view.u, view.du
    # filtered selections inside the function: X = A[sel] with a non-constant, non-slice selector
    sels: List[Tuple[int, ast.Assign, ast.Subscript]] = []
    for n in du.cfg.nodes:
        if n.kind == "stmt" and isinstance(n.ast, ast.Assign) and \
                isinstance(n.ast.value, ast.Subscript):
            sels.append((n.id, n.ast, n.ast.value))

    def origin(nid: int, e: ast.AST, depth=0) -> str:
        """'times' / 'indices' / '' - which of the two parallel schedule arrays e derives from."""
        if depth > 6:
            return ""
        s = view.canon(e)
        if "SCH_INDICES" in s:
            return "indices"
        if "SCHEDULE" in s:
            return "times"
        if isinstance(e, ast.Subscript):
            return origin(nid, e.value, depth + 1)
        if isinstance(e, ast.Name):
            for d in du.reaching(nid, e.id):
                if d.value is not None and d.node != nid:
                    o = origin(d.node, d.value, depth + 1)
                    if o:
                        return o
        return ""

    def selector_sig(nid: int, sub: ast.Subscript) -> Tuple[str, str]:
        sl = sub.slice
        if isinstance(sl, ast.Slice):
            return "slice", norm(sl)
        if isinstance(sl, ast.Constant):
            return "const", norm(sl)
        e = sl
        if isinstance(e, ast.Name):
            d = du.unique_value(nid, e.id)
            if d is not None and d.value is not None and not d.sel:
                return "mask", f"{e.id}@{d.id}"
        return "mask", norm(e)
    def base_text(nid: int, b: ast.AST) -> str:
        if isinstance(b, ast.Name):
            d = du.unique_value(nid, b.id)
            if d is not None and d.value is not None and not d.sel:
                return view.canon(d.value)
        return view.canon(b)

    def is_int_const(e: ast.AST) -> bool:
        if isinstance(e, ast.UnaryOp) and isinstance(e.op, ast.USub):
            e = e.operand
        return isinstance(e, ast.Constant) and isinstance(e.value, int)
    t_sel, i_sel = [], []
    for (nid, a, sub) in sels:
        if is_int_const(sub.slice):
            continue
        bt = base_text(nid, sub.value)
        if bt.startswith("SCHEDULE[") and bt.endswith("[-1]"):
            t_sel.append((nid, a, sub))
        elif bt.startswith("SCH_INDICES[") and bt.endswith("[-1]"):
            i_sel.append((nid, a, sub))
    if not t_sel or not i_sel:
        raise AnalysisError("V2: the filtered selection of last_times / sch_indices was not found")
    for (tn, ta, ts) in t_sel:
        tsig = selector_sig(tn, ts)
        partner = None
        for (in_, ia, is_) in i_sel:
            partner = (in_, ia, is_)
        isig = selector_sig(partner[0], partner[2])
        ok = tsig == isig and tsig[0] == "mask"
        chk.add("V2", u, f"{norm(ta)}  ||  {norm(partner[1])}", ok,
                "values and indices filtered by the same mask" if ok else
                f"values are selected by `{norm(ts.slice)}` but their indices by "
                f"`{norm(partner[2].slice)}`: for a time list that is not ascending (e.g. "
                f"[4,3,2,1,0]) results are written to the wrong positions", ta)


# --------------------------------------------------------------------- V3
def _interval(du: DefUse, nid: int, e: ast.AST, guards: Dict[str, Tuple[float, float]],
              depth=0) -> Tuple[float, float]:
    INF = float("inf")
    if depth > 6:
        return (-INF, INF)
    if isinstance(e, ast.Constant) and isinstance(e.value, (int, float)) \
            and not isinstance(e.value, bool):
        return (e.value, e.value)
    if isinstance(e, ast.UnaryOp) and isinstance(e.op, ast.USub):
        lo, hi = _interval(du, nid, e.operand, guards, depth + 1)
        return (-hi, -lo)
    if isinstance(e, ast.IfExp):
        a = _interval(du, nid, e.body, guards, depth + 1)
        b = _interval(du, nid, e.orelse, guards, depth + 1)
        return (min(a[0], b[0]), max(a[1], b[1]))
    if isinstance(e, ast.BinOp) and isinstance(e.op, (ast.Add, ast.Sub)):
        a = _interval(du, nid, e.left, guards, depth + 1)
        b = _interval(du, nid, e.right, guards, depth + 1)
        if isinstance(e.op, ast.Add):
            return (a[0] + b[0], a[1] + b[1])
        return (a[0] - b[1], a[1] - b[0])
    if isinstance(e, ast.Name):
        if e.id in guards:
            return guards[e.id]
        ds = du.reaching(nid, e.id)
        if ds and all(d.value is not None and not d.sel for d in ds):
            ivs = [_interval(du, d.node, d.value, guards, depth + 1) for d in ds]
            return (min(i[0] for i in ivs), max(i[1] for i in ivs))
    return (-INF, INF)


def v3(prog: Program, chk: Check) -> None:
    chk.rule("V3", "a slice whose step may be negative must not have a stop that can evaluate to "
             "-1 (Python wraps it to the last element and the selection is empty)", floor=1)
    u = prog.unit(f"{SD}:_parse_times")
    du = DefUse(u, CFG(u.node, exc_edges=False))
    chk.saw(u, du.cfg)
    # guards of the form  if X < 0 or X > max_step: raise
    guards: Dict[str, Tuple[float, float]] = {}
    for st in walk_local(u.node):
        if isinstance(st, ast.If) and any(isinstance(b, ast.Raise) for b in st.body):
            for cmp_ in ast.walk(st.test):
                if isinstance(cmp_, ast.Compare) and isinstance(cmp_.left, ast.Name) \
                        and len(cmp_.ops) == 1 and isinstance(cmp_.ops[0], ast.Lt) \
                        and isinstance(cmp_.comparators[0], ast.Constant) \
                        and cmp_.comparators[0].value == 0:
                    lo, hi = guards.get(cmp_.left.id, (-float("inf"), float("inf")))
                    guards[cmp_.left.id] = (0, hi)
    n = 0
    for x in walk_local(u.node):
        interval_site = None
        if isinstance(x, ast.Subscript) and isinstance(x.slice, ast.Slice) and x.slice.step is not None:
            nid = du.node_of(x)
            step_iv = _interval(du, nid, x.slice.step, guards)
            if step_iv[0] >= 0:
                continue
            n += 1
            if x.slice.upper is None:
                chk.add("V3", u, norm(x), True, "open stop", x)
                continue
            stop_iv = _interval(du, nid, x.slice.upper, guards)
            ok = stop_iv[0] > -1 or (isinstance(x.slice.upper, ast.IfExp) and
                                     any(isinstance(y, ast.Constant) and y.value is None
                                         for y in ast.walk(x.slice.upper)))
            chk.add("V3", u, norm(x), ok,
                    f"stop in [{stop_iv[0]}, {stop_iv[1]}]" if ok else
                    f"step can be negative and the stop `{norm(x.slice.upper)}` ranges over "
                    f"[{stop_iv[0]}, {stop_iv[1]}]: an interval running down to step 0 gets "
                    f"stop -1, which Python treats as 'last element' - the selection is empty "
                    f"and the call fails", x)
        elif isinstance(x, ast.Call) and (dotted(x.func) or "").split(".")[-1] == "arange" \
                and len(x.args) == 3:
            nid = du.node_of(x)
            step_iv = _interval(du, nid, x.args[2], guards)
            if step_iv[0] < 0:
                n += 1
                chk.add("V3", u, norm(x), True,
                        "np.arange(start, stop, step) does not wrap a stop of -1", x)
    if n < 1:
        raise AnalysisError("V3: the descending interval selection in _parse_times was not found")


# --------------------------------------------------------------------- V4
def v4(prog: Program, chk: Check) -> None:
    chk.rule("V4", "anti-ordering: operators and time specifications are swapped going in iff "
             "the returned axes are reversed and the array transposed coming out, under the same "
             "predicate", floor=3)
    u = prog.unit(f"{SD}:compute_correlations")
    chk.saw(u)
    per_order = _lists_per_time_order(u)
    for k in ("operators", "ops_times"):
        lo, la = per_order.get(k, {}).get("ordered"), per_order.get(k, {}).get("anti")
        if lo is None or la is None:
            raise AnalysisError(f"V4: the list handed over as `{k}` is not assigned under both "
                                f"time orders")
        ok = la == list(reversed(lo))
        chk.add("V4", u, f"anti: {k} = {la}", ok,
                "swapped relative to the ordered branch" if ok else
                f"not the reversal of the ordered branch {lo}")
    swapped_out = False
    detail = "no statement under the same predicate undoes the swap on the results"
    site = None
    for st in walk_local(u.node):
        if not (isinstance(st, ast.Assign) and isinstance(st.value, ast.Tuple)
                and len(st.value.elts) == 2):
            continue
        if _time_order_of(u, st) != "anti":
            continue
        a, m = st.value.elts
        rev = isinstance(a, ast.Subscript) and isinstance(a.slice, ast.Slice) \
            and a.slice.step is not None and norm(a.slice.step) == "-1" \
            and a.slice.lower is None and a.slice.upper is None
        tr = (isinstance(m, ast.Call) and isinstance(m.func, ast.Attribute)
              and m.func.attr in ("transpose",)) or \
             (isinstance(m, ast.Attribute) and m.attr == "T")
        swapped_out = rev and tr
        site = st
        detail = "axes list reversed and array transposed" if swapped_out else \
            f"results are returned as {norm(st.value)}"
    chk.add("V4", u, "anti: results swapped back under the same predicate", swapped_out, detail,
            site)


def _time_order_of(u: Unit, st: ast.AST) -> Optional[str]:
    """'ordered' / 'anti' if st sits under `time_order == <that constant>`."""
    for (t, br) in branch_context(u.node, st):
        if isinstance(t, ast.Compare) and len(t.ops) == 1 and isinstance(t.ops[0], ast.Eq) and br \
                and dotted(t.left) == "time_order" and isinstance(t.comparators[0], ast.Constant):
            return t.comparators[0].value
    return None


def _lists_per_time_order(u: Unit) -> Dict[str, Dict[str, List]]:
    """keyword of the compute_correlations_nt call -> time order -> elements of the list
    literal assigned (under that order) to the local that is handed over."""
    calls = [c for c in walk_local(u.node) if isinstance(c, ast.Call)
             and call_name(c) == "compute_correlations_nt"]
    if len(calls) != 1:
        raise AnalysisError("V4: compute_correlations no longer calls compute_correlations_nt once")
    out: Dict[str, Dict[str, List]] = {}
    import types as _types
    for k in [_types.SimpleNamespace(arg=a_, value=v_) for a_, v_ in kw_of(calls[0]).items()]:
        if k.arg in ("operators", "ops_times", "ops_order") and isinstance(k.value, ast.Name):
            for st in walk_local(u.node):
                if isinstance(st, ast.Assign) and len(st.targets) == 1 \
                        and dotted(st.targets[0]) == k.value.id and isinstance(st.value, ast.List):
                    order = _time_order_of(u, st)
                    if order is not None:
                        out.setdefault(k.arg, {})[order] = [
                            (e.value if isinstance(e, ast.Constant) else norm(e))
                            for e in st.value.elts]
    return out


# --------------------------------------------------------------------- V5
def v5(prog: Program, chk: Check) -> None:
    chk.rule("V5", "the result array is initialised to NaN and written only at the scheduled "
             "indices of the current schedule entry", floor=2)
    view = NtView(prog)
    u = view.u
    stores = []
    for st in walk_local(u.node):
        if isinstance(st, ast.Assign):
            for t in st.targets:
                if isinstance(t, ast.Subscript) and dotted(t.value) == view.ret_corr:
                    stores.append((st, t))
    init = [s for s in stores if isinstance(s[1].slice, ast.Slice) and "nan" in norm(s[0].value)]
    writes = [s for s in stores if s not in init]
    chk.add("V5", u, "result[:] = NaN", len(init) == 1,
            "" if len(init) == 1 else "the result array is not initialised to NaN")
    ok = len(writes) == 1 and view.canon(writes[0][1].slice) == "SCH_INDICES[K]"
    chk.add("V5", u, f"writes: {[view.canon(w[0]) for w in writes]}", ok,
            "" if ok else "results are written elsewhere than at the scheduled indices of the "
                          "current schedule entry")


def v6_v7(prog: Program, chk: Check) -> None:
    chk.rule("V6", "the filter that keeps the time-ordered part of the last times is the exact "
             "complement of the test that detects unordered entries (equal times are ordered)",
             floor=1)
    chk.rule("V7", "'left' / 'right' select left_super / right_super; the ordered two-time "
             "correlation applies both operators from the left", floor=2)
    view = NtView(prog)
    u, du = view.u, view.du
    # the running maximum of the earlier times: the local defined by <array of first times>.max()
    ftmax = [d.name for d in du.defs if d.value is not None and not d.sel
             and isinstance(d.value, ast.Call) and isinstance(d.value.func, ast.Attribute)
             and d.value.func.attr in ("max", "amax")]
    if len(set(ftmax)) != 1 or view.last_times is None:
        raise AnalysisError("V6: the maximum of the earlier times / the last times passed to "
                            "_compute_ordered_nt_correlations were not identified")
    ftmax = ftmax[0]

    def cn(e):
        return view.canon(e).replace(ftmax, "FT_MAX")

    def norm_cmp(c: ast.Compare) -> Optional[Tuple[str, str, str]]:
        if len(c.ops) != 1:
            return None
        op = {ast.Gt: ">", ast.GtE: ">=", ast.Lt: "<", ast.LtE: "<="}.get(type(c.ops[0]))
        if op is None:
            return None
        l, r = cn(c.left), cn(c.comparators[0])
        if op in ("<", "<="):          # write everything as  big OP small
            l, r, op = r, l, {"<": ">", "<=": ">="}[op]
        return l, op, r
    trigger = keep = None

    def about(e):
        t = cn(e)
        return "LAST_TIMES" in t and "FT_MAX" in t
    for st in walk_local(u.node):
        if isinstance(st, ast.If):
            for c in ast.walk(st.test):
                if isinstance(c, ast.Compare) and about(c):
                    trigger = norm_cmp(c)
        if isinstance(st, ast.Assign) and isinstance(st.value, ast.Compare) and about(st.value):
            keep = norm_cmp(st.value)
        if isinstance(st, ast.Assign) and isinstance(st.value, ast.Subscript) and \
                isinstance(st.value.slice, ast.Compare) and about(st.value.slice):
            keep = norm_cmp(st.value.slice)
    ok = trigger is not None and keep is not None and \
        trigger[0] == keep[2] and trigger[2] == keep[0] and \
        {trigger[1], keep[1]} == {">", ">="}
    chk.add("V6", u, f"unordered if {trigger}, kept if {keep}", ok,
            "complementary predicates" if ok else
            "an entry can be neither detected as unordered nor kept (or both): entries at equal "
            "times become NaN or unordered entries are computed")
    inner = prog.unit(f"{SD}:_compute_ordered_nt_correlations")
    table = {}
    for st in walk_local(inner.node):
        if isinstance(st, ast.If):
            cur = st
            while isinstance(cur, ast.If):
                t = cur.test
                if isinstance(t, ast.Compare) and isinstance(t.comparators[0], ast.Constant) \
                        and "ops_order" in norm(t.left):
                    fns = [call_name(c) for c in ast.walk(ast.Module(body=cur.body, type_ignores=[]))
                           if isinstance(c, ast.Call) and (call_name(c) or "").endswith("_super")]
                    table[t.comparators[0].value] = fns
                cur = cur.orelse[0] if len(cur.orelse) == 1 else None
            break
    ok = table == {"left": ["left_super"], "right": ["right_super"]}
    chk.add("V7", inner, f"ops_order table {table}", ok,
            "" if ok else "'left'/'right' do not select left_super/right_super")
    cc = prog.unit(f"{SD}:compute_correlations")
    orders = _lists_per_time_order(cc).get("ops_order", {})
    ok = orders == {"ordered": ["left", "left"], "anti": ["right", "left"]}
    chk.add("V7", cc, f"ops_order per time_order {orders}", ok,
            "" if ok else "expected ordered -> [left, left], anti -> [right, left]")
    # the expectation is taken with the LAST operator and read at the last times
    exp_calls = [c for c in walk_local(inner.node) if isinstance(c, ast.Call)
                 and isinstance(c.func, ast.Attribute) and c.func.attr == "expectations" and c.args]
    ok1 = len(exp_calls) == 1 and norm(exp_calls[0].args[0]) == "operators[-1]" \
        and "operators" in inner.params
    # the returned value is the expectation series (tuple position 1) indexed by last_times
    dui = DefUse(inner, CFG(inner.node, exc_edges=False))
    ok2 = False
    if ok1:
        for r in walk_local(inner.node):
            if isinstance(r, ast.Return) and r.value is not None:
                o = origin(dui, dui.node_of(r), r.value)
                ok2 = isinstance(o, ast.Subscript) and norm(o.slice) == "last_times" \
                    and "last_times" in inner.params and isinstance(o.value, ast.Call) \
                    and isinstance(o.value.func, ast.Name) and o.value.func.id == "ITEM_1" \
                    and any(y is not None and isinstance(y, ast.Call)
                            and isinstance(y.func, ast.Attribute) and y.func.attr == "expectations"
                            for y in ast.walk(o.value))
    chk.add("V7", inner, "expectation of operators[-1] read at last_times", ok1 and ok2,
            "" if ok1 and ok2 else "the last operator / its times are not the ones read out")


# --------------------------------------------------------------------- V8
def v8(prog: Program, chk: Check) -> None:
    chk.rule("V8", "each schedule entry is computed from that entry alone: no working value "
             "handed to _compute_ordered_nt_correlations, and no write-back index, carries a "
             "definition over from an earlier iteration of the schedule loop (a mask applied to "
             "one entry must not narrow the following ones)", floor=3)
    view = NtView(prog)
    u, du = view.u, view.du
    g = du.cfg
    loops = [n for n in g.nodes if n.kind == "iter" and not n.copy_of
             and any(isinstance(y, ast.Name) and y.id == view.schedule for y in ast.walk(n.ast.iter))]
    if len(loops) != 1:
        raise AnalysisError("V8: the loop over the schedule was not found")
    head = loops[0].id
    body = g.reachable([b for b, l in g.succ[head] if l == "it"],
                       edge_ok=lambda a, b, l: b != head)
    body = {n for n in body if g.find_path([n], lambda x: x == head) is not None}
    call_node = du.node_of(view.inner_call)
    uses: List[Tuple[int, ast.AST, str]] = []
    import types as _types
    for k in [_types.SimpleNamespace(arg=a_, value=v_) for a_, v_ in kw_of(view.inner_call).items()]:
        if k.arg in ("first_times", "last_times"):
            uses.append((call_node, k.value, f"{k.arg}="))
    for n in g.nodes:
        if n.id in body and n.kind == "stmt" and isinstance(n.ast, ast.Assign):
            for t in n.ast.targets:
                if isinstance(t, ast.Subscript) and dotted(t.value) == view.ret_corr:
                    uses.append((n.id, t.slice, "write-back index "))
    if len(uses) < 3:
        raise AnalysisError("V8: the per-entry working values were not identified")

    def carried(name: str, at: int, seen=None) -> Optional[str]:
        """A definition of `name` made in one iteration (or before the loop and then updated in
        it) that is still in force at `at` in a later iteration."""
        seen = seen or set()
        if (name, at) in seen:
            return None
        seen.add((name, at))
        defs_in_body = [d for d in du.defs if d.name == name and d.node in body]
        if not defs_in_body:
            return None                       # loop invariant
        kill = {d.node for d in du.defs if d.name == name}
        for d in defs_in_body:
            # d.node -> ... back edge ... -> head -> ... -> at, without another definition
            p = g.find_path([b for b, _ in g.succ[d.node] if b not in kill or b == head],
                            lambda x: x == head, blocked=lambda x: x in kill and x != head)
            if p is None:
                continue
            q = g.find_path([b for b, l in g.succ[head] if l == "it" and (b not in kill or b == at)],
                            lambda x: x == at, blocked=lambda x: x in kill and x != at)
            if q is not None:
                return f"`{view.canon(d.stmt) if d.stmt is not None else name}` " \
                       f"(line {g.nodes[d.node].lineno}) is still in force in the next iteration"
        # values the definitions are computed from
        for d in du.reaching(at, name):
            if d.value is None or d.node not in body:
                continue
            for y in ast.walk(d.value):
                if isinstance(y, ast.Name) and isinstance(y.ctx, ast.Load) and y.id != name:
                    r = carried(y.id, d.node, seen)
                    if r:
                        return r
        return None
    for (at, e, label) in uses:
        why = None
        for y in ast.walk(e):
            if isinstance(y, ast.Name) and isinstance(y.ctx, ast.Load):
                why = why or carried(y.id, at)
        chk.add("V8", u, f"{label}{view.canon(e)}", why is None,
                "derived from the current schedule entry" if why is None else
                f"loop-carried: {why}; entries computed after a narrowing one silently stay NaN", e)


# --------------------------------------------------------------------- V9
def v9(prog: Program, chk: Check) -> None:
    chk.rule("V9", "the system propagators behind the correlation dynamics are computed from the "
             "time step of the current call: no memo (dict, lazily set attribute, closure "
             "container) in the system classes leaves an argument of get_propagators / "
             "get_unitary_propagators out of its key - otherwise a System used with a second dt "
             "evolves with the first one while the returned axes follow the second", floor=1)
    from rules.c20 import memo_findings
    units = [u for u in prog.units_in("system") if not isinstance(u.node, ast.Lambda)]
    n = 0
    for (u, node, construct, missing) in memo_findings(prog, units):
        n += 1
        chk.saw(u)
        chk.add("V9", u, construct, not missing,
                "identified by everything it depends on" if not missing else
                f"the stored value depends on {missing}, which is not part of the key / is not "
                f"validated: axes and dynamics of a later call use different time steps", node)
    chk.add("V9", prog.module("system"), f"{len(units)} functions of system.py scanned, {n} memo "
            f"idiom(s)", len(units) >= 40, "" if len(units) >= 40 else "the module shrank")


def v10(prog: Program, chk: Check) -> None:
    chk.rule("V10", "operators of a multi-time correlation that fall on the same time step act in "
             "the order in which they were inserted: _compute_ordered_nt_correlations hands them "
             "to Control.add_single in time order, and Control composes a repeated addition with "
             "the NEW operation on the left - at every accumulation slot' = X @ Y of class Control "
             "and, when a slot is kept as a list, at the fold that reads it", floor=4)
    from rules import c18
    n = c18.accumulation_order(prog, chk, "V10", classes={"Control"})
    n += c18.stacking_folds(prog, chk, "V10", classes={"Control"})
    if n < 4:
        raise AnalysisError(f"V10: only {n} composition sites found in class Control")
    # the operators are inserted in time order: one add_single per operator, in loop order
    u = prog.unit("system_dynamics:_compute_ordered_nt_correlations")
    chk.saw(u)
    adds = [c for c in walk_local(u.node) if isinstance(c, ast.Call)
            and isinstance(c.func, ast.Attribute) and c.func.attr == "add_single"]
    chk.add("V10", u, f"{len(adds)} add_single call(s) insert the earlier operators", len(adds) >= 1,
            "" if adds else "the earlier operators are no longer inserted through Control.add_single")


def run(prog: Program, chk: Check) -> None:
    chk.explanation = (
        "Decides the alignment bookkeeping of compute_correlations(_nt): V1 the time step that "
        "labels the axes reaches the dynamics (interprocedural def-use incl. the **parameters "
        "dictionary); V2 values and write-back indices are filtered by the same mask; V3 "
        "interval analysis of slice bounds in _parse_times (no stop of -1 with a negative step); "
        "V4 swap-in / swap-out symmetry of the anti-ordered path; V5 NaN initialisation and "
        "single write site. Float times are rounded relative to start_time (decided under C15).")
    chk.not_decided = ("Exactness of the correlation values and the bath-occupation kernels of "
                       "bath_dynamics.")
    chk.assumptions = ["Python slice semantics: a negative stop counts from the end",
                       "numpy boolean-mask indexing keeps positions; np.arange(a, b, -1) "
                       "treats b = -1 literally"]
    chk.call(v1, prog, chk)
    chk.call(v2, prog, chk)
    chk.call(v3, prog, chk)
    chk.call(v4, prog, chk)
    chk.call(v5, prog, chk)
    chk.call(v6_v7, prog, chk)
    chk.call(v8, prog, chk)
    chk.call(v9, prog, chk)
    chk.call(v10, prog, chk)
    from rules.c05 import stored_coupling_reads
    chk.call(stored_coupling_reads, prog, chk, "V11")
