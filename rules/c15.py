"""C15 - covariance under translation of the time origin.

U1 every absolute time that is handed to a user time-dependent callable,
labels an output or is compared with a step has START-coefficient exactly one
(resp. the form (time - START)/DT); U2 every front end forwards its own start
time; U3 no user time-dependent callable is reached from a site outside U1.
"""
from __future__ import annotations

import ast
from fractions import Fraction
from typing import Dict, List, Optional, Set, Tuple

from oqv import roles, rolebind
from oqv.astutil import branch_context, call_name, method_call
from oqv.cfg import CFG
from oqv.dataflow import DefUse, expand, form_at
from oqv.forms import Poly, eval_form
from oqv.model import AnalysisError, Program, Unit, dotted, norm, walk_local, kw_of
from oqv.report import Check

START = Poly.sym("START")

# sites that evaluate user callables at a time which is not part of a computation
U3_EXEMPT = {
    "system:_check_tdependent_hamiltonian": "constructor shape check at the fixed time 1.0",
    "system:_check_tfielddependent_hamiltonian": "constructor shape check at the fixed time 1.0",
    "system:_check_tdependent_gammas_lindblad_operators": "constructor check at the fixed time 1.0",
    "system:_check_mean_field_system_eom": "constructor check with a test time",
    "system:TimeDependentSystem.__init__": "dimension probe at the fixed time 1.0",
    "system:TimeDependentSystemWithField.__init__": "dimension probe at the fixed time 1.0",
    "system:MeanFieldSystem.__init__": "dimension probe at the fixed time 1.0",
    "tempo:_max_tdependentsystem_frequency":
        "parameter guessing evaluates the user callables at the sample times it is handed; that "
        "these are points between start_time and end_time is rule U5",
    "tempo:_max_tdependentsystem_frequency.<locals>.<lambda>#0":
        "parameter guessing: time is the sampling variable",
}
# bodies through which a time parameter passes unchanged to the user callable
PASS_THROUGH = {
    "system:TimeDependentSystem.liouvillian": ["t"],
    "system:TimeDependentSystemWithField.liouvillian": ["t0", "t"],
    "system:TimeDependentSystemWithField._linearised_hamiltonian": ["t0", "t"],
    "system:TimeDependentSystemWithField._linearised_field": ["t0", "t"],
}


class TimeForms:
    def __init__(self, prog: Program):
        self.prog = prog
        self.dus: Dict[str, DefUse] = {}

    def du(self, u: Unit) -> DefUse:
        if u.qual not in self.dus:
            self.dus[u.qual] = DefUse(u, CFG(u.node, exc_edges=False))
        return self.dus[u.qual]

    def form(self, u: Unit, nid: int, e: ast.AST, depth: int = 0) -> Optional[Poly]:
        du = self.du(u)

        def leaf(x):
            r = roles.role_of(x)
            if r in ("START", "DT", "STEP", "NUM_STEPS", "END"):
                # a plain local name with a definition is followed instead
                if isinstance(x, ast.Name) and r == "STEP":
                    pass
                return Poly.sym(r)
            if isinstance(x, ast.Call) and method_call(x) == ("self", "_time") and len(x.args) == 1:
                ci = self.prog.class_of_unit(u)
                tu = self.prog.find_method(ci, "_time") if ci else None
                if tu is None:
                    return None
                rets = [y for y in walk_local(tu.node) if isinstance(y, ast.Return)]
                if len(rets) != 1:
                    return None
                inner = self.form(u, nid, x.args[0], depth + 1)
                if inner is None:
                    return None
                pname = tu.params[1]

                def leaf2(y):
                    if isinstance(y, ast.Name) and y.id == pname:
                        return inner
                    r2 = roles.role_of(y)
                    if r2 in ("START", "DT"):
                        return Poly.sym(r2)
                    return None
                return eval_form(rets[0].value, leaf2)
            if isinstance(x, ast.Call) and (dotted(x.func) or "").split(".")[-1] == "arange" \
                    and len(x.args) == 1:
                return Poly.sym("K")
            if isinstance(x, ast.Name) and x.id in u.params and u.parent is not None and depth < 3:
                # parameter of a local closure: bind at its call sites in the parent
                forms = set()
                for c in walk_local(u.parent.node):
                    if isinstance(c, ast.Call) and dotted(c.func) == u.name:
                        i = u.params.index(x.id)
                        arg = c.args[i] if i < len(c.args) else next(
                            (k.value for k in c.keywords if k.arg == x.id), None)
                        if arg is None:
                            return None
                        pn = self.du(u.parent).node_of(c)
                        forms.add(self.form(u.parent, pn, arg, depth + 1))
                if len(forms) == 1 and None not in forms:
                    return forms.pop()
            return None
        return form_at(du, nid, e, leaf)


def _additive_start(e: ast.AST) -> Optional[bool]:
    """Fallback when the polynomial form is not readable: is e a sum in which exactly one
    term is a START-role name (coefficient +1) and no other term mentions one?
    True / False / None (cannot tell)."""
    terms = []

    def flat(x, sign):
        if isinstance(x, ast.BinOp) and isinstance(x.op, (ast.Add, ast.Sub)):
            flat(x.left, sign)
            flat(x.right, sign if isinstance(x.op, ast.Add) else -sign)
        else:
            terms.append((sign, x))
    flat(e, 1)
    starts = [(sg, t) for (sg, t) in terms if roles.role_of(t) == "START"]
    others = [t for (sg, t) in terms if roles.role_of(t) != "START"]
    mention = any(roles.role_of(y) == "START" for t in others for y in ast.walk(t))
    if len(starts) == 1 and starts[0][0] == 1 and not mention:
        return True
    if mention or len(starts) > 1 or (len(starts) == 1 and starts[0][0] != 1):
        return False
    if not starts and not any(isinstance(y, ast.Call) for y in ast.walk(e)):
        return False
    return None


def _start_coeff_one(f: Optional[Poly], e: Optional[ast.AST] = None) -> Tuple[Optional[bool], str]:
    if f is None:
        r = _additive_start(e) if e is not None else None
        if r is True:
            return True, "START + (expression free of START), by additive structure"
        if r is False:
            return False, "the start time does not enter as a single additive term"
        return False, "form not readable and the start time is not visibly a single additive term"
    rest = f - START
    if "START" in rest.symbols():
        return False, f"form {f}: the coefficient of START is not exactly 1"
    return True, f"form START + ({rest})"


def _time_args(prog: Program, u: Unit, c: ast.Call) -> List[Tuple[str, ast.AST]]:
    """(label, expression) of the absolute-time arguments of a consumer call."""
    fn = dotted(c.func) or ""
    last = fn.split(".")[-1]
    if last == "field_eom" and c.args:
        return [("field_eom time", c.args[0])]
    if last == "liouvillian" and c.args and u.cls != "ParameterizedSystem" \
            and not any(isinstance(a, ast.Starred) for a in c.args):
        # time-dependent variants only (ParameterizedSystem.liouvillian takes parameters)
        n = len(c.args)
        if n == 1:
            return [("liouvillian(t)", c.args[0])]
        if n >= 2:
            return [("liouvillian(t0, ..)", c.args[0]), ("liouvillian(.., t, ..)", c.args[1])]
    if last == "quad_vec":
        out = []
        for k in c.keywords:
            if k.arg in ("a", "b"):
                out.append((f"quad_vec {k.arg}", k.value))
        if len(c.args) >= 3:
            out += [("quad_vec a", c.args[1]), ("quad_vec b", c.args[2])]
        return out
    return []


def u1_u3(prog: Program, chk: Check) -> None:
    chk.rule("U1", "every absolute time handed to a user time-dependent callable "
             "(hamiltonian/gamma/lindblad via liouvillian or quad_vec, field_eom) or used as a "
             "label has the form START + (START-free); every float time compared with a step is "
             "rounded as (time - START)/DT", floor=26)
    chk.rule("U3", "user time-dependent callables are invoked only from the U1 sites, from "
             "pass-through bodies that forward their own time parameter, or from the exempt "
             "constructor checks", floor=8)
    tf = TimeForms(prog)
    n_sites = 0
    for u in prog.units.values():
        consumer_calls = []
        body_nodes = [u.node.body] if isinstance(u.node, ast.Lambda) else u.node.body
        for st in body_nodes:
            for c in walk_local(st):
                if isinstance(c, ast.Call) and _time_args(prog, u, c):
                    consumer_calls.append(c)
        if not consumer_calls:
            continue
        if u.qual in U3_EXEMPT:
            # an exemption is a claim about the code: check its premise on every run
            reason = U3_EXEMPT[u.qual]
            if "fixed time" in reason or "test time" in reason:
                du_x = tf.du(u) if not isinstance(u.node, ast.Lambda) else None
                for c in consumer_calls:
                    for (label, e) in _time_args(prog, u, c):
                        v = e
                        if du_x is not None and isinstance(e, ast.Name):
                            d = du_x.unique_value(du_x.node_of(c), e.id)
                            if d is not None and d.value is not None and not d.sel:
                                v = d.value
                        const = isinstance(v, ast.Constant) and isinstance(v.value, (int, float))
                        chk.add("U3", u, f"exempt probe {label}({norm(e)})", const,
                                "a literal probe time (shape / type check only)" if const else
                                f"the exemption of {u.qual} rests on a probe at a fixed time, but "
                                f"`{norm(e)}` is not a literal: the callable is evaluated at a "
                                f"time this check does not follow", c)
            chk.add("U3", u, f"{len(consumer_calls)} evaluation(s) of user callables", None,
                    exception_reason=reason)
            continue
        du = tf.du(u) if not isinstance(u.node, ast.Lambda) else None
        for c in consumer_calls:
            for (label, e) in _time_args(prog, u, c):
                # integration / lambda variable?
                if isinstance(u.node, ast.Lambda):
                    lam_params = {a.arg for a in u.node.args.args}
                    if isinstance(e, ast.Name) and e.id in lam_params:
                        continue
                    # free variable of the lambda: evaluate in the parent
                    pu = u.parent
                    nid = tf.du(pu).node_of(u.node)
                    f = tf.form(pu, nid, e)
                    owner = pu
                else:
                    nid = du.node_of(c)
                    if nid is None:
                        continue
                    f = tf.form(u, nid, e)
                    owner = u
                n_sites += 1
                if u.qual in PASS_THROUGH and isinstance(e, ast.Name) and e.id in PASS_THROUGH[u.qual]:
                    chk.add("U3", u, f"{label}: `{norm(e)}` forwarded unchanged", True, node=c)
                    continue
                ok, why = _start_coeff_one(f, e)
                chk.add("U1", owner, f"{label} = {norm(e)} in {u.qual.split(':')[1]}", ok, why, c,
                        function=owner.qual.split(":")[1])
    # user callables inside the pass-through bodies get exactly the time parameter
    for q, tparams in PASS_THROUGH.items():
        u = prog.unit(q)
        chk.saw(u)
        for c in walk_local(u.node):
            if not isinstance(c, ast.Call):
                continue
            fn = dotted(c.func) or ""
            user = fn in ("self._hamiltonian", "gamma", "l_op") or \
                fn in ("self._linearised_hamiltonian", "self._linearised_field")
            if not user or not c.args:
                continue
            a0 = c.args[0]
            ok = isinstance(a0, ast.Name) and a0.id in tparams
            if fn in ("self._linearised_hamiltonian", "self._linearised_field"):
                ok = ok and isinstance(c.args[1], ast.Name) and c.args[1].id in tparams
            # float(t) re-binding is fine: same name
            chk.add("U3", u, f"{fn}({norm(a0)}, ...)", ok,
                    "time parameter passed on unchanged" if ok else
                    "the user callable receives a modified time", c)
    # every other call of a user time-dependent callable must be known
    for u in prog.units.values():
        if u.qual in PASS_THROUGH or u.qual in U3_EXEMPT or isinstance(u.node, ast.Lambda):
            continue
        for c in walk_local(u.node):
            if not isinstance(c, ast.Call):
                continue
            fn = dotted(c.func) or ""
            if fn in ("self._hamiltonian",) or (fn.endswith(".hamiltonian") and c.args) \
                    or fn == "self._field_eom":
                if u.module.short == "system" and u.cls in ("System", "ParameterizedSystem",
                                                            "SystemChain"):
                    continue
                if u.cls == "ParameterizedSystem":
                    continue
                raise AnalysisError(
                    f"U3: new consumer of a user time-dependent callable at {u.loc(c)} "
                    f"(`{norm(c)[:60]}` in {u.qual}) - add it to the U1/U3 tables")
    if n_sites < 20:
        raise AnalysisError(f"U1: only {n_sites} time-consumer arguments found (floor 20)")

    # ----------------------------------------------------------- labels
    for q in ("tempo:Tempo._time", "tempo:MeanFieldTempo._time", "pt_tebd:PtTebd.time"):
        u = prog.unit(q)
        r = [x for x in walk_local(u.node) if isinstance(x, ast.Return)][0]

        def leaf(x):
            rr = roles.role_of(x)
            if rr in ("START", "DT", "STEP"):
                return Poly.sym(rr)
            if (dotted(x) or "").endswith("_start_step"):
                return Poly.sym("STEP0")
            return None
        ok, why = _start_coeff_one(eval_form(r.value, leaf), r.value)
        chk.add("U1", u, f"label: return {norm(r.value)}", ok, why, r)
    for q in ("system_dynamics:compute_dynamics", "system_dynamics:compute_dynamics_with_field",
              "gradient:compute_gradient_and_dynamics"):
        u = prog.unit(q)
        from rules.c13 import label_assignments
        for st in label_assignments(u):
            if True:
                v = st.value
                e = v.elts[0] if isinstance(v, (ast.List, ast.Tuple)) and len(v.elts) == 1 else v
                nid = tf.du(u).node_of(st.value)
                # exact: all-steps labels are START + k*DT over the recorded index k, the
                # final-only label is START + num_steps*DT
                f = tf.form(u, nid, e)
                wantf = START + Poly.sym("DT") * Poly.sym("K" if e is v else "NUM_STEPS")
                chk.add("U1", u, f"label: times = {norm(v)}", f == wantf,
                        f"form {f} (expected {wantf})", st)
    u = prog.unit("system_dynamics:compute_correlations_nt")
    from rules.c07 import NtView
    _axes = NtView(prog).ret_times      # the returned list of time axes, whatever it is called
    for c in walk_local(u.node):
        if isinstance(c, ast.Call) and method_call(c) == (_axes, "append"):
            du = tf.du(u)
            nid = du.node_of(c)

            def leafi(x):
                rr = roles.role_of(x)
                if rr in ("START", "DT"):
                    return Poly.sym(rr)
                if isinstance(x, ast.Call) and call_name(x) == "_parse_times":
                    return Poly.sym("IDX")
                return None
            ok, why = _start_coeff_one(form_at(du, nid, c.args[0], leafi), c.args[0])
            chk.add("U1", u, f"label: ret_times.append({norm(c.args[0])})", ok, why, c)

    # ------------------------------------------------- comparisons with a step
    want = (Poly.sym("T") - START).div(Poly.sym("DT"))
    ctrl = prog.cls("control:Control")
    ctrl_sites = [mu.qual for mu in ctrl.methods.values()
                  if any(isinstance(c, ast.Call) and (dotted(c.func) or "").split(".")[-1]
                         in ("round", "rint", "around") for c in walk_local(mu.node))]
    if not ctrl_sites:
        raise AnalysisError("U1: no rounding of float control times left in class Control")
    n_ctrl = 0
    for q, opaque in [("system_dynamics:_parse_times", "times")] + \
            [(q_, "_control_times") for q_ in ctrl_sites]:
        u = prog.unit(q)
        du = tf.du(u)
        n = 0
        for c in walk_local(u.node):
            if isinstance(c, ast.Call) and (dotted(c.func) or "").split(".")[-1] in \
                    ("round", "rint", "around") and c.args:
                arg = c.args[0]
                # the quotient may sit in a temporary
                if not any(isinstance(x, ast.BinOp) and isinstance(x.op, ast.Div)
                           for x in ast.walk(expand(du, du.node_of(c), arg))):
                    continue
                n += 1

                def leafc(x):
                    rr = roles.role_of(x)
                    if rr in ("START", "DT"):
                        return Poly.sym(rr)
                    if opaque in norm(x) and isinstance(x, (ast.Name, ast.Subscript, ast.Attribute)):
                        if not any(roles.role_of(y) in ("START", "DT") for y in ast.walk(x)):
                            return Poly.sym("T")
                    if isinstance(x, ast.Name):
                        dd = du.unique_value(du.node_of(c), x.id)
                        if dd is not None and dd.value is not None and opaque in norm(dd.value) \
                                and not any(roles.role_of(y) in ("START", "DT")
                                            for y in ast.walk(dd.value)):
                            return Poly.sym("T")
                    return None
                f = form_at(du, du.node_of(c), arg, leafc)
                chk.add("U1", u, f"round({norm(arg)})", f == want,
                        f"form {f}" if f == want else
                        f"float times are rounded as {f}, not (time - START)/DT: a shifted time "
                        f"origin selects different steps", c)
        if q.startswith("control:"):
            n_ctrl += n
        elif n < 2:
            raise AnalysisError(f"U1: rounding sites vanished in {q}")
    if n_ctrl < 1:
        raise AnalysisError("U1: float control times are no longer rounded in class Control")


def u1_counts(prog: Program, chk: Check, tf: "TimeForms") -> None:
    """Step counts derived from an end time use (END - START)/DT."""
    want = (Poly.sym("END") - START).div(Poly.sym("DT"))
    for q in ("tempo:Tempo._get_num_step", "tempo:MeanFieldTempo._get_num_step",
              "pt_tempo:PtTempo.__init__"):
        u = prog.unit(q)
        du = tf.du(u)
        hits = 0
        from oqv.dataflow import depends_on
        for x in walk_local(u.node):
            if isinstance(x, ast.BinOp) and isinstance(x.op, ast.Div) and \
                    roles.role_of(x.right) == "DT" and \
                    depends_on(du, x.left, du.node_of(x), {"end_time", "tmp_end_time"}):
                hits += 1

                def leaf(y):
                    r = roles.role_of(y)
                    if r in ("START", "DT", "END"):
                        return Poly.sym(r)
                    # rounding an interval to some decimals keeps its form
                    if isinstance(y, ast.Call) and (dotted(y.func) or "").split(".")[-1] in \
                            ("round", "around") and y.args:
                        return form_at(du, du.node_of(x), y.args[0], leaf)
                    return None
                f = form_at(du, du.node_of(x), x, leaf)
                chk.add("U1", u, f"step count from {norm(x)}", f == want,
                        f"form {f}" if f == want else
                        f"the number of steps is derived from {f}, not (END - START)/DT", x)
        if hits != 1:
            raise AnalysisError(f"U1: end-time quotient not found once in {q}")


def u2(prog: Program, chk: Check) -> None:
    chk.rule("U2", "START plumbing: a start-time value is bound to a start-time parameter at "
             "every package call, and a caller that owns a start time forwards it to callees "
             "that have a start-time parameter with a default", floor=10)
    n = rolebind.check(prog, chk, "U2", wanted={"START"}, require_forward={"START"})
    if n < 10:
        raise AnalysisError(f"U2: only {n} START-typed call sites (floor 10)")


def u2b(prog: Program, chk: Check) -> None:
    """A function that calls a START-consuming callee without binding START and owns no
    START itself loses the start time if one of its (transitive) callers owns one."""
    chk.rule("U2b", "the start time is not lost along a call chain: a call that leaves a "
             "START parameter of its callee at the default is only allowed if no (transitive) "
             "caller of the enclosing function owns a start time", floor=1)
    callers: Dict[str, Set[str]] = {}
    sites = []
    for u in prog.units.values():
        if isinstance(u.node, ast.Lambda):
            continue
        for c in walk_local(u.node):
            if not isinstance(c, ast.Call):
                continue
            for callee in rolebind._candidates(prog, u, c):
                if callee is None:
                    continue
                callers.setdefault(callee.qual, set()).add(u.qual)
                b = rolebind._bind(callee, c)
                if b is None:
                    continue
                if "**" in b:
                    b.update(rolebind._expand_kwargs(u, b.pop("**")))
                for p in callee.params:
                    if rolebind.role_of_name(p) == "START" and p not in b and \
                            rolebind._has_default(callee, p):
                        sites.append((u, c, callee, p))
    n = 0
    for (u, c, callee, p) in sites:
        own = rolebind.owned_roles(u, {"START"})
        if "START" in own:
            continue        # judged by U2
        # transitive callers owning START
        seen, work, owner = set(), [u.qual], None
        while work and owner is None:
            q = work.pop()
            if q in seen:
                continue
            seen.add(q)
            for cq in callers.get(q, ()):
                cu = prog.units[cq]
                if "START" in rolebind.owned_roles(cu, {"START"}):
                    owner = cu
                    break
                work.append(cq)
        n += 1
        chk.add("U2b", u, f"{norm(c.func)}(...) leaves `{p}` of {callee.qual.split(':')[1]} at "
                f"its default", owner is None,
                "no caller owns a start time" if owner is None else
                f"{owner.qual.split(':')[1]} owns a start time, but it is dropped on the way: the "
                f"callee runs from its default start time (explicit time dependences are "
                f"evaluated at unshifted times)", c)
    if n < 1:
        raise AnalysisError("U2b: no call leaving a START default found (anchor vanished)")


# --------------------------------------------------------------------- U4
TOLERANT = ("isclose", "allclose", "approx", "assert_allclose", "assert_almost_equal")


class TimeValues:
    """Which expressions of dynamics.py hold recorded (absolute) times.

    A value is a time if it is read from a `_times` attribute, made by _parse_time, or is a
    parameter of a module-level helper that some call site binds to such a value (fixpoint
    over the module's own helpers).  `kind` types an expression as a point on the time axis
    ("P"), or anything else (None): P - P is a difference (not a point), P +- x is a point."""

    def __init__(self, prog: Program):
        self.units = [u for u in prog.units_in("dynamics") if not isinstance(u.node, ast.Lambda)]
        self.helpers = {u.qual.split(":")[1]: u for u in self.units
                        if "." not in u.qual.split(":")[1]}
        self.time_params: Dict[str, Set[str]] = {name: set() for name in self.helpers}
        self.dus = {u.qual: DefUse(u) for u in self.units}
        changed = True
        while changed:
            changed = False
            for u in self.units:
                for c in walk_local(u.node):
                    if not isinstance(c, ast.Call) or not isinstance(c.func, ast.Name) \
                            or c.func.id not in self.helpers:
                        continue
                    params = [a.arg for a in self.helpers[c.func.id].node.args.args]
                    bound = list(zip(params, c.args)) + \
                        [(k.arg, k.value) for k in c.keywords if k.arg in params]
                    for (prm, arg) in bound:
                        if prm not in self.time_params[c.func.id] and self.mentions(u, c, arg):
                            self.time_params[c.func.id].add(prm)
                            changed = True

    def full(self, u: Unit, at: ast.AST, expr: ast.AST) -> ast.AST:
        du = self.dus[u.qual]
        try:
            return expand(du, du.node_of(at), expr)
        except Exception:                   # outside the CFG (nested scope): as written
            return expr

    def _leaf(self, u: Unit, x: ast.AST) -> bool:
        own = self.time_params.get(u.qual.split(":")[1], set())
        if isinstance(x, ast.Attribute) and x.attr == "_times":
            return True
        if isinstance(x, ast.Call) and (dotted(x.func) or "").split(".")[-1] == "_parse_time":
            return True
        return isinstance(x, ast.Name) and x.id in own

    def mentions(self, u: Unit, at: ast.AST, expr: ast.AST) -> bool:
        return any(self._leaf(u, x) for x in ast.walk(self.full(u, at, expr)))

    def kind(self, u: Unit, e: ast.AST) -> Optional[str]:
        """'P' if e (already expanded) is a point on the time axis."""
        if self._leaf(u, e):
            return "P"
        if isinstance(e, ast.Subscript):
            return self.kind(u, e.value)
        if isinstance(e, ast.Call):
            fn = (dotted(e.func) or "").split(".")[-1]
            if fn in ("float", "array", "asarray", "min", "max", "amin", "amax", "copy", "real") and e.args:
                return self.kind(u, e.args[0])
            return None
        if isinstance(e, ast.BinOp) and isinstance(e.op, (ast.Add, ast.Sub)):
            a, b = self.kind(u, e.left), self.kind(u, e.right)
            if isinstance(e.op, ast.Sub) and a == "P" and b == "P":
                return None                 # a difference of times
            return "P" if "P" in (a, b) else None
        return None


def time_tolerance_sites(prog: Program, tv: Optional[TimeValues] = None):
    """(unit, call, relative) for every tolerant comparison applied to recorded times;
    relative is False only when the call says rtol=0 / rel=0."""
    tv = tv or TimeValues(prog)
    out, n_cmp = [], 0
    for u in tv.units:
        for c in walk_local(u.node):
            if isinstance(c, ast.Call) and (dotted(c.func) or "").split(".")[-1] in TOLERANT:
                n_cmp += 1
                if any(tv.mentions(u, c, a) for a in list(c.args) + [k.value for k in c.keywords]):
                    kw = kw_of(c)
                    r = kw.get("rtol", kw.get("rel"))
                    rel0 = isinstance(r, ast.Constant) and r.value in (0, 0.0)
                    out.append((u, c, not rel0))
    return out, n_cmp


def u4(prog: Program, chk: Check) -> None:
    chk.rule("U4", "the result containers treat recorded times as points on an axis without "
             "origin: a recorded time is never used as a magnitude (abs(t), c*t, t/c, t**k) and "
             "never compared through a tolerance with a relative part (numpy's default rtol "
             "merges the grid times t and t + dt once |t| > 1e5*dt - the result would depend on "
             "the time origin); differences of times, comparisons of two times and bisection are "
             "free", floor=3)
    tv = TimeValues(prog)
    sites, n_cmp = time_tolerance_sites(prog, tv)
    for (u, c, relative) in sites:
        chk.add("U4", u, f"{norm(c)[:60]}", not relative,
                "absolute tolerance only" if not relative else
                "recorded times are compared with a relative tolerance in the result container: "
                "with numpy's default rtol = 1e-5 the grid times t and t + dt coincide once "
                "|t| > 1e5*dt", c)
    n_mag = 0
    n_pts = 0
    for u in tv.units:
        for st in walk_local(u.node):
            if not isinstance(st, ast.expr) or isinstance(st, (ast.Name, ast.Constant)):
                continue
            if isinstance(st, ast.Call) and (dotted(st.func) or "").split(".")[-1] in \
                    ("abs", "fabs", "absolute") and st.args:
                operand, how = st.args[0], "abs(time)"
            elif isinstance(st, ast.BinOp) and isinstance(st.op, (ast.Mult, ast.Div, ast.Pow,
                                                                  ast.FloorDiv, ast.Mod)):
                operand, how = None, "time scaled"
            else:
                if tv._leaf(u, st):
                    n_pts += 1
                continue
            ops = [operand] if operand is not None else [st.left, st.right]
            for o in ops:
                if tv.kind(u, tv.full(u, st, o)) == "P":
                    n_mag += 1
                    chk.add("U4", u, f"{how}: {norm(st)[:60]}", False,
                            "a recorded time enters as a magnitude: the value depends on where "
                            "the time origin is (only differences of times are translation "
                            "invariant)", st)
    chk.add("U4", prog.module("dynamics"),
            f"{n_pts} reads of recorded times, {n_cmp} tolerant comparisons ({len(sites)} on times), "
            f"{n_mag} uses of a time as a magnitude; time-valued helper parameters: "
            f"{ {k: sorted(v) for k, v in tv.time_params.items() if v} }",
            n_pts >= 10, "" if n_pts >= 10 else
            "fewer reads of recorded times than confirmed by hand: the time leaves are not recognised")
    for q in ("dynamics:Dynamics.add", "dynamics:MeanFieldDynamics.add"):
        u = prog.unit(q)
        chk.saw(u)
        chk.add("U4", u, "times enter through _parse_time / self._times",
                any(tv._leaf(u, x) for x in walk_local(u.node)),
                "" , u.node)


def u5(prog: Program, chk: Check) -> None:
    chk.rule("U5", "parameter estimation looks at a time-dependent system where the computation "
             "will take place: every grid of sample times handed to "
             "_max_tdependentsystem_frequency (which evaluates H(t), the rates and the Lindblad "
             "operators at those absolute times) is np.linspace(a, b, ..) with a and b points of "
             "the time axis - forms in which the coefficients of start_time and end_time add up "
             "to one, so that the grid shifts with the time origin (a grid over [0, end - start] "
             "is right for the bath correlations, which depend on differences only, and wrong "
             "for the system)", floor=2)
    tf = TimeForms(prog)
    sites = []
    for u in prog.units.values():
        if isinstance(u.node, ast.Lambda):
            continue
        for c in walk_local(u.node):
            if isinstance(c, ast.Call) and call_name(c) == "_max_tdependentsystem_frequency":
                sites.append((u, c))
    if len(sites) < 2:
        raise AnalysisError(f"U5: only {len(sites)} call(s) of _max_tdependentsystem_frequency")
    callee = prog.unit("tempo:_max_tdependentsystem_frequency")
    for (u, c) in sites:
        du = tf.du(u)
        chk.saw(u, du.cfg)
        bound = {callee.params[i]: a for i, a in enumerate(c.args) if i < len(callee.params)}
        bound.update(kw_of(c))
        times = bound.get(callee.params[1]) if len(callee.params) > 1 else None
        if times is None:
            raise AnalysisError(f"U5: sample times of the call at {u.loc(c)} not found")
        nid = du.node_of(c)
        # the grid expression: through locals and one-expression local helpers
        grid = expand(du, nid, times, depth=6)
        helper = None
        if isinstance(grid, ast.Call) and isinstance(grid.func, ast.Name):
            for v in prog.nested_units(u):
                if v.name == grid.func.id and not isinstance(v.node, ast.Lambda):
                    rets = [r for r in walk_local(v.node) if isinstance(r, ast.Return) and r.value is not None]
                    if len(rets) == 1:
                        helper = (v, rets[0])
        owner, onid, g_expr = u, nid, grid
        if helper is not None:
            owner, g_expr = helper[0], helper[1].value
            onid = tf.du(owner).node_of(helper[1])
        if not (isinstance(g_expr, ast.Call) and (dotted(g_expr.func) or "").split(".")[-1]
                in ("linspace", "arange") and len(g_expr.args) >= 2):
            chk.add("U5", u, f"sample times {norm(times)[:50]}", None,
                    f"not a linspace / arange grid: `{norm(g_expr)[:60]}`", c)
            continue
        for which, e in (("first", g_expr.args[0]), ("last", g_expr.args[1])):
            f = tf.form(owner, onid, e)
            if f is None and owner is not u:
                # free variables of the helper: evaluate in the enclosing function
                f = tf.form(u, nid, e)
            weight = None
            if f is not None:
                weight = sum((cf for m, cf in f.terms.items()
                              if m in ((("START", 1),), (("END", 1),))), Fraction(0))
                mixed = [m for m in f.terms if any(s_ in ("START", "END") for (s_, _) in m)
                         and m not in ((("START", 1),), (("END", 1),))]
                if mixed:
                    weight = None
            ok = weight == 1
            chk.add("U5", u, f"{which} sample time = {norm(e)[:40]}  [{f if f is not None else '?'}]",
                    ok if (f is not None) else None,
                    "a point of the time axis (shifts with the origin)" if ok else
                    ("form not readable" if f is None else
                     f"the coefficients of start_time and end_time add up to {weight}, not 1: the "
                     f"grid does not move when the time origin does - the system is sampled on "
                     f"another window than the one the computation runs over, so the estimated "
                     f"parameters (and with them the returned time grid) depend on the origin"), c)


def u6(prog: Program, chk: Check) -> None:
    chk.rule("U6", "the time origin has no special value: no parameter with a time role is tested for truthiness (`if start_time:` singles out the origin t = 0, so a problem shifted to start at zero takes another branch than the same problem started elsewhere)", floor=1)
    from rules.c02 import numeric_option_tests
    n = 0
    for (u, node, pname) in numeric_option_tests(prog):
        r = roles.role_of(ast.Name(id=pname, ctx=ast.Load()))
        if r not in ("START", "END", "DT", "STEP", "NUM_STEPS", "TIME"):
            continue
        n += 1
        chk.saw(u)
        chk.add("U6", u, f"truthiness test of `{pname}` ({r}): {norm(node)[:60]}", False,
                f"`{pname}` is a time / step quantity: the value 0 takes the 'not given' branch", node)
    timed = sum(1 for u in prog.units.values() if not isinstance(u.node, ast.Lambda)
                for x in u.node.args.args
                if roles.role_of(ast.Name(id=x.arg, ctx=ast.Load())) in ("START", "END", "DT"))
    chk.add("U6", prog.module("tempo"), f"{timed} parameters with a time role in the package, "
            f"{n} tested for truthiness", timed >= 30,
            "" if timed >= 30 else "fewer time parameters than confirmed by hand")


def u7(prog: Program, chk: Check) -> None:
    chk.rule("U7", "what is computed for one time origin is not served for another: no memo in the "
             "system classes (dict, lazily set attribute, single-slot or validated cache, closure "
             "container - also one kept on self or in a dict on self by the closure that "
             "get_propagators hands out) leaves out of its key anything the stored value depends "
             "on; the propagator of step n of a time-dependent system belongs to the absolute "
             "time start_time + n*dt, so a key without start_time makes a second computation with "
             "the same object and another origin evolve with the first one's Hamiltonian", floor=1)
    from rules.c20 import memo_findings
    units = [u for u in prog.units_in("system") if not isinstance(u.node, ast.Lambda)]
    n = 0
    for (u, node, construct, missing) in memo_findings(prog, units):
        n += 1
        chk.saw(u)
        chk.add("U7", u, construct, not missing,
                "identified by everything it depends on" if not missing else
                f"the stored value depends on {missing}, which is not part of the key: reported "
                f"times shift with the origin, the states do not", node)
    chk.add("U7", prog.module("system"), f"{len(units)} functions of system.py scanned, {n} memo "
            f"idiom(s)", len(units) >= 40, "" if len(units) >= 40 else "the module shrank")


def run(prog: Program, chk: Check) -> None:
    chk.explanation = (
        "Decides every place where an absolute time is manufactured or consumed: if each such "
        "time is START + (something independent of START) and each rounding of a float time "
        "uses (time - START)/DT, then shifting START and all explicit time dependences shifts "
        "every reported time and nothing else - given that user callables are reached only "
        "through these sites (U3) and every front end forwards its own start time (U2).")
    chk.not_decided = ("Floating-point non-associativity of (START + tau) + k*DT "
                       "(tolerance-level effects).")
    chk.assumptions = ["role vocabulary (coverage.role_vocabulary)",
                       "scipy.integrate.quad_vec(f, a, b) evaluates f only inside [a, b]"]
    chk.extra["role_vocabulary"] = roles.VOCAB
    chk.extra["u3_exempt"] = U3_EXEMPT
    chk.extra["pass_through"] = PASS_THROUGH
    chk.call(u1_u3, prog, chk)
    chk.call(u1_counts, prog, chk, TimeForms(prog))
    chk.call(u2, prog, chk)
    chk.call(u2b, prog, chk)
    chk.call(u4, prog, chk)
    chk.call(u5, prog, chk)
    chk.call(u6, prog, chk)
    chk.call(u7, prog, chk)
