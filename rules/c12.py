"""C12 - bath correlation functions and their 2D integrals.

L1 the closed-form cell integrals are the inclusion-exclusion of the double
antiderivative over exactly the regions the quadrature sibling integrates,
L2 shape-name table, L3 Matsubara integrals real by construction, L4 cutoff
registry and sibling agreement of the two integrand builders.
"""
from __future__ import annotations

import ast
from fractions import Fraction
from typing import Dict, List, Optional, Set, Tuple

from oqv import abseval as ae
from oqv.astutil import branch_context, call_name, method_call
from oqv.cfg import CFG
from oqv.dataflow import DefUse
from oqv.forms import Poly, eval_form
from oqv.model import AnalysisError, Program, Unit, dotted, norm, walk_local, kw_of
from oqv.report import Check

BC = "bath_correlations"
T1, T2, DL = Poly.sym("T1"), Poly.sym("T2"), Poly.sym("DELTA")
ZERO = Poly.const(0)


def _time_leaf(x):
    d = dotted(x)
    if d == "time_1":
        return T1
    if d == "time_2":
        return T2
    if d == "delta":
        return DL
    return None


EtaForm = Dict[Poly, Fraction]


def _strip_casts(e: ast.AST) -> ast.AST:
    """float(x) / np.float64(x) / complex(x) hold the value of x."""
    while isinstance(e, ast.Call) and len(e.args) == 1 and not e.keywords and \
            (dotted(e.func) or "").split(".")[-1] in ("float", "float64", "complex", "asarray"):
        e = e.args[0]
    return e


def eta_form(e: ast.AST, eta_name: str) -> Optional[EtaForm]:
    """Linear combination of eta(<affine>) calls: {affine argument: coefficient}."""
    if isinstance(e, ast.Call) and (dotted(e.func) or "").split(".")[-1] == eta_name and e.args:
        arg = eval_form(_strip_casts(e.args[0]), _time_leaf)
        if arg is None:
            return None
        return {arg: Fraction(1)}
    if isinstance(e, ast.UnaryOp) and isinstance(e.op, (ast.USub, ast.UAdd)):
        f = eta_form(e.operand, eta_name)
        if f is None:
            return None
        return {k: (-v if isinstance(e.op, ast.USub) else v) for k, v in f.items()}
    if isinstance(e, ast.BinOp) and isinstance(e.op, (ast.Add, ast.Sub)):
        a, b = eta_form(e.left, eta_name), eta_form(e.right, eta_name)
        if a is None or b is None:
            return None
        out = dict(a)
        for k, v in b.items():
            out[k] = out.get(k, Fraction(0)) + (v if isinstance(e.op, ast.Add) else -v)
        return {k: v for k, v in out.items() if v != 0}
    if isinstance(e, ast.BinOp) and isinstance(e.op, ast.Mult):
        for s, o in ((e.left, e.right), (e.right, e.left)):
            c = eval_form(s, lambda x: None)
            if c is not None and c.const_value() is not None:
                f = eta_form(o, eta_name)
                if f is None:
                    return None
                return {k: v * c.const_value() for k, v in f.items()}
    return None


def _fmt(f: Optional[EtaForm]) -> str:
    if f is None:
        return "<unreadable>"
    return " ".join(f"{'+' if c >= 0 else '-'}{abs(c) if abs(c) != 1 else ''}eta({k})"
                    for k, c in sorted(f.items(), key=lambda kv: repr(kv[0])))


# --------------------------------------------------------------------- regions
def quadrature_regions(prog: Program) -> Dict[str, Tuple[Poly, Poly, object, object]]:
    u = prog.unit(f"{BC}:CustomCorrelations.correlation_2d_integral")
    tables: Dict[str, Dict[str, ast.Lambda]] = {}
    for st in walk_local(u.node):
        if isinstance(st, ast.Assign) and isinstance(st.value, ast.Dict) and \
                all(isinstance(v, ast.Lambda) for v in st.value.values):
            tables[dotted(st.targets[0])] = {k.value: v for k, v in
                                             zip(st.value.keys, st.value.values)}
    dq = [c for c in walk_local(u.node) if isinstance(c, ast.Call)
          and (dotted(c.func) or "").split(".")[-1] == "dblquad"]
    if len(dq) != 2 or len(tables) != 2:
        raise AnalysisError("L1: dblquad calls / boundary tables of CustomCorrelations vanished")
    def _dq_args(c):
        """arguments of scipy.integrate.dblquad(func, a, b, gfun, hfun, ...) by name, whether
        they were passed by keyword or by position"""
        kw_ = dict(kw_of(c))
        for name_, a_ in zip(("func", "a", "b", "gfun", "hfun"), c.args):
            kw_.setdefault(name_, a_)
        return kw_
    sigs = []
    for c in dq:
        kw = _dq_args(c)
        if any(kw.get(k_) is None for k_ in ("a", "b", "gfun", "hfun")):
            raise AnalysisError("L1: limits of a dblquad call of CustomCorrelations not found")
        sigs.append((norm(kw.get("a")), norm(kw.get("b")), norm(kw.get("gfun")), norm(kw.get("hfun"))))
    if sigs[0] != sigs[1]:
        raise AnalysisError(f"L1: real and imaginary dblquad integrate different regions: {sigs}")
    kw = _dq_args(dq[0])
    # the boundary functions held in locals first (`gfun = lower[shape]`)
    once_ = {}
    for st_ in walk_local(u.node):
        if isinstance(st_, ast.Assign) and len(st_.targets) == 1 and isinstance(st_.targets[0], ast.Name):
            once_.setdefault(st_.targets[0].id, []).append(st_.value)
    for k_ in ("gfun", "hfun"):
        if isinstance(kw.get(k_), ast.Name) and len(once_.get(kw[k_].id, [])) == 1:
            kw[k_] = once_[kw[k_].id][0]
    if norm(kw["a"]) != "time_1" or norm(kw["b"]) != "time_2":
        raise AnalysisError("L1: dblquad outer limits are not (time_1, time_2)")
    gname = dotted(kw["gfun"].value) if isinstance(kw["gfun"], ast.Subscript) else None
    hname = dotted(kw["hfun"].value) if isinstance(kw["hfun"], ast.Subscript) else None
    if gname not in tables or hname not in tables:
        raise AnalysisError("L1: gfun/hfun are not table lookups by shape")
    # default of time_2
    default_b = None
    for b in walk_local(u.node):
        if isinstance(b, ast.Assign) and dotted(b.targets[0]) == "time_2":
            for (t, br) in branch_context(u.node, b):
                if isinstance(t, ast.Compare) and len(t.ops) == 1 and dotted(t.left) == "time_2" \
                        and isinstance(t.comparators[0], ast.Constant) \
                        and t.comparators[0].value is None \
                        and br == isinstance(t.ops[0], (ast.Is, ast.Eq)):
                    default_b = eval_form(b.value, _time_leaf)
    if default_b is None:
        raise AnalysisError("L1: default time_2 = time_1 + delta not found")
    out = {}
    for shape in tables[gname]:
        if shape not in tables[hname]:
            raise AnalysisError(f"L1: shape {shape!r} missing in {hname}")

        def bound(lam: ast.Lambda):
            x = lam.args.args[0].arg

            def leaf(n):
                if isinstance(n, ast.Name) and n.id == x:
                    return Poly.sym("X")
                return _time_leaf(n)
            return eval_form(lam.body, leaf)
        g, h = bound(tables[gname][shape]), bound(tables[hname][shape])
        b = T2 if shape == "rectangle" else default_b
        out[shape] = (T1, b, g, h)
    return out


def closed_forms(prog: Program) -> Dict[str, Tuple[Optional[EtaForm], ast.AST]]:
    u = prog.unit(f"{BC}:CustomSD.correlation_2d_integral")
    out = {}
    del _HELPER_GUARDS[:]
    # the closed form is assigned to the variable the method returns
    ret_names = {r.value.id for r in walk_local(u.node) if isinstance(r, ast.Return)
                 and isinstance(r.value, ast.Name)}
    if len(ret_names) != 1:
        raise AnalysisError("L1: CustomSD.correlation_2d_integral no longer returns one local")
    acc = ret_names.pop()
    for st in walk_local(u.node):
        if isinstance(st, ast.Assign) and dotted(st.targets[0]) == acc \
                and not isinstance(st.value, ast.Attribute):
            ctx = branch_context(u.node, st)
            shapes = [t.comparators[0].value for (t, br) in ctx if br
                      and isinstance(t, ast.Compare) and dotted(t.left) == "shape"
                      and isinstance(t.comparators[0], ast.Constant)]
            if len(shapes) == 1:
                value = _inline_helpers(u, st.value)
                out[shapes[0]] = (eta_form(value, "eta_function"), st)
                _NON_AFFINE[shapes[0]] = non_affine_eta_arguments(value, "eta_function")
    return out


_NON_AFFINE: Dict[str, List[str]] = {}
_HELPER_GUARDS: List[Tuple[str, str]] = []


def non_affine_eta_arguments(e: ast.AST, eta_name: str) -> List[str]:
    """Arguments of eta(...) calls in e that are not affine forms of time_1, time_2, delta."""
    out = []
    for x in ast.walk(e):
        if isinstance(x, ast.Call) and (dotted(x.func) or "").split(".")[-1] == eta_name and x.args:
            if eval_form(_strip_casts(x.args[0]), _time_leaf) is None:
                out.append(norm(x.args[0]))
    return out


def _inline_helpers(u: Unit, e: ast.AST, depth: int = 0) -> ast.AST:
    """e with calls of the method's own one-expression helpers (`h = lambda p: E`, or a nested
    `def h(p): return E`) replaced by E[p := argument]."""
    import copy
    helpers: Dict[str, Tuple[List[str], ast.AST]] = {}
    for st in ast.walk(u.node):
        if isinstance(st, ast.Assign) and len(st.targets) == 1 and isinstance(st.targets[0], ast.Name) \
                and isinstance(st.value, ast.Lambda):
            helpers[st.targets[0].id] = ([a.arg for a in st.value.args.args], st.value.body)
        elif isinstance(st, ast.FunctionDef) and st is not u.node:
            body = [b for b in st.body if not (isinstance(b, ast.Expr)
                                               and isinstance(b.value, ast.Constant))]
            params_ = [a.arg for a in st.args.args]
            # leading shortcuts `if <param> <op> 0: return 0`: eta(0) = 0 holds (L5), so an
            # equality shortcut changes nothing; any other comparison zeroes eta on a half line
            while len(body) > 1 and isinstance(body[0], ast.If) and not body[0].orelse \
                    and len(body[0].body) == 1 and isinstance(body[0].body[0], ast.Return) \
                    and isinstance(body[0].body[0].value, ast.Constant) \
                    and body[0].body[0].value.value in (0, 0.0, 0j) \
                    and isinstance(body[0].test, ast.Compare) and len(body[0].test.ops) == 1:
                t = body[0].test
                sides = [t.left, t.comparators[0]]
                is_p = [isinstance(x, ast.Name) and x.id in params_ for x in sides]
                is_0 = [isinstance(x, ast.Constant) and x.value in (0, 0.0) for x in sides]
                if not ((is_p[0] and is_0[1]) or (is_p[1] and is_0[0])):
                    break
                if not isinstance(t.ops[0], ast.Eq):
                    _HELPER_GUARDS.append((st.name, norm(t)))
                body = body[1:]
            if len(body) == 1 and isinstance(body[0], ast.Return) and body[0].value is not None:
                helpers[st.name] = (params_, body[0].value)
    if not helpers or depth > 3:
        return e

    class Inline(ast.NodeTransformer):
        def visit_Call(self, node):
            self.generic_visit(node)
            if isinstance(node.func, ast.Name) and node.func.id in helpers and not node.keywords:
                params, body = helpers[node.func.id]
                if len(params) != len(node.args):
                    return node
                env = dict(zip(params, node.args))

                class Sub(ast.NodeTransformer):
                    def visit_Name(self, n):
                        if isinstance(n.ctx, ast.Load) and n.id in env:
                            return copy.deepcopy(env[n.id])
                        return n
                new = Sub().visit(copy.deepcopy(body))
                return ast.copy_location(new, node)
            return node
    out = Inline().visit(copy.deepcopy(e))
    ast.fix_missing_locations(out)
    return out


def _l1_reason(bad_args: List[str], region: str, want) -> str:
    if bad_args and "shortcut" in bad_args[0]:
        return (f"eta is evaluated through {bad_args[0]}: the double antiderivative vanishes at 0 "
                f"only - for negative arguments eta(-tau) = conj(eta(tau)), so cells that reach "
                f"across the diagonal (time_1 < delta) lose a term and no longer equal the double "
                f"integral of the correlation function over {region}")
    if bad_args:
        return (f"eta is evaluated at `{bad_args[0]}`, which is not the corner of the cell (an "
                f"affine form of time_1, time_2, delta): a time that is rounded, clipped or "
                f"otherwise altered moves the corner - by an amount that depends on the unit of "
                f"time when the alteration is absolute - and the cell integrals no longer equal "
                f"the double integral of the correlation function over {region}")
    return f"the quadrature sibling integrates {region}, whose closed form is {_fmt(want)}"


def cell_closed_form_checks(prog: Program, regions=None, forms=None):
    """(shape, closed form found, closed form wanted, region text, statement, non-affine eta
    arguments, is-triangle) for every shape both implementations handle."""
    regions = regions if regions is not None else quadrature_regions(prog)
    forms = forms if forms is not None else closed_forms(prog)
    out = []
    for shape, (a, b, g, h) in sorted(regions.items()):
        if shape not in forms:
            continue
        got, st = forms[shape]
        if g is None or h is None:
            raise AnalysisError(f"L1: integration bounds of shape {shape!r} unreadable")
        tri = False
        if "X" not in (g.symbols() | h.symbols()):
            c, d = g, h
            want: EtaForm = {}
            for arg, coef in ((b - c, 1), (a - c, -1), (b - d, -1), (a - d, 1)):
                want[arg] = want.get(arg, Fraction(0)) + coef
            want = {k: v for k, v in want.items() if v != 0}
            region = f"[{a}, {b}] x [{c}, {d}]"
        elif g == ZERO and h == Poly.sym("X") - a:
            want = {b: Fraction(1), a: Fraction(-1)}
            region = f"[{a}, {b}] x [0, x - {a}] (triangle)"
            tri = True
        else:
            raise AnalysisError(f"L1: region of shape {shape!r} ({g}, {h}) outside the "
                                f"enumerated idioms")
        bad_args = list(_NON_AFFINE.get(shape) or [])
        used = {x.func.id for x in ast.walk(st.value) if isinstance(x, ast.Call)
                and isinstance(x.func, ast.Name)}
        for (hname, test) in _HELPER_GUARDS:
            if hname in used:
                got = None
                bad_args.append(f"{hname}(tau) with the shortcut `if {test}: return 0`")
        out.append((shape, got, want, region, st, bad_args, tri))
    return out


def l1_l2(prog: Program, chk: Check) -> None:
    chk.rule("L1", "for every shape the closed form of CustomSD equals the inclusion-exclusion "
             "eta(b-c) - eta(a-c) - eta(b-d) + eta(a-d) of the double antiderivative over the "
             "region [a,b] x [c,d] that CustomCorrelations hands to dblquad; for the triangular "
             "region it equals eta(b) - eta(a) and every caller passes time_1 = 0", floor=4)
    chk.rule("L2", "shape names used at call sites are handled by every implementation, the "
             "implementations handle the same set, time_2 is passed only with 'rectangle'",
             floor=4)
    regions = quadrature_regions(prog)
    forms = closed_forms(prog)
    sd = prog.unit(f"{BC}:CustomSD.correlation_2d_integral")
    cc = prog.unit(f"{BC}:CustomCorrelations.correlation_2d_integral")
    chk.saw(sd)
    chk.saw(cc)
    chk.add("L2", sd, f"closed-form shapes {sorted(forms)} vs quadrature shapes {sorted(regions)}",
            set(forms) == set(regions),
            "" if set(forms) == set(regions) else "the two implementations handle different shapes")
    tri_shapes = []
    for (shape, got, want, region, st, bad_args, tri) in cell_closed_form_checks(prog, regions, forms):
        if tri:
            tri_shapes.append(shape)
        ok = got == want
        chk.add("L1", sd, f"shape {shape!r}: {_fmt(got)}", ok,
                f"= double antiderivative over {region}" if ok else _l1_reason(bad_args, region, want),
                st)
    # callers
    callers = []
    for u in prog.units.values():
        if isinstance(u.node, ast.Lambda):
            continue
        for c in walk_local(u.node):
            if isinstance(c, ast.Call) and isinstance(c.func, ast.Attribute) \
                    and c.func.attr == "correlation_2d_integral" and u.cls not in (
                        "CustomSD", "CustomCorrelations", "BaseCorrelations"):
                callers.append((u, c))
    if len(callers) < 2:
        raise AnalysisError("L2: call sites of correlation_2d_integral vanished")
    all_used: Set[str] = set()
    for (u, c) in callers:
        du = DefUse(u, CFG(u.node, exc_edges=False))
        chk.saw(u, du.cfg)
        nid = du.node_of(c)
        kw = kw_of(c)
        params = ["delta", "time_1", "time_2", "shape"]
        for i, a in enumerate(c.args):
            kw.setdefault(params[i], a)
        shape_e = kw.get("shape")
        variants: List[Tuple[str, Optional[ast.AST], Optional[int]]] = []   # (shape, condition, def node)
        if isinstance(shape_e, ast.Constant):
            variants.append((shape_e.value, None, None))
        elif isinstance(shape_e, ast.Name):
            for d in du.reaching(nid, shape_e.id):
                v = d.value
                if isinstance(v, ast.Constant):
                    # the shape chosen by an if statement: the branch condition is the premise
                    ctx = branch_context(u.node, d.stmt) if d.stmt is not None else []
                    cond_ = None
                    if ctx:
                        t_, br_ = ctx[-1]
                        cond_ = t_ if br_ else ast.UnaryOp(op=ast.Not(), operand=t_)
                    variants.append((v.value, cond_, d.node))
                elif isinstance(v, ast.IfExp) and isinstance(v.body, ast.Constant) \
                        and isinstance(v.orelse, ast.Constant):
                    variants.append((v.body.value, v.test, d.node))
                    variants.append((v.orelse.value, ast.UnaryOp(op=ast.Not(), operand=v.test), d.node))
                else:
                    raise AnalysisError(f"L2: shape value `{norm(v) if v is not None else '?'}` at "
                                        f"{u.loc(c)} is not a constant")
        used = {s for s, _, _ in variants}
        all_used |= used
        chk.add("L2", u, f"shapes passed: {sorted(used)}", used <= set(forms) & set(regions),
                "" if used <= set(forms) else f"unknown shape(s) {sorted(used - set(forms))}", c)
        # time_2 only with rectangle: on every path through a non-None definition of time_2
        # the shape that reaches the call is 'rectangle'
        t2 = kw.get("time_2")
        if t2 is not None and isinstance(t2, ast.Name) and isinstance(shape_e, ast.Name):
            ok = True
            g = du.cfg
            shape_defs_at = {}
            for d in du.defs:
                if d.name == shape_e.id:
                    shape_defs_at.setdefault(d.node, d)
            for d in du.reaching(nid, t2.id):
                if d.value is None or (isinstance(d.value, ast.Constant) and d.value.value is None):
                    continue
                starts = [(d.node, sd.id) for sd in du.reaching(d.node, shape_e.id)] or \
                    [(d.node, None)]
                seen = set(starts)
                work = list(starts)
                finals = set()
                while work:
                    node, cur = work.pop()
                    if node in shape_defs_at and node != d.node:
                        cur = shape_defs_at[node].id
                    if node == nid:
                        finals.add(cur)
                        continue
                    for (b, l) in g.succ[node]:
                        if (b, cur) not in seen:
                            seen.add((b, cur))
                            work.append((b, cur))
                for f in finals:
                    v = du.defs[f].value if f is not None else None
                    if not (isinstance(v, ast.Constant) and v.value == "rectangle"):
                        ok = False
            chk.add("L2", u, "time_2 is non-None only together with shape 'rectangle'", ok,
                    "" if ok else "time_2 is passed with a shape that ignores / rejects it", c)
        # triangle => time_1 == 0
        for (s, cond, dnode) in variants:
            if s not in tri_shapes:
                continue
            t1 = kw.get("time_1")
            ok, why = _is_zero_under(du, u, nid, t1, cond, s, shape_e)
            chk.add("L1", u, f"caller passes time_1 = {norm(t1)} with shape {s!r}", ok, why, c)
    chk.add("L2", sd, f"all shapes in use: {sorted(all_used)}", all_used <= set(forms), "")


def _is_zero_under(du: DefUse, u: Unit, nid: int, t1: ast.AST, cond: Optional[ast.AST], shape: str,
                   shape_e) -> Tuple[bool, str]:
    if t1 is None:
        return False, "time_1 missing"
    # constant zero in the branch that sets this shape
    if isinstance(t1, ast.Name):
        zero_defs, other = [], []
        for d in du.reaching(nid, t1.id):
            sib = [dd for dd in du.reaching(nid, shape_e.id)] if isinstance(shape_e, ast.Name) else []
            ctx_d = {(norm(t), br) for (t, br) in branch_context(u.node, d.stmt)} if d.stmt else set()
            mine = [dd for dd in sib if dd.stmt is not None and
                    {(norm(t), br) for (t, br) in branch_context(u.node, dd.stmt)} == ctx_d
                    and isinstance(dd.value, ast.Constant) and dd.value.value == shape]
            if not mine:
                continue
            if isinstance(d.value, ast.Constant) and d.value.value in (0, 0.0):
                zero_defs.append(d)
            else:
                other.append(d)
        if zero_defs and not other:
            return True, "time_1 = 0 in the branch that selects this shape"
        return False, ("the omitted boundary term (b-a)*eta'(a) of the triangle formula vanishes "
                       "only for time_1 = 0, but this caller can pass another value")
    if isinstance(t1, ast.Constant):
        ok = t1.value in (0, 0.0)
        return ok, "constant 0" if ok else "constant non-zero time_1 with the triangle shape"
    # product with a factor that the shape condition forces to zero:  k * dt under k == 0
    if cond is not None and isinstance(cond, ast.Compare) and len(cond.ops) == 1 \
            and isinstance(cond.ops[0], ast.Eq) and isinstance(cond.comparators[0], ast.Constant) \
            and cond.comparators[0].value == 0 and isinstance(cond.left, ast.Name):
        var = cond.left.id
        if isinstance(t1, ast.BinOp) and isinstance(t1.op, ast.Mult) and \
                any(isinstance(s, ast.Name) and s.id == var for s in (t1.left, t1.right)):
            return True, f"time_1 = {norm(t1)} and the shape is chosen under `{norm(cond)}`"
    return False, ("the omitted boundary term (b-a)*eta'(a) of the triangle formula vanishes only "
                   "for time_1 = 0; cannot show that here")


# --------------------------------------------------------------------- L3
# ------------------------------------------------------------ memo idiom
def _memo_attrs(u: Unit) -> Set[str]:
    """Dict attributes used as a hand-written memo in u: stored by subscript and looked up."""
    stored = {dotted(t.value) for st in walk_local(u.node) if isinstance(st, ast.Assign)
              for t in st.targets if isinstance(t, ast.Subscript) and dotted(t.value)
              and dotted(t.value).startswith("self.")}
    return {a for a in stored if a}


def _memo_lookup_names(u: Unit, memo: Set[str]) -> Set[str]:
    """Local names bound to a look-up in a memo (`hit = self._m.get(key)`, `hit = self._m[key]`)."""
    out = set()
    for st in walk_local(u.node):
        if isinstance(st, ast.Assign) and len(st.targets) == 1 and isinstance(st.targets[0], ast.Name):
            v = st.value
            if isinstance(v, ast.Call) and isinstance(v.func, ast.Attribute) and v.func.attr == "get" \
                    and dotted(v.func.value) in memo:
                out.add(st.targets[0].id)
            if isinstance(v, ast.Subscript) and dotted(v.value) in memo:
                out.add(st.targets[0].id)
    return out


def _is_memo_test(t: ast.AST, memo: Set[str], names: Set[str] = frozenset()) -> bool:
    if isinstance(t, ast.UnaryOp) and isinstance(t.op, ast.Not):
        return _is_memo_test(t.operand, memo, names)
    if isinstance(t, ast.Compare) and len(t.ops) == 1 and isinstance(t.ops[0], (ast.In, ast.NotIn)):
        return dotted(t.comparators[0]) in memo
    if isinstance(t, ast.Compare) and len(t.ops) == 1 and isinstance(t.ops[0], (ast.Is, ast.IsNot)):
        # hit = self._memo.get(key); if hit is not None
        return isinstance(t.left, ast.Name) and t.left.id in names
    return False


def _memo_hit_return(u: Unit, r: ast.Return, memo: Set[str]) -> bool:
    """`return self._memo[key]` (or a name bound to a look-up) guarded by a memo test."""
    if r.value is None or not memo:
        return False
    names = _memo_lookup_names(u, memo)
    ctx = branch_context(u.node, r)
    if not any(_is_memo_test(t, memo, names) for (t, br) in ctx):
        return False
    v = r.value
    if isinstance(v, ast.Subscript) and dotted(v.value) in memo:
        return True
    return isinstance(v, ast.Name) and v.id in names


def _result_exprs(u: Unit) -> List[ast.AST]:
    """Expressions whose value the function hands back on a miss: return values, with
    `return self._memo[key]` replaced by what was stored under that memo."""
    memo = _memo_attrs(u)
    out = []
    for r in walk_local(u.node):
        if not isinstance(r, ast.Return) or r.value is None:
            continue
        if _memo_hit_return(u, r, memo):
            continue
        v = r.value
        if isinstance(v, ast.Subscript) and dotted(v.value) in memo:
            for st in walk_local(u.node):
                if isinstance(st, ast.Assign) and any(
                        isinstance(t, ast.Subscript) and dotted(t.value) == dotted(v.value)
                        for t in st.targets):
                    out.append(st.value)
            continue
        out.append(v)
    return out



def l3(prog: Program, chk: Check) -> None:
    chk.rule("L3", "with matsubara true every path to a return passes `<result> = <result>.real`",
             floor=3)
    for q in (f"{BC}:CustomSD.correlation", f"{BC}:CustomSD.eta_function",
              f"{BC}:CustomSD.correlation_2d_integral"):
        u = prog.unit(q)
        g = CFG(u.node, exc_edges=False)
        chk.saw(u, g)
        real_nodes = {n.id for n in g.nodes if n.kind == "stmt" and isinstance(n.ast, ast.Assign)
                      and isinstance(n.ast.value, ast.Attribute) and n.ast.value.attr == "real"
                      and norm(n.ast.value.value) == norm(n.ast.targets[0])}
        memo = _memo_attrs(u)
        rets = {n.id for n in g.nodes if n.kind == "stmt" and isinstance(n.ast, ast.Return)
                and not _memo_hit_return(u, n.ast, memo)}
        # what is stored in a memo is handed back later: same obligation as a return
        # (that the entry is keyed by the matsubara flag is rule L6 / C20 A7)
        rets |= {n.id for n in g.nodes if n.kind == "stmt" and isinstance(n.ast, ast.Assign)
                 and any(isinstance(t, ast.Subscript) and dotted(t.value) in memo
                         for t in n.ast.targets)}

        def lookup(nid, e):
            if isinstance(e, ast.Name) and e.id == "matsubara":
                return True
            return ae.UNKNOWN
        feas = ae.feasible_edges(g, lookup)
        p = g.find_path([g.entry], lambda x: x in rets, blocked=lambda x: x in real_nodes,
                        edge_ok=feas)
        # and the returned name is the one that was made real
        chk.add("L3", u, "matsubara=True -> .real before return", p is None and bool(real_nodes),
                "" if p is None and real_nodes else
                "an imaginary-time (Matsubara) integral can be returned complex",
                path=None if p is None else g.describe_path(p, u.loc)[-6:])


def frequency_range(u: Unit, c: ast.Call):
    """(lower, upper, consistent) of a _complex_integral call in the frequency variable of the
    integrand: `S * _complex_integral(lambda x: integrand(S * x), a, b)` integrates over
    [S*a, S*b]; consistent = the factor in front is the same S (or there is no substitution)."""
    kw = kw_of(c)
    a = kw.get("a", ast.Constant(value="?"))
    b = kw.get("b", ast.Constant(value="?"))
    f = kw.get("integrand", c.args[0] if c.args else None)
    scale = None
    if isinstance(f, ast.Lambda) and len(f.args.args) == 1 and isinstance(f.body, ast.Call) \
            and len(f.body.args) == 1 and isinstance(f.body.args[0], ast.BinOp) \
            and isinstance(f.body.args[0].op, ast.Mult):
        x = f.args.args[0].arg
        l_, r_ = f.body.args[0].left, f.body.args[0].right
        if isinstance(r_, ast.Name) and r_.id == x:
            scale = l_
        elif isinstance(l_, ast.Name) and l_.id == x:
            scale = r_
    if scale is None:
        return norm(a), norm(b), True

    def times(e):
        if isinstance(e, ast.Constant) and e.value in (1, 1.0):
            return norm(scale)
        if norm(e) in ("np.inf", "numpy.inf", "inf"):
            return "np.inf"
        if isinstance(e, ast.Constant) and e.value in (0, 0.0):
            return "0.0"
        return f"{norm(scale)} * {norm(e)}"
    # the Jacobian: the call is one factor of a product with the same scale
    jac = False
    for p_ in ast.walk(u.node):
        if isinstance(p_, ast.BinOp) and isinstance(p_.op, ast.Mult) and (p_.left is c or p_.right is c):
            other = p_.right if p_.left is c else p_.left
            jac = norm(other) == norm(scale)
    return times(a), times(b), jac


# --------------------------------------------------------------------- L4
def l4(prog: Program, chk: Check) -> None:
    chk.rule("L9", "the quadrature over the semi-infinite tail of the frequency axis is done in "
             "units of the cutoff frequency (lower limit a pure number, integrand evaluated at "
             "cutoff * x, result multiplied by cutoff): QUADPACK's treatment of [a, inf) is not "
             "scale covariant, and the bath must depend on cutoff * time only", floor=2)
    chk.rule("L4", "CUTOFF_DICT is the registry the constructor checks against; 'hard' is the "
             "only type that skips the [cutoff, inf) integral, identically in correlation() and "
             "eta_function(), whose integrand builders have the same branch structure", floor=5)
    m = prog.module(BC)
    table = None
    for st in m.tree.body:
        if isinstance(st, ast.Assign) and dotted(st.targets[0]) == "CUTOFF_DICT" \
                and isinstance(st.value, ast.Dict):
            table = st.value
    if table is None:
        raise AnalysisError("L4: CUTOFF_DICT vanished")
    keys = [k.value for k in table.keys]
    init = prog.unit(f"{BC}:CustomSD.__init__")
    ok = any(isinstance(st, ast.Assert) and isinstance(st.test, ast.Compare)
             and isinstance(st.test.ops[0], ast.In) and dotted(st.test.comparators[0]) == "CUTOFF_DICT"
             and dotted(st.test.left) == "cutoff_type" for st in walk_local(init.node))
    chk.add("L4", init, f"cutoff_type checked against CUTOFF_DICT {keys}", ok,
            "" if ok else "the constructor accepts cutoff types the registry does not know")
    sigs = {}
    for q in (f"{BC}:CustomSD.correlation", f"{BC}:CustomSD.eta_function"):
        u = prog.unit(q)
        tests = []
        owner = {}
        for fn_ in [f for f in ast.walk(u.node) if isinstance(f, ast.FunctionDef) and f is not u.node]:
            for y in ast.walk(fn_):
                owner[id(y)] = fn_
        for x in ast.walk(u.node):
            if isinstance(x, (ast.If, ast.IfExp)) and not _is_memo_test(
                    x.test, _memo_attrs(u), _memo_lookup_names(u, _memo_attrs(u))):
                fn_ = owner.get(id(x))
                tests.append(norm(_test_written_out(fn_, x.test) if fn_ is not None else x.test))
        sigs[q] = tests
        # hard special case
        hard = [x for x in ast.walk(u.node) if isinstance(x, ast.If)
                and isinstance(x.test, ast.Compare) and dotted(x.test.left) == "self.cutoff_type"
                and isinstance(x.test.comparators[0], ast.Constant)]
        ok = len(hard) == 1 and hard[0].test.comparators[0].value == "hard" \
            and isinstance(hard[0].test.ops[0], ast.NotEq) and hard[0].test.comparators[0].value in keys
        chk.add("L4", u, "only 'hard' skips the [cutoff, inf) integral", ok,
                "" if ok else "the tail integral is skipped for another cutoff type (or 'hard' "
                              "is not a registered type)")
        ints = [c for c in ast.walk(u.node) if isinstance(c, ast.Call)
                and call_name(c) == "_complex_integral"]
        bounds = [frequency_range(u, c) for c in ints]
        ok = [b[:2] for b in bounds] == [("0.0", "self.cutoff"), ("self.cutoff", "np.inf")] \
            and all(b[2] for b in bounds)
        chk.add("L4", u, f"integration ranges {[b[:2] for b in bounds]}", ok,
                "" if ok else "the frequency axis is not covered as [0, cutoff] + [cutoff, inf)"
                + ("" if all(b[2] for b in bounds) else
                   " (a substitution w = S*x without the factor S, or with another one)"))
        # the semi-infinite part is integrated in units of the cutoff
        for c, b in zip(ints, bounds):
            if b[1] != "np.inf":
                continue
            a_ = kw_of(c).get("a")
            plain = isinstance(a_, ast.Constant) and isinstance(a_.value, (int, float))
            chk.add("L9", u, f"semi-infinite quadrature from {norm(a_) if a_ is not None else '?'}", plain,
                    "dimensionless lower limit: the integrand is evaluated in units of the cutoff"
                    if plain else
                    "QUADPACK maps [a, inf) to (0, 1] with x = a + (1-t)/t, whatever the scale of the "
                    "integrand: for a cutoff frequency of 1e5 or more (SI units) the whole tail "
                    "falls between two nodes, the integral comes back as ~0 with a warning, and "
                    "correlation() / eta_function() are wrong by O(1) - the bath no longer depends "
                    "on cutoff * time only", c)
    a, b = sigs.values()
    chk.add("L4", prog.unit(f"{BC}:CustomSD.eta_function"),
            "branch structure of correlation() and eta_function() agrees", a == b,
            f"{a}" if a == b else f"correlation: {a} vs eta_function: {b}")


# --------------------------------------------------------------------- L5
class TauExpr:
    """sum of  coef * tau^n * exp(kappa * tau)  with tau-free polynomial coef / kappa
    over the symbols W (frequency), I (imaginary unit, I^2 = -1), J (spectral density),
    EXP[..] / INV[..] (opaque tau-free exponentials / reciprocals)."""

    def __init__(self, terms=None):
        self.terms = {}
        for (k, n), c in (terms or {}).items():
            c = _reduce_i(c)
            if c.terms:
                self.terms[(k, n)] = c

    @staticmethod
    def const(p: Poly):
        return TauExpr({(Poly(), 0): p})

    def __add__(self, o):
        t = dict(self.terms)
        for key, c in o.terms.items():
            t[key] = t.get(key, Poly()) + c
        return TauExpr(t)

    def __neg__(self):
        return TauExpr({k: -c for k, c in self.terms.items()})

    def __sub__(self, o):
        return self + (-o)

    def __mul__(self, o):
        t = {}
        for (k1, n1), c1 in self.terms.items():
            for (k2, n2), c2 in o.terms.items():
                key = (_reduce_i(k1 + k2), n1 + n2)
                t[key] = t.get(key, Poly()) + c1 * c2
        return TauExpr(t)

    def tau_free(self) -> Optional[Poly]:
        if all(k == Poly() and n == 0 for (k, n) in self.terms):
            return self.terms.get((Poly(), 0), Poly())
        return None

    def d_tau(self):
        t = {}
        for (k, n), c in self.terms.items():
            if n > 0:
                key = (k, n - 1)
                t[key] = t.get(key, Poly()) + c * Poly.const(n)
            if k.terms:
                key = (k, n)
                t[key] = t.get(key, Poly()) + c * k
        return TauExpr(t)

    def is_zero(self) -> bool:
        return not self.terms

    def __repr__(self):
        return " + ".join(f"({c})*tau^{n}*exp(({k})*tau)" for (k, n), c in self.terms.items()) or "0"


def _reduce_i(p: Poly) -> Poly:
    out = Poly()
    for m, c in p.terms.items():
        coef = Fraction(c)
        rest = []
        for (sym, pw) in m:
            if sym == "I":
                r = pw % 4
                if r in (2, 3):
                    coef = -coef
                if r in (1, 3):
                    rest.append(("I", 1))
            else:
                rest.append((sym, pw))
        out = out + Poly({tuple(sorted(rest)): coef})
    return out


def _tau_expr(e: ast.AST) -> Optional[TauExpr]:
    if isinstance(e, ast.Constant):
        if isinstance(e.value, complex):
            if e.value.real == 0:
                return TauExpr.const(Poly.sym("I") * Poly.const(Fraction(str(e.value.imag))))
            return None
        if isinstance(e.value, (int, float)) and not isinstance(e.value, bool):
            return TauExpr.const(Poly.const(Fraction(str(e.value))))
        return None
    if isinstance(e, ast.Name):
        if e.id == "tau":
            return TauExpr({(Poly(), 1): Poly.const(1)})
        if e.id == "w":
            return TauExpr.const(Poly.sym("W"))
        return None
    d = dotted(e)
    if d == "self.temperature":
        return TauExpr.const(Poly.sym("T"))
    if isinstance(e, ast.UnaryOp) and isinstance(e.op, ast.USub):
        v = _tau_expr(e.operand)
        return None if v is None else -v
    if isinstance(e, ast.UnaryOp) and isinstance(e.op, ast.UAdd):
        return _tau_expr(e.operand)
    if isinstance(e, ast.Call):
        fn = dotted(e.func) or ""
        if fn == "self._spectral_density":
            return TauExpr.const(Poly.sym("J"))
        if fn.split(".")[-1] == "exp" and len(e.args) == 1:
            a = _tau_expr(e.args[0])
            if a is None:
                return None
            const = Poly()
            lin = Poly()
            for (k, n), c in a.terms.items():
                if k.terms or n > 1:
                    return None
                if n == 0:
                    const = const + c
                else:
                    lin = lin + c
            coef = Poly.const(1) if not const.terms else Poly.sym(f"EXP[{const!r}]")
            return TauExpr({(_reduce_i(lin), 0): coef})
        return None
    if isinstance(e, ast.BinOp):
        if isinstance(e.op, ast.Pow):
            b = _tau_expr(e.left)
            if b is None or not isinstance(e.right, ast.Constant) or \
                    not isinstance(e.right.value, int) or not 0 <= e.right.value <= 4:
                return None
            out = TauExpr.const(Poly.const(1))
            for _ in range(e.right.value):
                out = out * b
            return out
        a, b = _tau_expr(e.left), _tau_expr(e.right)
        if a is None or b is None:
            return None
        if isinstance(e.op, ast.Add):
            return a + b
        if isinstance(e.op, ast.Sub):
            return a - b
        if isinstance(e.op, ast.Mult):
            return a * b
        if isinstance(e.op, ast.Div):
            den = b.tau_free()
            if den is None:
                return None
            inv = Poly.const(1).div(den)
            if inv is None:
                inv = Poly.sym(f"INV[{den!r}]")
                _INV_TABLE[f"INV[{den!r}]"] = den
            return a * TauExpr.const(inv)
    return None


_INV_TABLE: Dict[str, Poly] = {}


def _clear_inv(p: Poly, table: Dict[str, Poly]) -> Poly:
    """Multiply p by the denominators of its INV[..] symbols (INV[d] * d = 1)."""
    invs = sorted({sym for m in p.terms for (sym, pw) in m if sym.startswith("INV[")})
    out = p
    for inv in invs:
        den = table.get(inv)
        if den is None:
            return p
        new = Poly()
        for m, c in out.terms.items():
            pw = dict(m).get(inv, 0)
            rest = tuple((s_, q) for (s_, q) in m if s_ != inv)
            term = Poly({rest: c})
            if pw == 0:
                term = term * den
            elif pw == 1:
                pass
            else:
                return p
            new = new + term
        out = new
    return out


def _integrands(u: Unit) -> Dict[str, ast.AST]:
    """branch label -> integrand expression of the nested `integrand(w)` definitions."""
    out = {}
    # one-expression helper integrands defined next to `integrand` (`def h(w): return E`):
    # `integrand = h` makes h the integrand of that branch, `h(w)` inside an integrand is
    # written out
    helpers = {f.name: f for f in ast.walk(u.node) if isinstance(f, ast.FunctionDef)
               and f is not u.node and f.name != "integrand" and len(f.args.args) == 1
               and len([b for b in f.body if not (isinstance(b, ast.Expr)
                                                  and isinstance(b.value, ast.Constant))]) == 1
               and isinstance(f.body[-1], ast.Return) and f.body[-1].value is not None}

    def write_out(e: ast.AST) -> ast.AST:
        import copy

        class Inline(ast.NodeTransformer):
            def visit_Call(self, node):
                self.generic_visit(node)
                if isinstance(node.func, ast.Name) and node.func.id in helpers \
                        and len(node.args) == 1 and not node.keywords:
                    h = helpers[node.func.id]
                    pn = h.args.args[0].arg
                    arg = node.args[0]

                    class Sub(ast.NodeTransformer):
                        def visit_Name(self, n):
                            if n.id == pn and isinstance(n.ctx, ast.Load):
                                return copy.deepcopy(arg)
                            return n
                    return ast.copy_location(Sub().visit(copy.deepcopy(h.body[-1].value)), node)
                return node
        r = Inline().visit(copy.deepcopy(e))
        ast.fix_missing_locations(r)
        return r
    for st in ast.walk(u.node):
        if isinstance(st, ast.Assign) and len(st.targets) == 1 and dotted(st.targets[0]) == "integrand" \
                and isinstance(st.value, ast.Name) and st.value.id in helpers:
            ctx = branch_context(u.node, st)
            zero_t = any(br for (t, br) in ctx if "temperature" in norm(t) and "== 0" in norm(t))
            out["T=0" if zero_t else "T>0"] = helpers[st.value.id].body[-1].value
    for fn in [x for x in ast.walk(u.node) if isinstance(x, ast.FunctionDef) and x.name == "integrand"]:
        ctx = branch_context(u.node, fn)
        zero_t = any(br for (t, br) in ctx if "temperature" in norm(t) and "== 0" in norm(t))
        label0 = "T=0" if zero_t else "T>0"
        rets = [x for x in ast.walk(fn) if isinstance(x, ast.Return)]
        assigns = [x for x in ast.walk(fn) if isinstance(x, ast.Assign)]
        if not assigns and len(rets) == 1:
            out[label0] = write_out(rets[0].value)
            continue
        returned = {r.value.id for r in rets if isinstance(r.value, ast.Name)}
        before = len(out)
        by_paths = _integrand_paths(fn)
        guards_ = [c for conds, _e in (by_paths or []) for c in conds]
        if by_paths and len(by_paths) == 2 and len({norm(t) for (t, _b) in guards_}) == 1:
            # the integrand evaluated along its two paths (temporaries, a one-armed `if` that
            # re-binds a factor, the final return): the same two cases, however they are spelled
            gt = guards_[0][0]
            from oqv.canon import _Subst
            small = _small_branch(gt)
            if small is None and isinstance(gt, ast.Compare) and isinstance(gt.left, ast.Name):
                # the tested quantity held in a local (`boltzmann > eps`): judge the expression
                first = next((st_.value for st_ in fn.body if isinstance(st_, ast.Assign)
                              and len(st_.targets) == 1 and isinstance(st_.targets[0], ast.Name)
                              and st_.targets[0].id == gt.left.id), None)
                if first is not None:
                    import copy as _copy
                    gt2 = _Subst({gt.left.id: first}).visit(_copy.deepcopy(gt))
                    ast.fix_missing_locations(gt2)
                    small = _small_branch(gt2)
            for conds, e_ in by_paths:
                br = conds[0][1]
                exact = br if small is None else (br != small)
                out[f"{label0}/{'guarded' if exact else 'overflow'}"] = write_out(e_)
            continue
        for a in assigns:
            if returned and not any(isinstance(t, ast.Name) and t.id in returned for t in a.targets):
                continue
            c2 = branch_context(fn, a)
            guard = [br for (t, br) in c2 if "finfo" in norm(t) or "eps" in norm(t)]
            if len(guard) == 1:
                gt = [t for (t, br) in c2 if "finfo" in norm(t) or "eps" in norm(t)][0]
                small = _small_branch(gt)
                exact = guard[0] if small is None else (guard[0] != small)
                out[f"{label0}/{'guarded' if exact else 'overflow'}"] = \
                    write_out(_inline_locals(fn, a, returned))
    return out


def _integrand_paths(fn: ast.FunctionDef):
    """[(conditions, returned expression with the locals written out)] for an integrand made of
    plain assignments, if statements and returns; None when it contains anything else."""
    import copy
    from oqv.canon import _Subst
    results = []

    def run(stmts, env, conds) -> bool:
        """False if unsupported; paths that return are recorded"""
        for i, st in enumerate(stmts):
            if isinstance(st, ast.Expr) and isinstance(st.value, ast.Constant):
                continue
            if isinstance(st, ast.Assign) and len(st.targets) == 1 and isinstance(st.targets[0], ast.Name):
                v = _Subst(env).visit(copy.deepcopy(st.value))
                env = dict(env)
                env[st.targets[0].id] = v
                continue
            if isinstance(st, ast.Return) and st.value is not None:
                e = _Subst(env).visit(copy.deepcopy(st.value))
                ast.fix_missing_locations(e)
                results.append((list(conds), e))
                return True
            if isinstance(st, ast.If):
                rest = stmts[i + 1:]
                t = _Subst({}).visit(copy.deepcopy(st.test))
                ok1 = run(list(st.body) + rest, env, conds + [(st.test, True)])
                ok2 = run(list(st.orelse) + rest, env, conds + [(st.test, False)])
                return ok1 and ok2
            return False
        return True
    ok = run(list(fn.body), {}, [])
    if not ok or not results or len(results) > 4:
        return None
    return results


def _inline_locals(fn: ast.FunctionDef, a: ast.Assign, returned: Set[str]) -> ast.AST:
    """a.value with the integrand's own single-assignment temporaries written out
    (a temporary defined in the same branch or before the branching)."""
    import copy
    ctx_a = [(norm(t), br) for (t, br) in branch_context(fn, a)]
    defs: Dict[str, ast.AST] = {}
    for st in [x for x in ast.walk(fn) if isinstance(x, ast.Assign)]:
        if st is a or len(st.targets) != 1 or not isinstance(st.targets[0], ast.Name):
            continue
        name = st.targets[0].id
        if name in returned or st.lineno >= a.lineno:
            continue
        ctx = [(norm(t), br) for (t, br) in branch_context(fn, st)]
        if ctx != ctx_a[:len(ctx)]:
            continue                      # defined on another branch
        if name in defs:
            defs[name] = None             # several definitions: leave the name alone
        else:
            defs[name] = st.value

    class Sub(ast.NodeTransformer):
        def visit_Name(self, n):
            v = defs.get(n.id)
            if isinstance(n.ctx, ast.Load) and v is not None:
                return Sub().visit(copy.deepcopy(v))
            return n
    return Sub().visit(copy.deepcopy(a.value))


def l5(prog: Program, chk: Check) -> None:
    chk.rule("L5", "sibling cross-check of the integrand builders: in every branch (T = 0, thermal, "
             "thermal beyond the overflow guard) the second tau-derivative of eta_function's "
             "integrand equals minus the integrand of correlation() (eta_function returns "
             "-integral, so eta'' = C term by term)", floor=3)
    cu = prog.unit(f"{BC}:CustomSD.correlation")
    eu = prog.unit(f"{BC}:CustomSD.eta_function")
    ci, ei = _integrands(cu), _integrands(eu)
    chk.saw(cu)
    chk.saw(eu)
    if len(ci) < 3 and len(ei) < 3:
        raise AnalysisError(f"L5: integrand branches vanished: correlation {sorted(ci)}, "
                            f"eta_function {sorted(ei)}")
    if set(ci) != set(ei):
        chk.add("L5", eu, f"integrand branches: correlation {sorted(ci)} vs eta_function "
                f"{sorted(ei)}", False,
                "the two integrand builders no longer distinguish the same cases (T = 0, thermal, "
                "thermal beyond the overflow guard)")
        return
    # sign of the returned value
    def _negated(u):
        signs = {isinstance(v, ast.UnaryOp) and isinstance(v.op, ast.USub)
                 for v in _result_exprs(u)}
        if len(signs) != 1:
            raise AnalysisError(f"L5: {u.qual} hands back its integral with mixed or no sign "
                                f"({[norm(v) for v in _result_exprs(u)]})")
        return signs.pop()
    neg, cneg = _negated(eu), _negated(cu)
    for label in sorted(ci):
        c, e = _tau_expr(ci[label]), _tau_expr(ei[label])
        if c is None or e is None:
            raise AnalysisError(f"L5: integrand of branch {label} is outside the expression class "
                                f"(sums/products of exp(a + b*tau), powers of w)")
        # the branch beyond the guard approximates by design: residuals bounded by the guarded
        # quantity (in the sense of L8) are accepted there, and only there
        approx = label.endswith("/overflow")
        gsym = _guard_symbol(eu) if approx else None
        approx = approx and gsym is not None
        d2 = e.d_tau().d_tau()
        lhs = (-d2 if neg else d2)
        rhs = (-c if cneg else c)
        diff = lhs - rhs
        # eta(0) = 0 and eta'(0) = 0 (needed by the triangle formula and for additive tiling)
        for order, ex in ((0, e), (1, e.d_tau())):
            at0 = Poly()
            for (k, n), cf in ex.terms.items():
                if n == 0:
                    at0 = at0 + cf
            at0 = _reduce_i(_clear_inv(at0, _INV_TABLE))
            if approx and at0.terms and all(dict(m).get(gsym, 0) >= 1 for m in at0.terms):
                chk.add("L5", eu, f"branch {label}: eta kernel {'value' if order == 0 else 'slope'} "
                        f"at tau = 0", True, f"= {at0}, bounded by the guarded {gsym} <= eps", ei[label])
                continue
            chk.add("L5", eu, f"branch {label}: eta kernel {'value' if order == 0 else 'slope'} "
                    f"at tau = 0", not at0.terms,
                    "vanishes" if not at0.terms else
                    f"= {at0} (times a common denominator): eta(0) = eta'(0) = 0 is violated, so "
                    f"cell integrals no longer tile additively", ei[label])
        if approx and not diff.is_zero() and not _not_negligible(_clear_all_inv(diff)[0], gsym):
            chk.add("L5", eu, f"branch {label}: d^2/dtau^2 of the eta kernel vs correlation integrand",
                    True, f"eta'' = C up to {diff}, bounded by the guarded {gsym} <= eps", ei[label])
            continue
        chk.add("L5", eu, f"branch {label}: d^2/dtau^2 of the eta kernel vs correlation integrand",
                diff.is_zero(),
                "eta'' = C" if diff.is_zero() else
                f"eta'' - C = {diff}: the double-integral kernel is not the second antiderivative "
                f"of the correlation function in this branch", ei[label])


def l6(prog: Program, chk: Check) -> None:
    chk.rule("L6", "no value of a correlation function, eta kernel or cell integral is served "
             "from a hand-written memo whose key leaves out an argument the value depends on "
             "(real-time and Matsubara values, or different tolerances, must not share slots); "
             "functools caches key by all arguments - including the object itself, through its "
             "__hash__ / __eq__: a correlations class that defines value equality must compare "
             "everything the memoised method reads", floor=1)
    from rules.c20 import _a7_unit
    n = 0
    for u in prog.units_in(BC):
        if isinstance(u.node, ast.Lambda):
            continue
        n += 1
        for (st, attr, key_expr, covered, missing) in _a7_unit(u):
            chk.saw(u)
            chk.add("L6", u, f"memo {attr}[{norm(key_expr)}] <- {norm(st.value)[:50]}", not missing,
                    f"entry keyed / validated by {covered}" if not missing else
                    f"the stored value depends on {missing}, which is not part of the key: "
                    f"a later call with a different {missing[0]} is served the old value", st)
    # functools caches key by all arguments - `self` included, through __hash__ / __eq__
    from rules.c20 import cache_equality_findings
    for (mu, construct, ok, detail) in cache_equality_findings(prog, {BC}):
        chk.saw(mu)
        chk.add("L6", mu, construct, ok, detail, mu.node)
    chk.add("L6", prog.module(BC), f"{n} functions of bath_correlations scanned for memo idioms",
            n >= 20, "" if n >= 20 else "the module shrank below what was confirmed by hand")


def l7(prog: Program, chk: Check) -> None:
    chk.rule("L7", "the numerically integrated cell integral has a real and an imaginary part on "
             "every path: both quadratures of CustomCorrelations.correlation_2d_integral lie on "
             "every path to a return (a correlation function is complex in general; whether it is "
             "real cannot be read off one sample)", floor=1)
    u = prog.unit(f"{BC}:CustomCorrelations.correlation_2d_integral")
    g = CFG(u.node, exc_edges=False)
    chk.saw(u, g)
    quads = [n.id for n in g.nodes if not n.copy_of and any(
        (dotted(c.func) or "").split(".")[-1] in ("dblquad", "quad", "nquad") for c in n.calls())]
    rets = [n.id for n in g.nodes if n.kind == "stmt" and isinstance(n.ast, ast.Return)]
    if len(quads) < 2 or not rets:
        raise AnalysisError(f"L7: expected two quadrature calls in {u.qual}, found {len(quads)}")
    for q in quads:
        p = g.find_path([g.entry], lambda x: x in rets, blocked=lambda x, q=q: x == q)
        chk.add("L7", u, f"quadrature at line {g.nodes[q].lineno} on every path", p is None,
                "" if p is None else
                "a return is reachable without this integration: one part of the complex cell "
                "integral is dropped on that path",
                g.nodes[q].ast, path=None if p is None else g.describe_path(p, u.loc)[-5:])


# --------------------------------------------------------------------- L8
def _is_eps(e: ast.AST) -> bool:
    t = norm(e)
    return "finfo" in t or t.endswith("eps") or "epsilon" in t


def _small_branch(t: ast.AST) -> Optional[bool]:
    """Which outcome of test t implies that the guarded exponential is below machine
    precision: True (then-branch), False (else-branch) or None (neither is implied)."""
    if isinstance(t, ast.UnaryOp) and isinstance(t.op, ast.Not):
        v = _small_branch(t.operand)
        return None if v is None else (not v)
    if isinstance(t, ast.BoolOp):
        vs = [_small_branch(x) for x in t.values]
        if isinstance(t.op, ast.And):
            return True if True in vs else None     # then-branch: all conjuncts hold
        return False if False in vs else None       # else-branch: all disjuncts fail
    if isinstance(t, ast.Compare) and len(t.ops) == 1:
        a, b, op = t.left, t.comparators[0], t.ops[0]
        def is_exp(x):
            return isinstance(x, ast.Call) and (dotted(x.func) or "").split(".")[-1] == "exp"
        if is_exp(a) and _is_eps(b):
            if isinstance(op, (ast.Gt, ast.GtE)):
                return False
            if isinstance(op, (ast.Lt, ast.LtE)):
                return True
        if is_exp(b) and _is_eps(a):
            if isinstance(op, (ast.Lt, ast.LtE)):
                return False
            if isinstance(op, (ast.Gt, ast.GtE)):
                return True
    return None


def _test_written_out(fn: ast.FunctionDef, test: ast.AST) -> ast.AST:
    """the test with the closure's own once-assigned locals replaced by what they stand for
    (`boltzmann = np.exp(-w / T) ... if boltzmann > eps`)"""
    import copy
    from oqv.canon import _Subst
    counts: Dict[str, int] = {}
    vals: Dict[str, ast.AST] = {}
    for st in ast.walk(fn):
        if isinstance(st, ast.Assign) and len(st.targets) == 1 and isinstance(st.targets[0], ast.Name):
            counts[st.targets[0].id] = counts.get(st.targets[0].id, 0) + 1
            vals[st.targets[0].id] = st.value
    env = {k: v for k, v in vals.items() if counts[k] == 1}
    t = copy.deepcopy(test)
    for _ in range(3):
        t = _Subst(env).visit(t)
    ast.fix_missing_locations(t)
    return t


def _guard_tests(u: Unit) -> List[ast.AST]:
    return [_test_written_out(fn, x.test) for fn in ast.walk(u.node)
            if isinstance(fn, ast.FunctionDef) and fn.name == "integrand"
            for x in ast.walk(fn) if isinstance(x, ast.If)
            and ("finfo" in norm(x.test) or "eps" in norm(x.test))]


def _guard_symbol(u: Unit) -> Optional[str]:
    """EXP[..] symbol of the quantity the overflow guard bounds by machine precision."""
    for fn in [x for x in ast.walk(u.node) if isinstance(x, ast.FunctionDef) and x.name == "integrand"]:
        for t in [_test_written_out(fn, x.test) for x in ast.walk(fn) if isinstance(x, ast.If)]:
            if "finfo" not in norm(t) and "eps" not in norm(t):
                continue
            for c in [x for x in ast.walk(t) if isinstance(x, ast.Call)
                      and (dotted(x.func) or "").split(".")[-1] == "exp"]:
                v = _tau_expr(c)
                if v is None:
                    continue
                p = v.tau_free()
                if p is None or len(p.terms) != 1:
                    continue
                (m, cf), = p.terms.items()
                if cf == 1 and len(m) == 1 and m[0][0].startswith("EXP[") and m[0][1] == 1:
                    return m[0][0]
    return None


def _times(expr: TauExpr, p: Poly) -> TauExpr:
    return expr * TauExpr.const(p)


def _clear_all_inv(expr: TauExpr) -> Tuple[TauExpr, List[str]]:
    """expr times the denominators of all INV[..] symbols it mentions."""
    invs = sorted({sym for c in expr.terms.values() for m in c.terms for (sym, pw) in m
                   if sym.startswith("INV[")})
    out = expr
    for inv in invs:
        den = _INV_TABLE.get(inv)
        if den is None:
            raise AnalysisError(f"L8: denominator of {inv} unknown")
        terms = {}
        for key, c in out.terms.items():
            new = Poly()
            for m, cf in c.terms.items():
                pw = dict(m).get(inv, 0)
                rest = tuple((s_, q) for (s_, q) in m if s_ != inv)
                if pw == 0:
                    new = new + Poly({rest: cf}) * den
                elif pw == 1:
                    new = new + Poly({rest: cf})
                else:
                    raise AnalysisError(f"L8: {inv} occurs squared")
            terms[key] = new
        out = TauExpr(terms)
    return out, invs


def _imag_rate(k: Poly) -> Optional[Fraction]:
    """a for kappa = a*I*W (growth rate exp(a*W*tau_M) on the imaginary-time axis), 0 for kappa = 0."""
    if not k.terms:
        return Fraction(0)
    if len(k.terms) != 1:
        return None
    (m, cf), = k.terms.items()
    if dict(m) == {"I": 1, "W": 1}:
        return Fraction(cf)
    return None


def _not_negligible(delta: TauExpr, sym: str) -> List[str]:
    """terms of delta not bounded by sym <= eps for real tau and tau = -i*tau_M, 0 <= tau_M <= 1/T"""
    bad = []
    for (k, n), c in delta.terms.items():
        a = _imag_rate(k)
        for m, cf in c.terms.items():
            p = dict(m).get(sym, 0)
            if a is None or p < 1 + max(a, 0):
                bad.append(f"({Poly({m: cf})})*tau^{n}*exp(({k})*tau)")
    return bad


def guard_limits(prog: Program, chk: Check, rule: str,
                 quals=("CustomSD.correlation", "CustomSD.eta_function")) -> None:
    for qual in quals:
        u = prog.unit(f"{BC}:{qual}")
        chk.saw(u)
        ints = _integrands(u)
        g, o = ints.get("T>0/guarded"), ints.get("T>0/overflow")
        if g is None and o is None:
            chk.add(rule, u, f"{qual}: thermal integrand has no branch beyond an overflow guard",
                    True, "nothing is approximated")
            continue
        if g is None or o is None:
            raise AnalysisError(f"{rule}: {qual} has a guarded thermal integrand with one branch only")
        sym = _guard_symbol(u)
        if sym is None:
            raise AnalysisError(f"{rule}: the quantity bounded by the overflow guard of {qual} "
                                f"is not of the form exp(tau-free)")
        for t in _guard_tests(u):
            sb = _small_branch(t)
            chk.add(rule, u, f"{qual}: guard `{norm(t)[:70]}`", sb is not None,
                    f"the {'then' if sb else 'else'}-branch is taken only when {sym} is at most "
                    f"machine precision" if sb is not None else
                    f"neither outcome of this test implies {sym} <= eps: the approximate "
                    f"integrand is also used where the thermal factor is of order one", t)
        ge, oe = _tau_expr(g), _tau_expr(o)
        if ge is None or oe is None:
            raise AnalysisError(f"{rule}: integrand of {qual} outside the expression class")
        delta, invs = _clear_all_inv(ge - oe)
        bad = _not_negligible(delta, sym)
        chk.add(rule, u, f"{qual}: branch beyond the guard vs guarded branch (difference times "
                f"{' * '.join(x[4:-1] for x in invs) or '1'}, {len(delta.terms)} terms)", not bad,
                f"every term of the difference is bounded by {sym} <= eps for real tau and for "
                f"tau = -i*tau_M with 0 <= tau_M <= 1/T" if not bad else
                f"the branch beyond the guard differs from the exact integrand by {bad[0]}"
                + (f" (+{len(bad) - 1} more)" if len(bad) > 1 else "") +
                f": on the imaginary-time axis (tau = -i*tau_M, tau_M up to 1/T) exp(i*W*tau) grows "
                f"like 1/{sym}, so this term is of order one where the guard says it is negligible",
                o)


def l8(prog: Program, chk: Check) -> None:
    chk.rule("L8", "the thermal integrands beyond the overflow guard are the guarded integrands up "
             "to terms bounded by the guarded quantity exp(-w/T) <= eps, for real time arguments and "
             "for Matsubara arguments tau = -i*tau_M with tau_M in [0, 1/T] (where exp(+i*w*tau) is "
             "as large as exp(w/T)): a term may be dropped only if its power of exp(-w/T) exceeds "
             "its growth rate on the imaginary-time axis", floor=2)
    guard_limits(prog, chk, "L8")


def run(prog: Program, chk: Check) -> None:
    chk.explanation = (
        "Decides, by a sibling cross-check, that CustomSD's closed-form cell integrals are the "
        "inclusion-exclusion of the double antiderivative eta (an uninterpreted function; "
        "arguments are affine forms in time_1, time_2, delta) over exactly the regions that "
        "CustomCorrelations hands to dblquad (L1; this implies additive tiling of the cells), "
        "that the triangle shortcut is only used with time_1 = 0 (path-conditioned constant "
        "propagation at the callers), that all shape names agree (L2), that Matsubara integrals "
        "pass through .real on every path (L3), and registry / sibling agreement of the two "
        "integrand builders (L4).")
    chk.not_decided = ("The value of the integrals (quadrature error, closed forms at T = 0), "
                       "C(-tau) = C(tau)* and positivity; L5 decides only that eta'' = C holds "
                       "between the two integrand builders, not that either is the right physics.")
    chk.assumptions = ["scipy.integrate.dblquad(func, a, b, gfun, hfun) integrates y from "
                       "gfun(x) to hfun(x) for x in [a, b]",
                       "eta'' = C and eta(0) = eta'(0) = 0 (kernel (e^{-iwt} - 1 + iwt)/w^2)"]
    chk.call(l1_l2, prog, chk)
    chk.call(l3, prog, chk)
    chk.call(l4, prog, chk)
    chk.call(l5, prog, chk)
    chk.call(l6, prog, chk)
    chk.call(l7, prog, chk)
    chk.call(l8, prog, chk)
