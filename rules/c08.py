"""C08 - the adjoint gradient equals the derivative of the objective.

H1 half-step index maps, H2 the backward pass is the reversed, transposed
mirror of the forward step (incl. environment order and bond-leg matching),
H3 the stored forward tensor sits between post-control and first half
propagator.
"""
from __future__ import annotations

import ast
from fractions import Fraction
from typing import Dict, List, Optional, Set, Tuple

from oqv import abseval as ae
from oqv.astutil import call_name, method_call
from oqv.cfg import CFG
from oqv.dataflow import DefUse
from oqv.forms import Poly, eval_form
from oqv.model import AnalysisError, Program, Unit, dotted, norm, walk_local, kw_of
from oqv.report import Check
from rules import c18

S = Poly.sym("STEP")
I = Poly.sym("I")


# --------------------------------------------------------------------- H1
def _param_index_of(du: DefUse, nid: int, e: ast.AST, depth=0) -> Optional[Poly]:
    """Form of the index i in `parameters[i]` from which `e` is computed."""
    if depth > 8:
        return None
    found = []
    for x in ast.walk(e):
        if isinstance(x, ast.Subscript) and dotted(x.value) == "parameters" \
                and not isinstance(x.slice, ast.Slice):
            def leaf(n):
                if isinstance(n, ast.Name) and n.id == "step":
                    return S
                return None
            found.append(eval_form(x.slice, leaf))
    if found:
        return found[0] if len(set(map(repr, found))) == 1 else None
    for x in ast.walk(e):
        if isinstance(x, ast.Name) and isinstance(x.ctx, ast.Load):
            for d in du.reaching(nid, x.id):
                if d.value is not None and d.node != nid and not d.sel:
                    r = _param_index_of(du, d.node, d.value, depth + 1)
                    if r is not None:
                        return r
    return None


def h1(prog: Program, chk: Check) -> None:
    chk.rule("H1", "half-step index maps: the first half of step k uses parameters[2k], the "
             "second parameters[2k+1] - in get_propagators and both variants of "
             "get_propagator_derivatives; _chain_rule writes total_derivs[2i] from (derivative "
             "of the first half, second-half propagator) and [2i+1] from (first-half propagator, "
             "derivative of the second half)", floor=8)
    want = [Poly.const(2) * S, Poly.const(2) * S + Poly.const(1)]
    closures = []
    gp = prog.unit("system:ParameterizedSystem.get_propagators")
    closures += prog.nested_units(gp)
    gd = prog.unit("system:ParameterizedSystem.get_propagator_derivatives")
    closures += prog.nested_units(gd)
    closures = [c for c in closures if not isinstance(c.node, ast.Lambda)]
    if len(closures) != 3:
        raise AnalysisError(f"H1: expected 3 step closures in ParameterizedSystem, found "
                            f"{len(closures)}")
    for u in closures:
        du = DefUse(u, CFG(u.node, exc_edges=False))
        chk.saw(u, du.cfg)
        rets = [n for n in du.cfg.nodes if n.kind == "stmt" and isinstance(n.ast, ast.Return)]
        if len(rets) != 1 or not isinstance(rets[0].ast.value, ast.Tuple) \
                or len(rets[0].ast.value.elts) != 2:
            raise AnalysisError(f"H1: {u.qual} does not return a pair")
        for pos, el in enumerate(rets[0].ast.value.elts):
            f = _param_index_of(du, rets[0].id, el)
            chk.add("H1", u, f"return position {pos} ({norm(el)}) <- parameters[{f}]",
                    f == want[pos],
                    "" if f == want[pos] else
                    f"{'first' if pos == 0 else 'second'} half step must read parameters[{want[pos]}]",
                    rets[0].ast, function=u.qual.split(":")[1])
    # chain rule
    u = prog.unit("gradient:_chain_rule")
    du = DefUse(u, CFG(u.node, exc_edges=False))
    chk.saw(u, du.cfg)

    # the step variable: what the callables `propagators` / `dprop_dparam` are called with
    step_vars = {c.args[0].id for c in walk_local(u.node) if isinstance(c, ast.Call)
                 and dotted(c.func) in ("propagators", "dprop_dparam") and c.args
                 and isinstance(c.args[0], ast.Name)}
    if len(step_vars) != 1:
        raise AnalysisError("H1: _chain_rule no longer evaluates propagators and their "
                            "derivatives at one step variable")
    step_var = next(iter(step_vars))

    def origin(nid: int, e: ast.AST) -> Optional[Tuple[str, int]]:
        """('prop'|'deriv', tuple position) of a half-step object."""
        while isinstance(e, ast.Attribute) and e.attr == "T":
            e = e.value
        if isinstance(e, ast.Subscript):
            e = e.value
        if not isinstance(e, ast.Name):
            return None
        ds = du.reaching(nid, e.id)
        for _ in range(3):
            # a transposed / plain copy held in a local of its own (`first_t = first_half_prop.T`)
            if len(ds) == 1 and ds[0].value is not None and not ds[0].sel \
                    and not isinstance(ds[0].value, ast.Call):
                v_ = ds[0].value
                while isinstance(v_, ast.Attribute) and v_.attr == "T":
                    v_ = v_.value
                if isinstance(v_, ast.Subscript):
                    v_ = v_.value
                if isinstance(v_, ast.Name):
                    ds = du.reaching(ds[0].node, v_.id)
                    continue
            break
        if len(ds) != 1 or ds[0].value is None or not isinstance(ds[0].value, ast.Call):
            return None
        callee = dotted(ds[0].value.func)
        kind = {"propagators": "prop", "dprop_dparam": "deriv"}.get(callee)
        idx = [s_[1] for s_ in ds[0].sel if s_[0] == "idx"]
        if kind is None or len(idx) != 1:
            return None
        if norm(ds[0].value.args[0]) != step_var:
            return None
        return kind, idx[0]
    stores = []
    for n in du.cfg.nodes:
        if n.kind == "stmt" and isinstance(n.ast, ast.Assign) and \
                isinstance(n.ast.value, ast.Call) and call_name(n.ast.value) == "combine_derivs":
            stores.append(n)
    if len(stores) != 2:
        raise AnalysisError(f"H1: expected 2 combine_derivs stores in _chain_rule, found {len(stores)}")
    for n in stores:
        t = n.ast.targets[0]
        row = t.value.slice if isinstance(t.value, ast.Subscript) else t.slice
        if isinstance(row, ast.Tuple) and row.elts:
            row = row.elts[0]            # a[i, j] and a[i][j] address the same element

        def leaf(x):
            if isinstance(x, ast.Name) and x.id == step_var:
                return I
            return None
        f = eval_form(row, leaf)
        half = None
        if f == Poly.const(2) * I:
            half = 0
        elif f == Poly.const(2) * I + Poly.const(1):
            half = 1
        c = n.ast.value
        adj_ok = norm(c.args[0]) == f"adjoint_tensor[{step_var}]"
        pre, post = origin(n.id, c.args[1]), origin(n.id, c.args[2])
        if half is None or pre is None or post is None:
            chk.add("H1", u, f"{norm(t)} = combine_derivs(...)", False,
                    f"row index form {f}, operands {pre}/{post} not recognised", n.ast)
            continue
        want_pre = ("deriv", 0) if half == 0 else ("prop", 0)
        want_post = ("prop", 1) if half == 0 else ("deriv", 1)
        ok = adj_ok and pre == want_pre and post == want_post
        chk.add("H1", u, f"total_derivs[{f}] <- pre={pre}, post={post}", ok,
                "" if ok else f"expected pre={want_pre}, post={want_post} with adjoint_tensor[i]",
                n.ast)


# --------------------------------------------------------------------- H2
def _feasible_defs(du: DefUse, name: str, target: int, edge_ok) -> Set[int]:
    """Definitions of `name` that reach CFG node `target` along feasible paths."""
    g = du.cfg
    def_at = {}
    for d in du.defs:
        if d.name == name:
            def_at[d.node] = d.id
    seen = set()
    work = [(g.entry, None)]
    out = set()
    while work:
        node, cur = work.pop()
        if node == target:
            out.add(cur)
            continue
        if node in def_at:
            cur = def_at[node]
        for (b, l) in g.succ[node]:
            if not edge_ok(node, b, l) or (b, cur) in seen:
                continue
            seen.add((b, cur))
            work.append((b, cur))
    return out


def _env_direction(prog: Program, reverse_value: bool) -> Tuple[str, str]:
    """Order in which _apply_pt_mpos visits the environments for a given
    constant value of its `reverse` parameter ('asc' | 'desc')."""
    u = prog.unit("system_dynamics:_apply_pt_mpos")
    du = DefUse(u, CFG(u.node, exc_edges=False))
    g = du.cfg
    loops = [n for n in g.nodes if n.kind == "iter"]
    if len(loops) != 1:
        raise AnalysisError("H2: _apply_pt_mpos no longer has exactly one loop")
    loop = loops[0]
    has_rev_param = "reverse" in u.params

    def lookup(nid, e):
        if isinstance(e, ast.Name) and e.id == "reverse":
            return reverse_value
        return ae.UNKNOWN
    feas = ae.feasible_edges(g, lookup)

    def flips_of(e: ast.AST, at: int, depth: int = 0) -> int:
        """Number of order reversals between enumerate(...) and the value of e at node `at`."""
        if depth > 6:
            raise AnalysisError("H2: environment iteration too deeply nested")
        if isinstance(e, ast.Call) and dotted(e.func) == "reversed":
            return 1 + flips_of(e.args[0], at, depth + 1)
        if isinstance(e, ast.Subscript) and isinstance(e.slice, ast.Slice) \
                and e.slice.step is not None and norm(e.slice.step) == "-1" \
                and e.slice.lower is None and e.slice.upper is None:
            return 1 + flips_of(e.value, at, depth + 1)
        if isinstance(e, ast.Call) and dotted(e.func) in ("list", "tuple") and len(e.args) == 1:
            return flips_of(e.args[0], at, depth + 1)
        if isinstance(e, ast.Call) and dotted(e.func) == "enumerate":
            return 0
        if isinstance(e, ast.Name):
            ds = _feasible_defs(du, e.id, at, feas)
            if len(ds) != 1 or None in ds:
                raise AnalysisError(
                    f"H2: `{e.id}` has no unique definition under reverse={reverse_value}")
            d = du.defs[next(iter(ds))]
            if d.value is None or d.sel:
                raise AnalysisError(f"H2: `{e.id}` is not a plain assignment")
            n = flips_of(d.value, d.node, depth + 1)
            # in-place reversals executed on every feasible path between that definition
            # and `at`
            for node in g.nodes:
                for c in node.calls():
                    if method_call(c) == (e.id, "reverse") and node.id != at:
                        on_some = g.find_path([d.node], lambda x, t=node.id: x == t,
                                              edge_ok=feas) is not None and \
                            g.find_path([node.id], lambda x: x == at, edge_ok=feas) is not None
                        if not on_some:
                            continue
                        avoid = g.find_path([d.node], lambda x: x == at,
                                            blocked=lambda x, t=node.id: x == t, edge_ok=feas)
                        if avoid is not None and len(avoid) > 1:
                            raise AnalysisError("H2: in-place reversal on some but not all "
                                                "paths for a fixed `reverse` flag")
                        n += 1
            return n
        raise AnalysisError(f"H2: environment iteration `{norm(e)}` is outside the enumerated "
                            f"idioms (enumerate / list / reversed / [::-1] / .reverse())")
    flips = flips_of(loop.ast.iter, loop.id)
    tgt = loop.ast.target
    idx_var = tgt.elts[0].id if isinstance(tgt, ast.Tuple) else None
    own_bond = any(isinstance(x, ast.BinOp) and isinstance(x.op, ast.BitXor)
                   and norm(x.left) == f"current_edges[{idx_var}]" for x in ast.walk(loop.ast))
    if not own_bond:
        raise AnalysisError("H2: _apply_pt_mpos no longer connects MPO i to bond edge i")
    return ("desc" if flips % 2 else "asc"), ("has flag" if has_rev_param else "no flag")


def h2_h3(prog: Program, chk: Check) -> None:
    chk.rule("H2", "one backward step is the reversed, transposed mirror of one forward step: "
             "forward [P1, ENV ascending, P2] preceded by [PRE, POST]; backward "
             "[P2^T, ENV^T in the opposite order, P1^T, POST^T, PRE^T]; the backward and forward "
             "tensors are joined through the tracked bond edges", floor=8)
    chk.rule("H3", "the forward tensor stored for the derivative is taken after the post-control "
             "and before the first half propagator of the same step; the MPOs of the step are "
             "stored with it", floor=2)
    u = prog.unit("gradient:compute_gradient_and_dynamics")
    du = DefUse(u, CFG(u.node, exc_edges=False))
    g = du.cfg
    chk.saw(u, g)
    ev = c18.stepper_events(prog, u, du)
    cut, back = c18.split_forward_backward(g)
    from rules.c02 import _callable_kind
    nested_fns = {x.name: x for x in u.node.body if isinstance(x, ast.FunctionDef)}
    fwd = {n: k for n, k in ev.items() if n not in back}
    bwd = {n: k for n, k in ev.items() if n in back}
    # ---- forward env order
    env_f = [n for n, k in fwd.items() if k == "ENV"]
    env_b = [n for n, k in bwd.items() if k == "ENV"]
    if len(env_f) != 1 or len(env_b) != 1:
        raise AnalysisError("H2: expected one _apply_pt_mpos call per pass")

    def rev_arg(nid) -> bool:
        for c in g.nodes[nid].calls():
            if call_name(c) == "_apply_pt_mpos":
                v = kw_of(c).get("reverse", c.args[3] if len(c.args) > 3 else None)
                if v is None:
                    return False
                if isinstance(v, ast.Constant):
                    return bool(v.value)
                raise AnalysisError("H2: `reverse` argument is not a constant")
        return False
    dir_f, _ = _env_direction(prog, rev_arg(env_f[0]))
    dir_b, _ = _env_direction(prog, rev_arg(env_b[0]))
    chk.add("H2", u, f"forward pass applies environments {dir_f}ending", dir_f == "asc",
            "" if dir_f == "asc" else "the forward pass must follow compute_dynamics (ascending)")
    chk.add("H2", u, f"backward pass applies environments {dir_b}ending", dir_b != dir_f,
            "opposite to the forward order: (M_n ... M_1)^T = M_1^T ... M_n^T" if dir_b != dir_f else
            "the backward pass applies the leg-swapped MPOs in the SAME order as the forward "
            "pass; this is the transpose only if all environment MPOs commute (sigma_z bath + "
            "sigma_x bath: |grad - finite difference| = 1.6e-4 at |grad| <= 0.035)",
            g.nodes[env_b[0]].ast)
    # MPOs of the backward pass are leg-swapped copies of the stored forward MPOs
    swapped = False
    for c in g.nodes[env_b[0]].calls():
        if call_name(c) == "_apply_pt_mpos":
            a = c.args[2]
            if isinstance(a, ast.Name):
                for d in du.reaching(env_b[0], a.id):
                    if d.value is not None and isinstance(d.value, ast.Call) and \
                            call_name(d.value) == "_get_pt_mpos_backprop":
                        swapped = True
    chk.add("H2", u, "backward MPOs come from _get_pt_mpos_backprop (legs swapped)", swapped)
    bp = prog.unit("system_dynamics:_get_pt_mpos_backprop")
    swaps = sorted(tuple(sorted((c.args[1].value, c.args[2].value)))
                   for c in walk_local(bp.node) if isinstance(c, ast.Call)
                   and (dotted(c.func) or "").endswith("swapaxes") and len(c.args) == 3
                   and all(isinstance(a, ast.Constant) for a in c.args[1:]))
    # which pairs are exchanged here and which by _apply_pt_mpos(reverse=True) is H7's business
    chk.add("H2", bp, f"leg swaps {swaps}", all(sw in ((0, 1), (2, 3)) for sw in swaps),
            "pairs of bond / system legs (the parity per pair is judged by H7)"
            if all(sw in ((0, 1), (2, 3)) for sw in swaps) else
            "a swap that mixes bond and system legs")
    # ---- backward sequence of system superoperators inside the loop
    loop_nodes = [n for n in g.nodes if n.kind == "iter" and n.id in back
                  and _descending(n.ast.iter)]
    if len(loop_nodes) != 1:
        raise AnalysisError("H2: backward loop not found")
    body = g.reachable([b for b, l in g.succ[loop_nodes[0].id] if l == "it"],
                       edge_ok=lambda a, b, l: l not in ("loop",) and b != loop_nodes[0].id)
    seq = sorted([(g.nodes[n].lineno, k, n) for n, k in bwd.items() if n in body])
    kinds = [k for _, k, _ in seq]
    want = ["PROP2", "ENV", "PROP1", "POST", "PRE"]
    chk.add("H2", u, f"backward step order {kinds}", kinds == want,
            "" if kinds == want else f"expected {want} (reversal of the forward step)")
    # every system superoperator of the backward step is transposed
    for _, k, n in seq:
        if k == "ENV":
            continue
        tr = False
        for c in g.nodes[n].calls():
            if call_name(c) == "_apply_system_superoperator":
                a = c.args[2]
                # transpositions between the propagator / control and the argument: at the call
                # or in the plain locals it was handed through (`p = first.T ... apply(p)`)
                flips, cur, at = 0, a, n
                for _ in range(6):
                    if isinstance(cur, ast.Attribute) and cur.attr == "T":
                        flips, cur = flips + 1, cur.value
                    elif isinstance(cur, ast.Name):
                        d_ = du.unique_value(at, cur.id)
                        if d_ is None or d_.value is None or d_.sel or d_.node == at:
                            break
                        cur, at = d_.value, d_.node
                    else:
                        break
                tr = flips % 2 == 1
        chk.add("H2", u, f"backward {k} applied transposed", tr,
                "" if tr else f"{k} is applied untransposed in the backward pass",
                g.nodes[n].ast)
    # same step index for propagators / controls / MPOs of a backward step
    idx = set()
    for n in body:
        for c in g.nodes[n].calls():
            fn = call_name(c)
            if _callable_kind(du, n, c.func, nested_fns) in ("propagators", "controls") and c.args:
                idx.add(norm(c.args[0]))
            if fn == "_get_pt_mpos_backprop":
                idx.add(norm(c.args[1]))
    # ... and that index is the backward loop's own step variable
    tgt = loop_nodes[0].ast.target
    loop_names = {y.id for y in ast.walk(tgt) if isinstance(y, ast.Name)}
    one = len(idx) == 1 and next(iter(idx)) in loop_names
    chk.add("H2", u, f"backward step uses one step index {sorted(idx)}", one,
            "" if one else "controls, propagators and MPOs of a backward step are "
                           "taken from different steps")
    # bond legs joined through tracked edges when the environment order is reversed
    def made_by(name: str, at: int, callees, pos: int) -> bool:
        """every definition of `name` reaching `at` is tuple position `pos` of a call of one
        of `callees`."""
        ds = [d for d in du.reaching(at, name) if d.value is not None]
        return bool(ds) and all(isinstance(d.value, ast.Call) and call_name(d.value) in callees
                                and d.sel == (("idx", pos),) for d in ds)
    joins = []
    for n in body:
        for x in g.nodes[n].walk():
            if isinstance(x, ast.BinOp) and isinstance(x.op, ast.BitXor) and \
                    isinstance(x.left, ast.Subscript) and isinstance(x.left.value, ast.Name) and \
                    made_by(x.left.value.id, n, ("_apply_derivative_pt_mpos",), 1):
                joins.append((n, x))
    if not joins:
        raise AnalysisError("H2: the join of forward and backward tensors was not found")
    for (jn, j) in joins:
        # matched through the edge list that the backward applications keep up to date
        logical = any(isinstance(y, ast.Name) and made_by(
            y.id, jn, ("_apply_pt_mpos", "_apply_system_superoperator"), 1)
            for y in ast.walk(j.right))
        ok = logical or dir_b == "asc"
        chk.add("H2", u, f"join {norm(j)}", ok,
                "bond legs matched through the tracked edge list" if logical else
                ("positional match is valid only because ascending contraction restores the "
                 "axis order" if ok else
                 "with the environments applied in descending order the axis order of the "
                 "backward node is permuted; matching by position joins the wrong bond legs"),
                j)
    # ---- H3
    # the two lists the backward pass reads: MPOs (first argument of _get_pt_mpos_backprop)
    # and forward tensors (what the first argument of _apply_derivative_pt_mpos is taken from)
    mpo_names = {c.args[0].id for n in g.nodes for c in n.calls()
                 if call_name(c) == "_get_pt_mpos_backprop" and c.args
                 and isinstance(c.args[0], ast.Name)}
    fwd_names = set()
    for n in g.nodes:
        for c in n.calls():
            if call_name(c) == "_apply_derivative_pt_mpos" and c.args \
                    and isinstance(c.args[0], ast.Name):
                for d in du.reaching(n.id, c.args[0].id):
                    if d.value is not None and isinstance(d.value, ast.Subscript) \
                            and isinstance(d.value.value, ast.Name):
                        fwd_names.add(d.value.value.id)
    if len(mpo_names) != 1 or len(fwd_names) != 1:
        raise AnalysisError("H3: the stored forward tensors / MPOs read by the backward pass "
                            "were not identified")
    mpo_list, fwd_list = next(iter(mpo_names)), next(iter(fwd_names))
    stores = [n for n in g.nodes if n.id not in back and any(
        method_call(c) == (fwd_list, "append") for c in n.calls())]
    mstores = [n for n in g.nodes if n.id not in back and any(
        method_call(c) == (mpo_list, "append") for c in n.calls())]
    if len(stores) != 1 or len(mstores) != 1:
        raise AnalysisError("H3: forward tensor / MPO stores not found")
    s = stores[0].id
    post = [n for n, k in fwd.items() if k == "POST"]
    p1 = [n for n, k in fwd.items() if k == "PROP1"]
    no_back = lambda a, b, l: l != "loop"
    after_post = all(g.find_path([s], lambda x, p=p: x == p, edge_ok=no_back) is None for p in post)
    before_p1 = all(g.find_path([p], lambda x: x == s, edge_ok=no_back) is None for p in p1) and \
        all(g.find_path([s], lambda x, p=p: x == p, edge_ok=no_back) is not None for p in p1)
    chk.add("H3", u, "forward tensor stored after POST and before PROP1", after_post and before_p1,
            "" if after_post and before_p1 else
            "the stored forward tensor does not correspond to the state the half-step "
            "propagators act on", g.nodes[s].ast)
    m = mstores[0]
    stored = [c.args[0].id for c in m.calls() if method_call(c) == (mpo_list, "append")
              and c.args and isinstance(c.args[0], ast.Name)]
    applied = [c.args[2].id for c in g.nodes[env_f[0]].calls() if call_name(c) == "_apply_pt_mpos"
               and len(c.args) > 2 and isinstance(c.args[2], ast.Name)]
    same = len(stored) == 1 and stored == applied and \
        {d.id for d in du.reaching(m.id, stored[0])} == \
        {d.id for d in du.reaching(env_f[0], stored[0])}
    chk.add("H3", u, "MPOs stored for the backward pass are those applied in the forward step",
            same, "" if same else "stored and applied MPOs differ", m.ast)


# --------------------------------------------------------------------- H4
DIFF_OPERATORS = {"Jacobian", "Derivative", "Gradient", "nd.Jacobian", "nd.Derivative",
                  "nd.Gradient", "numdifftools.Jacobian", "numdifftools.Derivative",
                  "numdifftools.Gradient"}


def _local_functions(fn: ast.AST) -> Dict[str, ast.AST]:
    """name -> nested def / lambda bound to a local name directly inside fn."""
    out = {}
    for st in fn.body:
        if isinstance(st, ast.FunctionDef):
            out[st.name] = st
        if isinstance(st, ast.Assign) and len(st.targets) == 1 \
                and isinstance(st.targets[0], ast.Name) and isinstance(st.value, ast.Lambda):
            out[st.targets[0].id] = st.value
    return out


def _fn_value(f: ast.AST, local_fns: Dict[str, ast.AST]) -> Optional[ast.AST]:
    """The expression a one-expression local function / lambda evaluates to, with local
    single assignments substituted (depth-limited)."""
    if isinstance(f, ast.Name) and f.id in local_fns:
        f = local_fns[f.id]
    if isinstance(f, ast.Lambda):
        return f.body
    if isinstance(f, ast.FunctionDef):
        rets = [x for x in walk_local(f) if isinstance(x, ast.Return) and x.value is not None]
        if len(rets) != 1:
            return None
        env = {}
        for st in f.body:
            if isinstance(st, ast.Assign) and len(st.targets) == 1 \
                    and isinstance(st.targets[0], ast.Name):
                env[st.targets[0].id] = st.value
        return _subst(rets[0].value, env)
    return None


def _subst(e: ast.AST, env: Dict[str, ast.AST], depth: int = 0) -> ast.AST:
    import copy

    class T(ast.NodeTransformer):
        def visit_Name(self, n):
            if isinstance(n.ctx, ast.Load) and n.id in env and depth < 6:
                return _subst(copy.deepcopy(env[n.id]), env, depth + 1)
            return n
    return T().visit(copy.deepcopy(e))


def _halfstep_form(e: ast.AST, local_fns: Dict[str, ast.AST], depth: int = 0):
    """(part, exponent form) if e evaluates expm(LIOU * ...) possibly through local helper
    calls and a trailing .real / .imag; the exponent is a form over LIOU and DT."""
    part = None
    if isinstance(e, ast.Attribute) and e.attr in ("real", "imag"):
        part, e = e.attr, e.value
    if isinstance(e, ast.Call) and isinstance(e.func, ast.Name) and e.func.id in local_fns \
            and depth < 4:
        v = _fn_value(e.func, local_fns)
        if v is None:
            return None
        r = _halfstep_form(v, local_fns, depth + 1)
        return None if r is None else (part or r[0], r[1])
    if isinstance(e, ast.Call) and (dotted(e.func) or "").split(".")[-1] == "expm" and e.args:
        def leaf(x):
            if isinstance(x, ast.Call) and dotted(x.func) == "self.liouvillian" \
                    and len(x.args) == 1 and isinstance(x.args[0], ast.Starred):
                return Poly.sym("LIOU")
            if isinstance(x, ast.Name) and x.id == "dt":
                return Poly.sym("DT")
            if isinstance(x, ast.Call) and isinstance(x.func, ast.Name) and x.func.id in local_fns:
                v = _fn_value(x.func, local_fns)
                return None if v is None else eval_form(v, leaf)
            if isinstance(x, ast.Call) and isinstance(x.func, ast.Attribute) \
                    and dotted(x.func.value) == "self" and _METHODS.get(x.func.attr) is not None:
                # a helper method of the same class: its (memo-transparent) result expression
                from rules.c12 import _result_exprs
                rs = _result_exprs(_METHODS[x.func.attr])
                forms = {repr(eval_form(r, leaf)) for r in rs}
                if len(rs) >= 1 and len(forms) == 1:
                    return eval_form(rs[0], leaf)
            return None
        return (part, eval_form(e.args[0], leaf))
    return None


_METHODS: Dict[str, Unit] = {}


def h5(prog: Program, chk: Check) -> None:
    chk.rule("H5", "forward propagators and propagator derivatives of a ParameterizedSystem are "
             "functions of (dt, parameters) of the current call: no hand-written memo in the class "
             "leaves an argument its value depends on out of the key (the same object is used "
             "with several time steps in a dt-convergence study)", floor=1)
    from rules.c20 import _a7_unit
    ci = prog.cls("system:ParameterizedSystem")
    n = 0
    for mu in ci.methods.values():
        for w in [mu] + [v for v in prog.all_nested(mu) if not isinstance(v.node, ast.Lambda)]:
            n += 1
            for (st, attr, key_expr, covered, missing) in _a7_unit(w):
                chk.saw(w)
                chk.add("H5", w, f"memo {attr}[{norm(key_expr)}] <- {norm(st.value)[:40]}",
                        not missing, f"keyed / validated by {covered}" if not missing else
                        f"the stored value depends on {missing}, which is not part of the key: the "
                        f"forward pass and the derivatives then belong to different step lengths",
                        st)
    chk.add("H5", prog.module("system"), f"{n} functions of ParameterizedSystem scanned for memo "
            f"idioms", n >= 8, "" if n >= 8 else "the class shrank below what was confirmed by hand")


def h6(prog: Program, chk: Check) -> None:
    chk.rule("H6", "the target derivative enters the backward pass as the C-ordered vector of the "
             "matrix the caller passed: the gradient module flattens / reshapes nothing in memory "
             "order ('K', 'A') or Fortran order - a target given as a transposed view "
             "(`target_state.T`, the documented usage) must not be read transposed", floor=1)
    from rules.c20 import layout_orders
    hits = layout_orders(prog, modules={"gradient"})
    for (u, c, order) in hits:
        chk.saw(u)
        chk.add("H6", u, f"{norm(c)[:60]}", False,
                f"order={order!r}: a non-contiguous target enters the backward pass as the vector "
                f"of the transposed matrix; the gradient then belongs to another objective", c)
    n = sum(1 for u in prog.units_in("gradient") for c in walk_local(u.node)
            if isinstance(c, ast.Call) and (dotted(c.func) or "").split(".")[-1]
            in ("ravel", "flatten", "reshape"))
    chk.add("H6", prog.module("gradient"), f"{n} flatten / reshape calls in the gradient module, "
            f"{len(hits)} with a layout-dependent order", True,
            "all in logical (C) order" if not hits else "reported above")
    if n < 2:
        raise AnalysisError("H6: the gradient module no longer reshapes the states / targets")


def _descending(it: ast.AST) -> bool:
    """reversed(...) anywhere in the iterable, or range(a, b, -k)"""
    for x in ast.walk(it):
        if isinstance(x, ast.Call) and call_name(x) == "reversed":
            return True
        if isinstance(x, ast.Call) and call_name(x) == "range" and len(x.args) == 3:
            st_ = x.args[2]
            if isinstance(st_, ast.UnaryOp) and isinstance(st_.op, ast.USub) and isinstance(st_.operand, ast.Constant):
                return True
            if isinstance(st_, ast.Constant) and isinstance(st_.value, int) and st_.value < 0:
                return True
        if isinstance(x, ast.Subscript) and norm(x).endswith("[::-1]"):
            return True
    return False


def h4(prog: Program, chk: Check) -> None:
    chk.rule("H4", "the propagator derivative handed to the adjoint pass comes from a "
             "differentiation operator (numdifftools Jacobian / Derivative / Gradient) applied to "
             "the same half-step propagator expm(L(p)*dt/2) that get_propagators uses in the "
             "forward pass, real and imaginary part recombined as re + 1j*im; a hand-written "
             "finite secant of the generator or propagator is not a derivative", floor=3)
    gp = prog.unit("system:ParameterizedSystem.get_propagators")
    _METHODS.clear()
    _METHODS.update({k: v for k, v in prog.cls("system:ParameterizedSystem").methods.items()
                     if k not in ("liouvillian",)})
    fwd = []
    for nu in prog.all_nested(gp):
        if isinstance(nu.node, ast.FunctionDef):
            env = {}
            for st in nu.node.body:
                if isinstance(st, ast.Assign) and len(st.targets) == 1 \
                        and isinstance(st.targets[0], ast.Name):
                    env[st.targets[0].id] = st.value
            # the closure returns (first half, second half)
            rets = [r for r in walk_local(nu.node) if isinstance(r, ast.Return)
                    and isinstance(r.value, ast.Tuple) and len(r.value.elts) == 2]
            for r_ in rets:
                for pos, e in zip(("first half", "second half"), r_.value.elts):
                    r = _halfstep_form(_subst(e, env), {})
                    fwd.append((pos, r[1] if r else None))
    forms = {repr(f) for _, f in fwd}
    if len(fwd) != 2 or len(forms) != 1 or None in [f for _, f in fwd]:
        raise AnalysisError(f"H4: forward half-step propagators not readable: {fwd}")
    want = fwd[0][1]
    chk.add("H4", gp, f"forward half-step propagators: expm({want}) for both halves",
            want == Poly.sym("LIOU") * Poly.sym("DT") * Poly.const(Fraction(1, 2)),
            f"exponent {want} (a half step is LIOU*DT/2)")
    u = prog.unit("system:ParameterizedSystem.halfstep_propagator_derivative")
    chk.saw(u)
    local_fns = _local_functions(u.node)
    ops = []
    for st in u.node.body:
        if isinstance(st, ast.Assign) and isinstance(st.value, ast.Call) \
                and dotted(st.value.func) in DIFF_OPERATORS and len(st.targets) == 1 \
                and isinstance(st.targets[0], ast.Name):
            ops.append((st.targets[0].id, st.value))
    # hand-written differences of evaluations at shifted parameter points
    secants = []
    for x in ast.walk(u.node):
        if isinstance(x, ast.BinOp) and isinstance(x.op, ast.Sub):
            def shifted_eval(e):
                """an evaluation of a local function, or of a method of the object (the closure
                written out), at a shifted parameter point - possibly scaled"""
                for c_ in ast.walk(e):
                    if not (isinstance(c_, ast.Call) and c_.args):
                        continue
                    local = isinstance(c_.func, ast.Name) and c_.func.id in local_fns
                    own = isinstance(c_.func, ast.Attribute) and isinstance(c_.func.value, ast.Name) \
                        and c_.func.value.id == "self"
                    if not (local or own):
                        continue
                    a0 = c_.args[0].value if isinstance(c_.args[0], ast.Starred) else c_.args[0]
                    if isinstance(a0, ast.BinOp) and isinstance(a0.op, (ast.Add, ast.Sub)):
                        return True
                return False
            if shifted_eval(x.left) or shifted_eval(x.right):
                secants.append(x)
    divided = {id(d.left) for d in ast.walk(u.node)
               if isinstance(d, ast.BinOp) and isinstance(d.op, ast.Div)}
    for x in secants:
        if id(x) in divided:
            chk.add("H4", u, f"hand-written difference quotient {norm(x)[:50]}", None,
                    "a difference quotient with an explicit step: its accuracy is a numerical "
                    "question this rule does not decide", x)
            continue
        chk.add("H4", u, f"hand-written difference {norm(x)[:60]}", False,
                "a finite secant of the generator / propagator replaces the derivative: exact "
                "only where the Liouvillian is affine in the parameter", x)
    if not ops:
        if secants:
            return
        raise AnalysisError("H4: halfstep_propagator_derivative uses neither a differentiation "
                            "operator from the table nor a recognisable finite difference")
    parts = {}
    for (name, call) in ops:
        r = _halfstep_form(_fn_value(call.args[0], local_fns) if call.args else None, local_fns) \
            if call.args else None
        ok = r is not None and r[1] == want
        chk.add("H4", u, f"{name} = {norm(call)[:60]}", ok,
                f"differentiates expm({r[1] if r else None}) (forward pass: expm({want}))", call)
        if r is not None:
            parts[name] = r[0]
    # recombination in the returned function
    jf = [f for f in local_fns.values() if isinstance(f, ast.FunctionDef)
          and any(isinstance(c, ast.Call) and isinstance(c.func, ast.Name) and c.func.id in parts
                  for c in ast.walk(f))]
    if len(jf) != 1:
        raise AnalysisError("H4: the function that evaluates the Jacobians is not unique")
    ret = [r for r in u.node.body if isinstance(r, ast.Return)]
    ok_ret = len(ret) == 1 and isinstance(ret[0].value, ast.Name) and ret[0].value.id == jf[0].name
    chk.add("H4", u, f"returns {norm(ret[0].value) if ret else '?'}", ok_ret,
            "the function built from the differentiation operators is what is handed back")
    if set(parts.values()) == {None}:
        return
    combos = [x for x in ast.walk(jf[0]) if isinstance(x, ast.BinOp) and isinstance(x.op, ast.Add)]
    good = False
    for x in combos:
        def op_of(e):
            return e.func.id if isinstance(e, ast.Call) and isinstance(e.func, ast.Name) \
                and e.func.id in parts else None
        l, r = x.left, x.right
        for a, b in ((l, r), (r, l)):
            if op_of(a) and parts[op_of(a)] == "real" and isinstance(b, ast.BinOp) \
                    and isinstance(b.op, ast.Mult):
                fac, oth = (b.left, b.right) if isinstance(b.left, ast.Constant) else (b.right, b.left)
                if isinstance(fac, ast.Constant) and fac.value == 1j and op_of(oth) \
                        and parts[op_of(oth)] == "imag" and norm(a.args[0]) == norm(oth.args[0]):
                    good = True
    chk.add("H4", u, "real and imaginary Jacobians recombined", good,
            "" if good else "expected <Jacobian of the real part>(x) + 1j*<Jacobian of the "
                            "imaginary part>(x) at the same point")



def h7(prog: Program, chk: Check) -> None:
    chk.rule("H7", "in the backward pass every environment MPO acts transposed exactly once - on its "
             "pair of system legs and on its pair of bond legs: either the tensors handed to "
             "_apply_pt_mpos are leg-swapped copies (_get_pt_mpos_backprop) or _apply_pt_mpos "
             "connects them the other way round when told to run backwards, not both and not "
             "neither (two transpositions cancel: the adjoint vector would pass through the "
             "untransposed MPOs, invisible for couplings whose MPOs are symmetric in the system "
             "legs); in the forward pass neither happens. The leg roles of _apply_pt_mpos are "
             "read under the path condition of the flags each call site passes", floor=4)
    from rules import c03
    ap = prog.unit("system_dynamics:_apply_pt_mpos")
    names = c03._node_name_of_mpo(ap)
    if not names:
        raise AnalysisError("H7: no tn.Node(<mpo tensor>) in _apply_pt_mpos")
    params = ap.params
    bp = prog.unit("system_dynamics:_get_pt_mpos_backprop")
    swaps = {tuple(sorted((c.args[1].value, c.args[2].value)))
             for c in walk_local(bp.node) if isinstance(c, ast.Call)
             and (dotted(c.func) or "").endswith("swapaxes") and len(c.args) == 3
             and all(isinstance(a, ast.Constant) for a in c.args[1:])}
    u = prog.unit("gradient:compute_gradient_and_dynamics")
    du = DefUse(u, CFG(u.node, exc_edges=False))
    g = du.cfg
    chk.saw(u, g)
    chk.saw(ap)
    cut, back = c18.split_forward_backward(g)
    n = 0
    for nd in g.nodes:
        if nd.copy_of:
            continue
        for c in nd.calls():
            if call_name(c) != "_apply_pt_mpos":
                continue
            n += 1
            backward = nd.id in back
            bound = {params[i]: a for i, a in enumerate(c.args) if i < len(params)}
            bound.update(kw_of(c))
            flags = {p: v.value for p, v in bound.items()
                     if isinstance(v, ast.Constant) and isinstance(v.value, bool)}
            roles = c03._leg_roles(ap, names, flags=flags)
            inv = {}
            for ax, rs in roles.items():
                for r in rs:
                    inv.setdefault(r, set()).add(ax)
            def one(role):
                v = inv.get(role, set())
                return next(iter(v)) if len(v) == 1 else None
            sys_in, sys_out = one("SYS_IN"), one("SYS_OUT")
            b_past, b_fut = one("BOND_PAST"), one("BOND_FUTURE")
            if None in (sys_in, sys_out, b_past, b_fut):
                raise AnalysisError(f"H7: leg roles of _apply_pt_mpos under {flags} not decided: "
                                    f"{ {k: sorted(v) for k, v in roles.items()} }")
            apply_sys = 1 if (sys_in, sys_out) == (3, 2) else (0 if (sys_in, sys_out) == (2, 3) else None)
            apply_bond = 1 if (b_past, b_fut) == (1, 0) else (0 if (b_past, b_fut) == (0, 1) else None)
            # where do the tensors of this call come from?
            src_swapped = False
            a = bound.get(params[2]) if len(params) > 2 else None
            if isinstance(a, ast.Name):
                for d in du.reaching(nd.id, a.id):
                    if isinstance(d.value, ast.Call) and call_name(d.value) == "_get_pt_mpos_backprop":
                        src_swapped = True
            src_sys = 1 if (src_swapped and (2, 3) in swaps) else 0
            src_bond = 1 if (src_swapped and (0, 1) in swaps) else 0
            want = 1 if backward else 0
            for pair, ap_par, src_par in (("system legs", apply_sys, src_sys),
                                          ("bond legs", apply_bond, src_bond)):
                ok = ap_par is not None and (ap_par + src_par) % 2 == want
                chk.add("H7", u, f"{'backward' if backward else 'forward'} pass, {pair}: "
                        f"{'swapped copies' if src_par else 'tensors as stored'}, connected "
                        f"{'the other way round' if ap_par else 'as in the forward pass' if ap_par == 0 else '?'}"
                        f" (flags {flags})", ok,
                        f"transposed {'once' if want else 'not at all'}" if ok else
                        (f"the {pair} are exchanged {ap_par + src_par if ap_par is not None else '?'} "
                         f"time(s); the {'backward' if backward else 'forward'} pass needs "
                         f"{'exactly one exchange (the transpose of the forward map)' if want else 'none'}"),
                        c)
    if n < 2:
        raise AnalysisError(f"H7: only {n} _apply_pt_mpos call(s) in compute_gradient_and_dynamics")


def run(prog: Program, chk: Check) -> None:
    chk.explanation = (
        "Decides the index maps and the mirror structure of the adjoint method: H1 polynomial "
        "forms of the half-step parameter indices in get_propagators, both variants of "
        "get_propagator_derivatives and the chain rule; H2 the backward step is the reversed, "
        "transposed mirror of the forward step - event sequences are extracted from the CFG by "
        "provenance, the environment order is read from the loop form inside _apply_pt_mpos "
        "under the constant `reverse` argument of each call, and bond legs are joined through "
        "the tracked edges; H3 the stored forward tensor / MPOs belong to the state the "
        "differentiated propagators act on; H4 the built-in propagator derivative is a "
        "differentiation operator applied to the forward half-step propagator.")
    chk.not_decided = ("Numerical equality with finite differences; correctness of user-supplied "
                       "derivatives and the accuracy of numdifftools' adaptive differences.")
    chk.assumptions = ["tensornetwork: contraction puts the remaining edges of the first node "
                       "before those of the second (axis order depends on contraction order)",
                       "loop-direction idiom table (enumerate / reversed / [::-1] / .reverse())"]
    chk.call(h1, prog, chk)
    chk.call(h2_h3, prog, chk)
    chk.call(h4, prog, chk)
    chk.call(h5, prog, chk)
    chk.call(h6, prog, chk)
    chk.call(h7, prog, chk)
