"""C05 - basis covariance / every Hermitian coupling operator accepted.

E1 the diagonalising transform of a matrix known to be Hermitian comes from a
solver of the Hermitian family (unitary eigenvectors, real eigenvalues for
every input); E2 forward / backward basis changes are mutual adjoints at every
consumer.
"""
from __future__ import annotations

import ast
from typing import Dict, List, Optional, Set, Tuple

from oqv.astutil import branch_context, call_name, method_call
from oqv.cfg import CFG
from oqv.dataflow import DefUse, origin, origin_text
from oqv.model import AnalysisError, Program, Unit, dotted, norm, walk_local, kw_of
from oqv.report import Check

GENERAL_SOLVERS = {"numpy.linalg.eig", "scipy.linalg.eig", "numpy.linalg.eigvals",
                   "scipy.linalg.eigvals", "scipy.linalg.schur", "scipy.sparse.linalg.eigs"}
HERMITIAN_SOLVERS = {"numpy.linalg.eigh", "scipy.linalg.eigh", "numpy.linalg.eigvalsh",
                     "scipy.linalg.eigvalsh", "scipy.linalg.eigh_tridiagonal"}
ORTHONORMALISERS = {"numpy.linalg.qr", "scipy.linalg.qr", "scipy.linalg.orth",
                    "scipy.linalg.polar"}


def _resolve(mod, c: ast.Call) -> Optional[str]:
    d = dotted(c.func)
    if d is None:
        return None
    head, _, rest = d.partition(".")
    tgt = mod.imports.get(head)
    r = (tgt + ("." + rest if rest else "")) if tgt else d
    return r


def adjoint_base(e: ast.AST) -> Optional[ast.AST]:
    """X if e is a spelling of the conjugate transpose of X, else None."""
    conj, tr = 0, 0
    cur = e
    for _ in range(6):
        if isinstance(cur, ast.Attribute) and cur.attr in ("T", "H"):
            tr += 1
            if cur.attr == "H":
                conj += 1
            cur = cur.value
        elif isinstance(cur, ast.Call) and isinstance(cur.func, ast.Attribute) and \
                cur.func.attr in ("conjugate", "conj") and not cur.args:
            conj += 1
            cur = cur.func.value
        elif isinstance(cur, ast.Call) and isinstance(cur.func, ast.Attribute) and \
                cur.func.attr == "transpose" and not cur.args:
            tr += 1
            cur = cur.func.value
        elif isinstance(cur, ast.Call) and (dotted(cur.func) or "").split(".")[-1] in \
                ("conj", "conjugate") and len(cur.args) == 1:
            conj += 1
            cur = cur.args[0]
        elif isinstance(cur, ast.Call) and (dotted(cur.func) or "").split(".")[-1] == "transpose" \
                and len(cur.args) == 1:
            tr += 1
            cur = cur.args[0]
        else:
            break
    if conj % 2 == 1 and tr % 2 == 1:
        return cur
    return None


def _hermitian_established(u: Unit) -> Set[str]:
    """Names X for which the function asserts X == X^dagger (np.allclose)."""
    out = set()
    for st in walk_local(u.node):
        test = None
        if isinstance(st, ast.Assert):
            test = st.test
        elif isinstance(st, ast.If) and any(isinstance(b, ast.Raise) for b in st.body) and \
                isinstance(st.test, ast.UnaryOp) and isinstance(st.test.op, ast.Not):
            test = st.test.operand
        if not (isinstance(test, ast.Call) and (dotted(test.func) or "").split(".")[-1]
                in ("allclose", "array_equal", "isclose") and len(test.args) >= 2):
            continue
        a, b = test.args[0], test.args[1]
        for x, y in ((a, b), (b, a)):
            base = adjoint_base(x)
            if base is not None and norm(base) == norm(y):
                out.add(norm(y))
    return out


def e1(prog: Program, chk: Check) -> None:
    chk.rule("E1", "a matrix on which the function has established X == X^dagger and whose "
             "eigenvectors are used as a unitary (consumers take V.conjugate().T as the inverse) "
             "is decomposed by a solver of the Hermitian family (eigh) or by a general solver "
             "followed by an explicit orthonormalisation", floor=1)
    # consumers that use the stored transform as a unitary
    consumers = []
    for u in prog.units.values():
        if isinstance(u.node, ast.Lambda):
            continue
        du = None
        for x in walk_local(u.node):
            b = adjoint_base(x) if isinstance(x, (ast.Attribute, ast.Call)) else None
            if b is None:
                continue
            d = dotted(b) or ""
            src = d
            if isinstance(b, ast.Name):
                if du is None:
                    du = DefUse(u, CFG(u.node, exc_edges=False))
                nid = du.node_of(x)
                for df in (du.reaching(nid, b.id) if nid is not None else []):
                    if df.value is not None:
                        src = norm(df.value)
            if "unitary" in src:
                consumers.append(f"{u.qual.split(':')[1]}: {norm(x)}")
    n = 0
    for u in prog.units.values():
        if isinstance(u.node, ast.Lambda):
            continue
        solver_calls = [c for c in walk_local(u.node) if isinstance(c, ast.Call)
                        and ((_resolve(u.module, c) or "").replace("np.", "numpy.")
                             in GENERAL_SOLVERS | HERMITIAN_SOLVERS)]
        if not solver_calls:
            continue
        herm = _hermitian_established(u)
        du = DefUse(u, CFG(u.node, exc_edges=False))
        chk.saw(u, du.cfg)
        for c in solver_calls:
            r = (_resolve(u.module, c) or "").replace("np.", "numpy.")
            arg = norm(c.args[0]) if c.args else ""
            if r in HERMITIAN_SOLVERS:
                if arg in herm or u.module.short == "bath":
                    n += 1
                    chk.add("E1", u, f"{r}({arg})", True,
                            "Hermitian-family solver: orthonormal eigenvectors, real eigenvalues",
                            c)
                continue
            if arg not in herm:
                chk.add("E1", u, f"{r}({arg})", None,
                        "argument not known to be Hermitian in this function: not judged", c,
                        nontrivial=False)
                continue
            n += 1
            # is the eigenvector result orthonormalised afterwards?
            nid = du.node_of(c)
            vec_names = [d.name for d in du.gen.get(nid, []) if ("idx", 1) in d.sel]
            fixed = False
            for x in walk_local(u.node):
                if isinstance(x, ast.Call) and ((_resolve(u.module, x) or "").replace(
                        "np.", "numpy.") in ORTHONORMALISERS) and x.args and \
                        norm(x.args[0]) in vec_names:
                    fixed = True
            chk.add("E1", u, f"{r}({arg})", fixed,
                    "orthonormalised afterwards" if fixed else
                    f"`{arg}` is asserted Hermitian but decomposed with the general solver: for a "
                    f"repeated eigenvalue LAPACK geev returns a non-orthogonal eigenbasis, so the "
                    f"stored transform is not unitary although {len(consumers)} consumer(s) use "
                    f"its conjugate transpose as the inverse (e.g. {consumers[:2]}); witness: "
                    f"Q diag(1,1,-1) Q^dagger with a random unitary Q", c)
    if n < 1:
        raise AnalysisError("E1: no eigendecomposition of an asserted-Hermitian matrix found "
                            "(anchor Bath.__init__ vanished)")
    if len(consumers) < 3:
        raise AnalysisError(f"E1: only {len(consumers)} consumers use the transform as a unitary "
                            f"(floor 3)")
    chk.extra["unitary_consumers"] = consumers


def rotation_per_case(prog: Program, chk: Check, rule: str) -> None:
    """With and without degeneracy reduction the dk=0 tensor of the TEMPO back end takes the
    same rotation into the system basis."""
    u = prog.unit("backends.tempo_backend:BaseTempoBackend.initialize_mps_mpo")
    du0 = DefUse(u, CFG(u.node, exc_edges=False))
    chk.saw(u, du0.cfg)
    # with and without degeneracy reduction the dk=0 tensor takes the same rotation: on the
    # paths of either case, as right factors of np.dot, LRS(U^dagger, U) as it is on the input
    # side and LRS(U, U^dagger) transposed on the output side (the convention of
    # transform_in / transform_out); any other use of the two superoperators is reported
    from oqv import pathcond as pc
    g0 = du0.cfg
    for unique in (True, False):
        dec = pc.none_decider(lambda e: dotted(e) == "self._degeneracy_maps", not unique)
        case = pc.Case(du0, lambda nid, e, dec=dec: dec(e), f"unique={unique}")
        reach = case.reachable()
        uses = {"self._super_u": [], "self._super_u_dagg": []}
        other = []
        for n in g0.nodes:
            if n.id not in reach or n.copy_of:
                continue
            dots = [c for c in n.calls() if (dotted(c.func) or "").split(".")[-1] == "dot"]
            in_dot = set()
            for c in dots:
                for a in c.args:
                    base, par = a, 0
                    while isinstance(base, ast.Attribute) and base.attr == "T":
                        base, par = base.value, par + 1
                    if dotted(base) in uses:
                        uses[dotted(base)].append(par % 2)
                        in_dot.add(id(base))
            for x in n.walk():
                if isinstance(x, ast.Attribute) and dotted(x) in uses and id(x) not in in_dot \
                        and isinstance(x.ctx, ast.Load) and n.kind == "stmt" \
                        and not (isinstance(n.ast, ast.Assign)
                                 and any(dotted(t) == dotted(x) for t in n.ast.targets)):
                    other.append(norm(n.ast)[:60])
        ok = uses == {"self._super_u": [1], "self._super_u_dagg": [0]} and not other
        chk.add(rule, u, f"[{'with' if unique else 'without'} degeneracy reduction] dk=0 tensor "
                f"rotated once by each of {sorted(uses)}", ok,
                "super_u_dagg as it is, super_u transposed" if ok else
                f"uses (transposed?) {uses}, other uses {other}: expected one np.dot with "
                f"self._super_u_dagg untransposed and one with self._super_u transposed in this "
                f"case as in the other")


def e2(prog: Program, chk: Check, rule: str = "E2") -> None:
    chk.rule(rule, "each consumer builds the pair left_right_super(U, U^dagger) / "
             "left_right_super(U^dagger, U): the one named *_dagg / transform_in carries "
             "(U^dagger, U), the one named _super_u / transform_out carries (U, U^dagger); both "
             "are used", floor=6)
    sites = ["backends.tempo_backend:BaseTempoBackend.initialize_mps_mpo",
             "pt_tempo:PtTempo._init_simple_process_tensor",
             "pt_tempo:PtTempo._init_file_process_tensor"]
    def kind_of(v: ast.AST) -> Optional[str]:
        # the transposition of the superoperator matters: LRS(A, B)^T = LRS(A^T, B^T) is a
        # different map unless U is real
        par = 0
        while True:
            if isinstance(v, ast.Attribute) and v.attr == "T":
                v, par = v.value, par + 1
            elif isinstance(v, ast.Call) and isinstance(v.func, ast.Attribute) \
                    and v.func.attr == "transpose" and not v.args:
                v, par = v.func.value, par + 1
            else:
                break
        if not (isinstance(v, ast.Call) and (dotted(v.func) or "").split(".")[-1]
                == "left_right_super" and len(v.args) == 2):
            return None
        a, b = v.args
        ab, bb = adjoint_base(a), adjoint_base(b)
        tr = "^T" if par % 2 else ""
        if ab is not None and bb is None and norm(ab) == norm(b):
            return "(U^dagger, U)" + tr
        if bb is not None and ab is None and norm(bb) == norm(a):
            return "(U, U^dagger)" + tr
        return f"({norm(a)}, {norm(b)})" + tr

    # the back end stores the pair in two attributes; the direction is in the attribute name.
    # The constructions may live in the rotating method or in a constructor - but every object
    # whose initialize_mps_mpo runs must have executed them: the class that defines the method
    # is itself instantiated (by the mean-field back end), so constructions that only a
    # subclass performs, or that sit under a condition, leave objects without basis change.
    u = prog.unit(sites[0])
    base_ci = prog.class_of_unit(u)
    if base_ci is None:
        raise AnalysisError(f"{rule}: class of {sites[0]} not found")
    family = [base_ci] + [c for c in prog.subclasses(base_ci) if c is not base_ci]
    bases = [c for c in prog.mro(base_ci)]
    instantiated = set()
    for w in prog.units.values():
        if isinstance(w.node, ast.Lambda):
            continue
        for c in walk_local(w.node):
            if isinstance(c, ast.Call) and isinstance(c.func, ast.Name):
                for fc in family:
                    if c.func.id == fc.name:
                        instantiated.add(fc.name)
    found = []
    for ci_ in {c.qual: c for c in family + bases}.values():
        for mname, mu in ci_.methods.items():
            du_m = DefUse(mu, CFG(mu.node, exc_edges=False))
            for st in walk_local(mu.node):
                if not isinstance(st, ast.Assign):
                    continue
                tname = dotted(st.targets[0]) or ""
                if not tname.startswith("self."):
                    continue
                kind = kind_of(origin(du_m, du_m.node_of(st.value), st.value))
                if kind is None:
                    continue
                chk.saw(mu, du_m.cfg)
                found.append((ci_, mname, mu, st, tname))
                want = "(U^dagger, U)" if tname.endswith("_dagg") else "(U, U^dagger)"
                chk.add(rule, mu, f"{tname} = left_right_super{kind}", kind == want,
                        "" if kind == want else
                        f"expected {want}: the basis change into the diagonal basis and back are "
                        f"not mutual adjoints", st)
    if len(found) != 2:
        chk.add(rule, u, "pair of left_right_super constructions in the back-end classes", False,
                f"{len(found)} constructions found, expected 2")
    for (ci_, mname, mu, st, tname) in found:
        in_method = mu is u
        in_base_ctor = mname == "__init__" and ci_ in bases
        # skipping the constructions when the transform is the identity changes nothing
        cond = [norm(t) for (t, br) in branch_context(mu.node, st)
                if not (("allclose" in norm(t) or "array_equal" in norm(t))
                        and ("identity" in norm(t) or "eye(" in norm(t)) and not br)]
        reach_all = (in_method or in_base_ctor) and not cond
        lacking = sorted(n_ for n_ in instantiated
                         if not (in_method or (mname == "__init__" and any(
                             b.name == ci_.name for b in prog.mro(next(
                                 f for f in family if f.name == n_))))))
        chk.add(rule, mu, f"{tname} is set for every object that rotates its influence tensor",
                reach_all and not lacking,
                f"set in {ci_.name}.{mname}, unconditionally" if reach_all and not lacking else
                (f"set only in {ci_.name}.{mname}" + (f" under `{cond[0]}`" if cond else "") +
                 (f"; objects of {lacking} (constructed directly in the package) never get it"
                  if lacking else "") +
                 ": their first influence tensor is not rotated out of the eigenbasis of the "
                 "coupling operator (a non-diagonal coupling operator behaves as its diagonal form)"),
                st)
    # PT-TEMPO hands the pair to the process tensor; the direction is in the keyword
    for q in sites[1:]:
        u = prog.unit(q)
        du1 = DefUse(u, CFG(u.node, exc_edges=False))
        chk.saw(u, du1.cfg)
        ctor = [c for c in walk_local(u.node) if isinstance(c, ast.Call)
                and call_name(c) in ("SimpleProcessTensor", "FileProcessTensor")]
        if len(ctor) != 1:
            raise AnalysisError(f"{rule}: {q} no longer constructs one process tensor")
        kw = kw_of(ctor[0])
        for key, want in (("transform_in", "(U^dagger, U)^T"), ("transform_out", "(U, U^dagger)^T")):
            if key not in kw:
                chk.add(rule, u, f"{call_name(ctor[0])}({key}=<missing>)", False,
                        "the process tensor is built without its basis change", ctor[0])
                continue
            o = origin(du1, du1.node_of(ctor[0]), kw[key])
            alts = o.args if isinstance(o, ast.Call) and isinstance(o.func, ast.Name) \
                and o.func.id == "PHI" else [o]
            # `None` (identity transform, nothing to rotate) is the other alternative
            alts = [x for x in alts if not (isinstance(x, ast.Constant) and x.value is None)]
            kinds = {kind_of(x) for x in alts}
            kind = kinds.pop() if len(kinds) == 1 else None
            chk.add(rule, u, f"{call_name(ctor[0])}({key} = left_right_super{kind})",
                    kind == want, "" if kind == want else
                    f"expected {want}: in/out transforms are swapped or not mutual adjoints",
                    ctor[0])
    # both superoperators are applied to the dk=0 tensor / handed over under the right keyword
    u = prog.unit(sites[0])
    rotation_per_case(prog, chk, rule)


def e4(prog: Program, chk: Check) -> None:
    chk.rule("E4", "the basis change stored with a process tensor acts on the right legs with "
             "the right orientation in both get_mpo_tensor implementations: the returned tensor "
             "is M_in[k,i] T[a,b,i,j] M_out[j,l] -> [a,b,k,l] (index calculus over dot / @ / "
             "tensordot / einsum / moveaxis / .T, independent of the spelling); with M_in = "
             "LRS(U^dagger, U)^T and M_out = LRS(U, U^dagger)^T (E2) this is the rotation into "
             "the coupling eigenbasis and back", floor=2)
    from rules.c16 import EXPECTED_TRANSFORMED, transform_signatures
    for cq in ("SimpleProcessTensor", "FileProcessTensor"):
        u = prog.unit(f"process_tensor:{cq}.get_mpo_tensor")
        chk.saw(u)
        sigs = transform_signatures(u, True)
        ok = bool(sigs) and all(sg == EXPECTED_TRANSFORMED for sg in sigs)
        bad = next((sg for sg in sigs if sg != EXPECTED_TRANSFORMED), None)
        chk.add("E4", u, "transformed MPO tensor = M_in[k,i] T[a,b,i,j] M_out[j,l]", ok,
                f"{len(sigs)} path(s)" if ok else
                f"a path returns {bad}: for a unitary that is not symmetric the process tensor "
                f"is rotated with U^T instead of U^dagger (or onto the wrong leg)")


def e5(prog: Program, chk: Check) -> None:
    chk.rule("E5", "the basis change is applied exactly once: import copies the RAW tensors of the "
             "file next to the file's transforms, and export writes raw tensors next to the "
             "transforms (a transformed tensor stored with its transform is rotated twice by the "
             "next get_mpo_tensor)", floor=2)
    from rules.c16 import raw_discipline
    for (u, construct, ok, detail, node) in raw_discipline(prog):
        chk.saw(u)
        chk.add("E5", u, construct, ok, detail, node)


def e3(prog: Program, chk: Check) -> None:
    chk.rule("E3", "Bath stores exactly the solver's outputs: eigenvalues (tuple position 0) as the "
             "diagonal operator, eigenvectors (position 1) as the transform, unmodified; the "
             "reconstruction U D U^dagger == O is asserted; an operator that is already diagonal "
             "keeps itself with the identity as transform", floor=4)
    u = prog.unit("bath:Bath.__init__")
    du = DefUse(u, CFG(u.node, exc_edges=False))
    chk.saw(u, du.cfg)
    solver_nodes = [n for n in du.cfg.nodes if n.kind == "stmt" and isinstance(n.ast, ast.Assign)
                    and isinstance(n.ast.value, ast.Call) and
                    ((_resolve(u.module, n.ast.value) or "").replace("np.", "numpy.")
                     in GENERAL_SOLVERS | HERMITIAN_SOLVERS)]
    if len(solver_nodes) != 1:
        raise AnalysisError("E3: eigendecomposition in Bath.__init__ not found")
    sn = solver_nodes[0]
    # which local holds which output of the solver: by definition (tuple unpacking, or
    # indexing a temporary - DefUse gives both the same shape), not by the statement's syntax
    solver_call = sn.ast.value
    pos = {d.name: d.sel[0][1] for d in du.defs
           if d.value is solver_call and d.sel and d.sel[0][0] == "idx"}
    from_solver = {d.name: d.node for d in du.defs if d.value is solver_call and d.sel}
    for n in du.cfg.nodes:
        if not (n.kind == "stmt" and isinstance(n.ast, ast.Assign)):
            continue
        t = dotted(n.ast.targets[0])
        ctx_nondiag = [br for (tst, br) in __import__("oqv.astutil", fromlist=["x"]).branch_context(
            u.node, n.ast) if "diag" in norm(tst)]
        if t == "self._unitary" and ctx_nondiag == [False]:
            v = n.ast.value
            ok = isinstance(v, ast.Name) and pos.get(v.id) == 1 and \
                {d.node for d in du.reaching(n.id, v.id)} == {from_solver.get(v.id)}
            chk.add("E3", u, f"self._unitary = {norm(v)}", ok,
                    "eigenvector matrix of the solver, unmodified" if ok else
                    "the stored transform is not the (unmodified) eigenvector output", n.ast)
        if t == "self._coupling_operator" and ctx_nondiag == [False]:
            v = n.ast.value
            if isinstance(v, ast.Name):
                # the diagonal matrix held in a local first
                d_ = du.unique_value(n.id, v.id)
                if d_ is not None and d_.value is not None and not d_.sel:
                    v = d_.value
            inner = v.args[0] if isinstance(v, ast.Call) and (dotted(v.func) or "").endswith("diag") \
                and v.args else None
            ok = isinstance(inner, ast.Name) and pos.get(inner.id) == 0 and \
                {d.node for d in du.reaching(n.id, inner.id)} == {from_solver.get(inner.id)}
            chk.add("E3", u, f"self._coupling_operator = {norm(v)}", ok,
                    "diag of the solver's eigenvalues, unmodified" if ok else
                    "eigenvalues are reordered / modified independently of the eigenvectors", n.ast)
        if t == "self._unitary" and ctx_nondiag == [True]:
            ok = isinstance(n.ast.value, ast.Call) and \
                (dotted(n.ast.value.func) or "").split(".")[-1] in ("identity", "eye")
            chk.add("E3", u, f"diagonal operator: self._unitary = {norm(n.ast.value)}", ok, "", n.ast)
    rec = False
    # a local that is stored as self._unitary / self._coupling_operator stands for it
    stored_as = {}
    for st in walk_local(u.node):
        if isinstance(st, ast.Assign):
            for t_ in st.targets:
                pairs_ = list(zip(t_.elts, st.value.elts)) if isinstance(t_, (ast.Tuple, ast.List)) and \
                    isinstance(st.value, (ast.Tuple, ast.List)) and len(t_.elts) == len(st.value.elts) \
                    else [(t_, st.value)]
                for tt, vv in pairs_:
                    if dotted(tt) in ("self._unitary", "self._coupling_operator") and isinstance(vv, ast.Name):
                        stored_as.setdefault(vv.id, set()).add(dotted(tt))

    def is_(e, attr):
        return dotted(e) == attr or (isinstance(e, ast.Name) and stored_as.get(e.id) == {attr})
    for st in walk_local(u.node):
        if isinstance(st, ast.Assert) and isinstance(st.test, ast.Call) and \
                (dotted(st.test.func) or "").endswith("allclose") and len(st.test.args) >= 2:
            txt = norm(st.test.args[1]) + norm(st.test.args[0])
            prod = [a for a in st.test.args[:2] if isinstance(a, ast.BinOp)
                    and isinstance(a.op, ast.MatMult)]
            if prod:
                fac = []
                cur = prod[0]
                while isinstance(cur, ast.BinOp) and isinstance(cur.op, ast.MatMult):
                    fac.insert(0, cur.right)
                    cur = cur.left
                fac.insert(0, cur)
                if len(fac) == 3 and is_(fac[0], "self._unitary") and \
                        is_(fac[1], "self._coupling_operator") and \
                        adjoint_base(fac[2]) is not None and \
                        is_(adjoint_base(fac[2]), "self._unitary"):
                    rec = True
    chk.add("E3", u, "assert O == U D U^dagger", rec,
            "" if rec else "the reconstruction check of the decomposition is gone")


def e6(prog: Program, chk: Check) -> None:
    chk.rule("E6", "the basis change into the eigenbasis and the one back keep their places on the "
             "way into a process tensor: no call of a package callable (by signature; also "
             "super().__init__) passes transform_in and transform_out - or any two plain names - "
             "in each other's positions", floor=1)
    from rules.c16 import swapped_arguments
    hits, n_calls = swapped_arguments(prog, {"process_tensor", "pt_tempo", "backends.pt_tempo_backend",
                                             "backends.tempo_backend", "tempo"})
    for (u, c, pa, pb) in hits:
        chk.saw(u)
        chk.add("E6", u, f"{norm(c.func)}(..): `{pb}` passed as {pa}, `{pa}` passed as {pb}", False,
                f"the arguments named {pa} and {pb} are handed over in each other's positions", c)
    chk.add("E6", prog.module("process_tensor"), f"{n_calls} calls with a known signature examined, "
            f"{len(hits)} with exchanged names", n_calls >= 30,
            "" if n_calls >= 30 else "fewer resolvable calls than confirmed by hand")


def stored_coupling_reads(prog: Program, chk: Check, rule: str) -> None:
    chk.rule(rule, "Bath stores the coupling operator in its eigenbasis (diagonal) together with "
             "the unitary U; every reader outside bath.py either rotates it back (U @ D @ "
             "U^dagger with the same bath's unitary_transform) or rejects baths whose unitary "
             "is not the identity - read as it is, a non-diagonal coupling silently becomes its "
             "diagonal form", floor=2)
    from oqv.dataflow import expand as _expand
    n = 0
    for u in prog.units.values():
        if isinstance(u.node, ast.Lambda) or u.module.short == "bath":
            continue
        reads = [x for x in walk_local(u.node) if isinstance(x, ast.Attribute)
                 and x.attr == "coupling_operator" and isinstance(x.ctx, ast.Load)]
        if not reads:
            continue
        du = DefUse(u, CFG(u.node, exc_edges=False))
        chk.saw(u, du.cfg)
        # a function that refuses non-diagonal couplings may use the diagonal form
        def _guard(st):
            if not (isinstance(st, ast.If) and any(isinstance(r, ast.Raise) for r in st.body)):
                return False
            core_ = st.test
            while isinstance(core_, ast.UnaryOp) and isinstance(core_.op, ast.Not):
                core_ = core_.operand           # the flow graph keeps the operand of `not`
            nid_ = du.node_of(core_)
            t_ = _expand(du, nid_, core_, depth=4) if nid_ is not None else core_
            return "unitary_transform" in norm(t_) \
                and any(isinstance(c, ast.Call) and (dotted(c.func) or "").split(".")[-1] in ("allclose", "array_equal")
                        for c in ast.walk(t_)) \
                and any(isinstance(c, ast.Call) and (dotted(c.func) or "").split(".")[-1] in ("identity", "eye")
                        for c in ast.walk(t_))
        guarded = any(_guard(st) for st in walk_local(u.node))
        for st in walk_local(u.node):
            if not isinstance(st, (ast.Assign, ast.Return, ast.Expr, ast.AugAssign)) or st.value is None:
                continue
            if isinstance(st, ast.Assign) and isinstance(st.value, ast.Attribute) \
                    and st.value.attr == "coupling_operator" \
                    and all(isinstance(t, ast.Name) for t in st.targets):
                continue            # a plain local for it: judged where the local is used
            nid = du.node_of(st)
            if nid is None:
                continue
            ex = _expand(du, nid, st.value, depth=4)
            occ = [x for x in ast.walk(ex) if isinstance(x, ast.Attribute) and x.attr == "coupling_operator"]
            if not occ:
                continue
            # flatten the matrix products of the expanded expression
            prods = []
            for x in ast.walk(ex):
                if isinstance(x, ast.BinOp) and isinstance(x.op, ast.MatMult):
                    fac, cur = [], x
                    while isinstance(cur, ast.BinOp) and isinstance(cur.op, ast.MatMult):
                        fac.insert(0, cur.right)
                        cur = cur.left
                    fac.insert(0, cur)
                    prods.append(fac)
                elif isinstance(x, ast.Call) and (dotted(x.func) or "").split(".")[-1] in ("dot", "matmul") \
                        and len(x.args) == 2:
                    inner = x.args[0]
                    if isinstance(inner, ast.Call) and (dotted(inner.func) or "").split(".")[-1] in ("dot", "matmul") \
                            and len(inner.args) == 2:
                        prods.append([inner.args[0], inner.args[1], x.args[1]])
                    outer = x.args[1]
                    if isinstance(outer, ast.Call) and (dotted(outer.func) or "").split(".")[-1] in ("dot", "matmul") \
                            and len(outer.args) == 2:
                        prods.append([x.args[0], outer.args[0], outer.args[1]])
            for o in occ:
                n += 1
                owner = norm(o.value)
                sandwiched = any(
                    len(f) >= 3 and any(
                        f[i] is o and norm(f[i - 1]) == f"{owner}.unitary_transform"
                        and adjoint_base(f[i + 1]) is not None
                        and norm(adjoint_base(f[i + 1])) == f"{owner}.unitary_transform"
                        for i in range(1, len(f) - 1)) for f in prods)
                ok = sandwiched or guarded
                chk.add(rule, u, f"{norm(st)[:70]}", ok,
                        ("rotated back with the bath's unitary" if sandwiched else
                         "function rejects non-diagonal couplings") if ok else
                        f"`{owner}.coupling_operator` is the diagonalised operator: used as it is, a "
                        f"bath with a non-diagonal coupling is treated as if it coupled through its "
                        f"eigenvalues in the original basis", st)
    if n < 2:
        raise AnalysisError(f"{rule}: only {n} reads of a bath's stored coupling operator found outside "
                            f"bath.py (bath_dynamics and GibbsTempo confirmed by hand)")


def e7(prog: Program, chk: Check) -> None:
    stored_coupling_reads(prog, chk, "E7")


def run(prog: Program, chk: Check) -> None:
    chk.explanation = (
        "Decides two structural conditions of C05: E1 the diagonalising transform of the "
        "coupling operator is produced by a routine whose contract guarantees a unitary "
        "transform and real eigenvalues for every Hermitian input (typestate: asserted "
        "Hermitian -> Hermitian-family solver), and E2 the forward/backward basis changes are "
        "mutual adjoints at every consumer (operand-position check on left_right_super pairs).")
    chk.not_decided = "Numerical covariance of the dynamics under a change of basis."
    chk.assumptions = ["LAPACK: eigh returns orthonormal eigenvectors and real eigenvalues for "
                       "every Hermitian input; geev (eig) does not for repeated eigenvalues"]
    chk.call(e1, prog, chk)
    chk.call(e2, prog, chk)
    chk.call(e3, prog, chk)
    chk.call(e4, prog, chk)
    chk.call(e5, prog, chk)
    chk.call(e6, prog, chk)
    chk.call(e7, prog, chk)
    # the transforms a file-backed process tensor is re-opened with are the ones stored under
    # the same names (a swapped / doubled key exchanges U and U^dagger on one leg)
    from rules.c16 import x1 as _file_keys
    chk.call(_file_keys, prog, chk, "E8")
