"""C17 - an interrupted process-tensor file is never mistaken for a complete one.

W1 flag set before any dataset exists, W2 flag reset by a *value* test before
the file is closed (write mode only), W3 reader warns on a value test of the
flag, W4 open-mode table, W5 removal guard, W6 who-may-store the flag.
"""
from __future__ import annotations

import ast
from typing import List, Optional, Set

from oqv import abseval as ae
from oqv.astutil import branch_context, call_name, method_call
from oqv.cfg import CFG
from oqv.dataflow import DefUse
from oqv.model import AnalysisError, Program, Unit, dotted, norm, walk_local
from oqv.report import Check

REMOVERS = {"os.remove", "os.unlink", "os.rmdir", "os.removedirs", "shutil.rmtree",
            "os.rename", "os.replace", "shutil.move", "os.truncate"}
PT = "process_tensor"
CLS = "process_tensor:FileProcessTensor"


def _attrs_key(e: ast.AST) -> Optional[str]:
    """'writing' for  <x>.attrs['writing']  (load or store)."""
    if isinstance(e, ast.Subscript) and isinstance(e.value, ast.Attribute) \
            and e.value.attr == "attrs" and isinstance(e.slice, ast.Constant) \
            and isinstance(e.slice.value, str):
        return e.slice.value
    return None


def _resolve(mod, c: ast.Call) -> Optional[str]:
    d = dotted(c.func)
    if d is None:
        return None
    head, _, rest = d.partition(".")
    tgt = mod.imports.get(head)
    return (tgt + ("." + rest if rest else "")) if tgt else d


def _flag_key(prog: Program) -> str:
    cf = prog.unit(f"{PT}:FileProcessTensor._create_file")
    keys = []
    for st in walk_local(cf.node):
        if isinstance(st, ast.Assign) and isinstance(st.value, ast.Constant) \
                and isinstance(st.value.value, bool):
            for t in st.targets:
                k = _attrs_key(t)
                if k:
                    keys.append(k)
    if len(set(keys)) != 1:
        raise AnalysisError(
            f"C17: expected exactly one boolean HDF5 attribute stored in _create_file, "
            f"found {sorted(set(keys))} - the writing-flag anchor vanished")
    return keys[0]


def _is_dataset_op(n, prog) -> bool:
    for c in n.calls():
        mc = method_call(c)
        if mc and mc[1] in ("create_dataset", "create_group", "require_dataset"):
            return True
        if mc and mc[0] == "self" and mc[1].startswith("set_"):
            return True
        if call_name(c) in ("_set_data_and_shape",):
            return True
    return False


def run(prog: Program, chk: Check) -> None:
    chk.explanation = (
        "Decides the life cycle of the HDF5 'writing' flag, the open-mode table and the removal "
        "guard: W1 the flag is stored truthy after the open and before any dataset is created "
        "(dominance); W2 close() resets it before File.close() on the writable path, guarded "
        "only by value tests (path-conditioned evaluation with the typed fact that an h5py "
        "attribute is a numpy scalar, never the True singleton), and never writes in read mode; "
        "W3 the reader warns under a value test of the flag on every path to its return; "
        "W4 write=>'x', overwrite=>'w', read=>'r' and nobody else opens a file for writing; "
        "W5 the only file removal is FileProcessTensor.remove guarded by _removeable, which is "
        "true only for a self-chosen temporary name or under overwrite; W6 the flag is stored "
        "only in _create_file and close().")
    chk.not_decided = ("What the HDF5 library has flushed to disk at an arbitrary kill point "
                       "(library / OS behaviour).")
    chk.assumptions = [
        "h5py: File(name,'x') fails if the file exists, 'w' truncates, 'r' is read-only",
        "h5py attribute reads return numpy scalars: truthy/equal like the Python value, "
        "never identical (`is`) to True/False",
    ]
    key = _flag_key(prog)
    cls = prog.cls(CLS)

    # ---------------------------------------------------------------- W1
    chk.rule("W1", f"in _create_file the store attrs[{key!r}] = True dominates every dataset "
             "creation / tensor write and is dominated by the file open", floor=2)
    cf = prog.unit(f"{PT}:FileProcessTensor._create_file")
    g = CFG(cf.node, exc_edges=False)
    chk.saw(cf, g)
    flag_true = {n.id for n in g.nodes if n.kind == "stmt" and isinstance(n.ast, ast.Assign)
                 and any(_attrs_key(t) == key for t in n.ast.targets)
                 and isinstance(n.ast.value, ast.Constant) and n.ast.value.value is True}
    opens = {n.id for n in g.nodes
             if any(_resolve(cf.module, c) == "h5py.File" for c in n.calls())}
    if not opens:
        raise AnalysisError("W1: no h5py.File open in _create_file")
    ds_nodes = [n for n in g.nodes if _is_dataset_op(n, prog)]
    if len(ds_nodes) < 5:
        raise AnalysisError(f"W1: only {len(ds_nodes)} dataset operations found in _create_file")
    p = g.find_path([g.entry], lambda x: x in flag_true, blocked=lambda x: x in opens)
    chk.add("W1", cf, "file open precedes flag store", p is None and bool(flag_true),
            "" if p is None else "the flag can be stored before the file is opened")
    bad = None
    for n in ds_nodes:
        p = g.find_path([g.entry], lambda x, n=n: x == n.id, blocked=lambda x: x in flag_true)
        if p is not None:
            bad = (n, p)
            break
    chk.add("W1", cf, f"flag store dominates {len(ds_nodes)} dataset operations",
            bad is None and bool(flag_true),
            "" if bad is None else
            f"dataset operation `{bad[0].text()}` is reachable before the flag is set: a writer "
            f"killed in between leaves a file without the marker",
            node=bad[0].ast if bad else None,
            path=None if bad is None else g.describe_path(bad[1], cf.loc))

    # ---------------------------------------------------------------- W2
    chk.rule("W2", "close(): with the file open, writable and the flag read back as numpy True, "
             "every path to File.close() stores a false value to the flag first; in read mode "
             "the flag is never written", floor=2)
    cl = prog.unit(f"{PT}:FileProcessTensor.close")
    du = DefUse(cl, CFG(cl.node, exc_edges=False))
    g = du.cfg
    chk.saw(cl, g)
    store_false = {n.id for n in g.nodes if n.kind == "stmt" and isinstance(n.ast, ast.Assign)
                   and any(_attrs_key(t) == key for t in n.ast.targets)
                   and ((isinstance(n.ast.value, ast.Constant) and not n.ast.value.value))}
    any_store = {n.id for n in g.nodes if n.kind == "stmt" and isinstance(n.ast, (ast.Assign, ast.AugAssign))
                 and any(_attrs_key(t) == key for t in
                         (n.ast.targets if isinstance(n.ast, ast.Assign) else [n.ast.target]))}
    fclose = {n.id for n in g.nodes
              if any(method_call(c) in (("self._f", "close"),) for c in n.calls())}
    if not fclose:
        raise AnalysisError("W2: close() no longer calls self._f.close()")
    # the reset may live in a helper method, as long as nobody but close() can reach it
    # (who-may-call over the whole package) and the helper resets on every path
    fpt = prog.cls(f"{PT}:FileProcessTensor")
    clearing_helpers: Dict[str, Unit] = {}
    for mname, mu in fpt.methods.items():
        if mu is cl:
            continue
        if any(isinstance(x, ast.Assign) and any(_attrs_key(t) == key for t in x.targets)
               and isinstance(x.value, ast.Constant) and not x.value.value
               for x in walk_local(mu.node)):
            clearing_helpers[mname] = mu
    close_only: Dict[str, Unit] = {}
    changed = True
    while changed:
        changed = False
        for mname, mu in clearing_helpers.items():
            if mname in close_only:
                continue
            callers = [w for w in prog.units.values() if not isinstance(w.node, ast.Lambda)
                       for c in walk_local(w.node) if isinstance(c, ast.Call)
                       and isinstance(c.func, ast.Attribute) and c.func.attr == mname]
            if callers and all(w is cl or (w.name in close_only and w.cls == cl.cls) for w in callers):
                close_only[mname] = mu
                changed = True

    def mk_lookup(write_val):
        def lookup(nid, e):
            if _attrs_key(e) == key:
                return ae.NP_TRUE
            d = dotted(e)
            if d == "self._write":
                return write_val
            if d == "self._f":
                return ae.OBJ
            if isinstance(e, ast.Name):
                df = du.unique_value(nid, e.id)
                if df is not None and df.value is not None and not df.sel \
                        and _attrs_key(df.value) == key:
                    return ae.NP_TRUE
            return ae.UNKNOWN
        return lookup
    # a call of a close-only helper counts as the reset if the helper resets on every path
    for mname, mu in close_only.items():
        hdu = DefUse(mu, CFG(mu.node, exc_edges=False))
        hg = hdu.cfg
        h_false = {n.id for n in hg.nodes if n.kind == "stmt" and isinstance(n.ast, ast.Assign)
                   and any(_attrs_key(t) == key for t in n.ast.targets)
                   and isinstance(n.ast.value, ast.Constant) and not n.ast.value.value}

        def h_lookup(nid, e, hdu=hdu):
            if _attrs_key(e) == key:
                return ae.NP_TRUE
            d = dotted(e)
            if d == "self._write":
                return True
            if d == "self._f":
                return ae.OBJ
            return ae.UNKNOWN
        hp = hg.find_path([hg.entry], lambda x: x == hg.exit, blocked=lambda x: x in h_false,
                          edge_ok=ae.feasible_edges(hg, h_lookup))
        if hp is None and h_false:
            store_false |= {n.id for n in g.nodes
                            if any(method_call(c) == ("self", mname) for c in n.calls())}
            chk.saw(mu, hg)
    feas = ae.feasible_edges(g, mk_lookup(True))
    p = g.find_path([g.entry], lambda x: x in fclose, blocked=lambda x: x in store_false,
                    edge_ok=feas)
    chk.add("W2", cl, f"attrs[{key!r}] reset before File.close() (write mode)",
            p is None and bool(store_false),
            "" if (p is None and store_false) else
            "File.close() is reachable without resetting the flag although the flag read back "
            "from the file is (numpy) True - e.g. an identity test `is True` on a numpy.bool_ "
            "is always false, so a normally closed file keeps writing=True",
            path=None if p is None else g.describe_path(p, cl.loc))
    feas_r = ae.feasible_edges(g, mk_lookup(False))
    p = g.find_path([g.entry], lambda x: x in any_store, edge_ok=feas_r)
    chk.add("W2", cl, f"attrs[{key!r}] not written in read mode", p is None,
            "" if p is None else
            "close() stores to the flag on a file opened read-only (raises, file stays open)",
            path=None if p is None else g.describe_path(p, cl.loc))

    # ---------------------------------------------------------------- W3
    chk.rule("W3", "_read_file: with the flag read back as numpy True every path to the return "
             "passes a warnings.warn that is control dependent on the flag", floor=1)
    rf = prog.unit(f"{PT}:FileProcessTensor._read_file")
    du = DefUse(rf, CFG(rf.node, exc_edges=False))
    g = du.cfg
    chk.saw(rf, g)

    def mentions_flag(nid, e) -> bool:
        for x in walk_local(e):
            if _attrs_key(x) == key:
                return True
            if isinstance(x, ast.Name) and isinstance(x.ctx, ast.Load):
                df = du.unique_value(nid, x.id)
                if df is not None and df.value is not None and any(
                        _attrs_key(y) == key for y in walk_local(df.value)):
                    return True
        return False
    warn_nodes = set()
    for n in g.nodes:
        for c in n.calls():
            if _resolve(rf.module, c) == "warnings.warn":
                ctx = branch_context(rf.node, c)
                if any(mentions_flag(n.id, t) for (t, _) in ctx):
                    warn_nodes.add(n.id)
    reads_flag = any(_attrs_key(x) == key and isinstance(x.ctx, ast.Load)
                     for x in walk_local(rf.node) if isinstance(x, ast.Subscript))

    def lookup_r(nid, e):
        if _attrs_key(e) == key:
            return ae.NP_TRUE
        if isinstance(e, ast.Name):
            df = du.unique_value(nid, e.id)
            if df is not None and df.value is not None and not df.sel \
                    and _attrs_key(df.value) == key:
                return ae.NP_TRUE
        return ae.UNKNOWN
    feas = ae.feasible_edges(g, lookup_r)
    p = g.find_path([g.entry], lambda x: x == g.exit, blocked=lambda x: x in warn_nodes,
                    edge_ok=feas)
    chk.add("W3", rf, f"warn when attrs[{key!r}] is true", p is None and reads_flag,
            "" if (p is None and reads_flag) else
            "the reader returns without a warning although the flag read back is (numpy) True: "
            "an interrupted file is taken for a complete one",
            path=None if p is None else g.describe_path(p, rf.loc)[-8:])
    # the flag is cleared flag must not produce the warning: value test, not unconditional
    def lookup_f(nid, e):
        v = lookup_r(nid, e)
        return ae.NP_FALSE if v is ae.NP_TRUE else v
    feas_f = ae.feasible_edges(g, lookup_f)
    p2 = g.find_path([g.entry], lambda x: x in warn_nodes, edge_ok=feas_f)
    chk.add("W3", rf, f"no corruption warning when attrs[{key!r}] is false", p2 is None,
            "" if p2 is None else "a cleanly closed file triggers the corruption warning")

    # ---------------------------------------------------------------- W6
    chk.rule("W6", "the flag is stored only in _create_file (True) and close() (False) - or in a "
             "helper that only close() can reach", floor=1)
    for u in prog.units.values():
        if isinstance(u.node, ast.Lambda):
            continue
        for st in u.body:
            for x in walk_local(st):
                tg = []
                if isinstance(x, ast.Assign):
                    tg = x.targets
                elif isinstance(x, (ast.AugAssign, ast.AnnAssign)):
                    tg = [x.target]
                elif isinstance(x, ast.Delete):
                    tg = x.targets
                for t in tg:
                    if _attrs_key(t) == key:
                        where = u.qual.split(":")[1]
                        val = norm(x.value) if hasattr(x, "value") and x.value is not None else "<del>"
                        ok = (u is cf and val == "True") or (u is cl and val in ("False", "0")) \
                            or (u.cls == cl.cls and u.name in close_only and val in ("False", "0"))
                        chk.add("W6", u, f"attrs[{key!r}] = {val}", ok,
                                "" if ok else "the flag is stored outside its life cycle", x)
                # attrs.update / modify / create
                if isinstance(x, ast.Call):
                    mc = method_call(x)
                    if mc and mc[0].endswith(".attrs") and mc[1] in ("update", "modify", "create",
                                                                     "pop", "clear", "__setitem__"):
                        chk.add("W6", u, f"{norm(x.func)}(...)", False,
                                "bulk attribute update may overwrite the flag", x)

    # ---------------------------------------------------------------- W7
    chk.rule("W7", "a file-backed process tensor that is being written is closed (which clears "
             "the flag) only on the normal path: not in a finally/except clause, not through a "
             "`with` block and not from __del__/__exit__", floor=1)
    n7 = 0
    for u in prog.units.values():
        if isinstance(u.node, ast.Lambda):
            continue
        ctor_nodes = {}
        closes = []
        for st in walk_local(u.node):
            if isinstance(st, ast.Assign) and isinstance(st.value, ast.Call) and \
                    call_name(st.value) == "FileProcessTensor":
                modes = [k.value for k in st.value.keywords if k.arg == "mode"] or st.value.args[:1]
                if modes and isinstance(modes[0], ast.Constant) and modes[0].value == "read":
                    continue
                for t in st.targets:
                    if isinstance(t, ast.Name):
                        ctor_nodes[t.id] = st
            if isinstance(st, ast.With):
                for it in st.items:
                    if isinstance(it.context_expr, ast.Call) and \
                            call_name(it.context_expr) == "FileProcessTensor":
                        n7 += 1
                        chk.add("W7", u, "with FileProcessTensor(...)", False,
                                "a context manager closes the file - and clears the flag - also "
                                "when the body raised half-way", st)
        if not ctor_nodes:
            continue
        g7 = CFG(u.node, exc_edges=True)
        for name, st in ctor_nodes.items():
            start = [n.id for n in g7.nodes if n.ast is st]
            close_nodes = [n.id for n in g7.nodes
                           if any(method_call(c) == (name, "close") for c in n.calls())]
            n7 += 1
            if not close_nodes:
                chk.add("W7", u, f"{name} = FileProcessTensor(<write>)", True,
                        "never closed here (left to the caller)", st)
                continue
            bad = [n for n in close_nodes if g7.nodes[n].copy_of.startswith("finally[raise]")
                   or g7.nodes[n].copy_of.startswith("finally[return]") and False]
            handler_close = False
            for n in close_nodes:
                # reachable from an exception handler head?
                hs = [h.id for h in g7.nodes if h.kind == "handler"]
                if hs and g7.find_path(hs, lambda x, n=n: x == n) is not None:
                    handler_close = True
            ok = not bad and not handler_close
            chk.add("W7", u, f"{name}.close() only on the normal path", ok,
                    "" if ok else "the file is closed (flag cleared) on an exceptional path: an "
                    "export that failed half-way looks complete to a later reader", st)
    fp = prog.cls(CLS)
    for special in ("__del__", "__exit__"):
        mu = fp.methods.get(special)
        if mu is not None:
            calls_close = any(isinstance(c, ast.Call) and method_call(c) == ("self", "close")
                              for c in walk_local(mu.node))
            n7 += 1
            chk.add("W7", mu, f"FileProcessTensor.{special}", not calls_close,
                    "" if not calls_close else
                    f"{special} closes the file and clears the flag during exception unwinding / "
                    f"garbage collection", mu.node)
    if n7 < 1:
        raise AnalysisError("W7: no writer of a FileProcessTensor found (anchor export vanished)")

    # ---------------------------------------------------------------- W4
    chk.rule("W4", "open-mode table: read=>(write F, overwrite F)=>'r'; write=>(T,F)=>'x'; "
             "overwrite=>(T,T)=>'w'; no other writable open in the package", floor=6)
    init = prog.unit(f"{PT}:FileProcessTensor.__init__")
    chk.saw(init)
    table = {}
    for st in walk_local(init.node):
        if isinstance(st, ast.Assign) and isinstance(st.value, ast.Constant) \
                and isinstance(st.value.value, bool):
            for t in st.targets:
                d = dotted(t)
                if d in ("self._write", "self._overwrite"):
                    ctx = branch_context(init.node, st)
                    modes = [c for (tst, br) in ctx if br and isinstance(tst, ast.Compare)
                             and dotted(tst.left) == "mode" and len(tst.ops) == 1
                             and isinstance(tst.ops[0], ast.Eq)
                             for c in [ast.literal_eval(tst.comparators[0])]
                             if isinstance(tst.comparators[0], ast.Constant)]
                    if len(modes) != 1:
                        raise AnalysisError(
                            f"W4: store to {d} at {init.loc(st)} is not under exactly one "
                            f"`mode == <const>` branch")
                    table.setdefault(modes[0], {})[d] = st.value.value
    expected = {"read": {"self._write": False, "self._overwrite": False},
                "write": {"self._write": True, "self._overwrite": False},
                "overwrite": {"self._write": True, "self._overwrite": True}}
    for m, exp in expected.items():
        got = table.get(m)
        chk.add("W4", init, f"mode {m!r} -> {exp}", got == exp,
                "" if got == exp else f"constructor sets {got}", function="FileProcessTensor.__init__")
    extra = set(table) - set(expected)
    if extra:
        chk.add("W4", init, f"extra modes {sorted(extra)}", None, "unknown mode names")
    # every h5py.File call
    n_open = 0
    for u in prog.units.values():
        if isinstance(u.node, ast.Lambda):
            continue
        for st in u.body:
            for c in walk_local(st):
                if not (isinstance(c, ast.Call) and _resolve(u.module, c) == "h5py.File"):
                    continue
                n_open += 1
                mode = c.args[1] if len(c.args) > 1 else next(
                    (k.value for k in c.keywords if k.arg == "mode"), None)
                mv = mode.value if isinstance(mode, ast.Constant) else None
                ctx = branch_context(u.node, c)
                ow = [br for (t, br) in ctx if dotted(t) == "self._overwrite"]
                in_cls = u.cls == "FileProcessTensor" and u.module.short == PT
                if isinstance(mode, ast.IfExp) and dotted(mode.test) == "self._overwrite" \
                        and isinstance(mode.body, ast.Constant) and isinstance(mode.orelse, ast.Constant):
                    # one call site for both creating modes: 'w' if self._overwrite else 'x'
                    ok = in_cls and u.name == "_create_file" and not ow \
                        and mode.body.value == "w" and mode.orelse.value in ("x", "w-")
                    chk.add("W4", u, f"h5py.File(..., {norm(mode)})", ok,
                            "truncating open only under self._overwrite, exclusive create otherwise"
                            if ok else "the open mode is not 'w' under self._overwrite and 'x' otherwise", c)
                    continue
                if mv == "r":
                    ok, why = True, "read-only open"
                    if in_cls and u.name != "_read_file":
                        ok, why = None, "read-only open in an unexpected method"
                elif mv in ("x", "w-"):
                    ok = in_cls and u.name == "_create_file" and ow == [False]
                    why = "exclusive create on the not-overwrite branch" if ok else \
                        "exclusive-create open outside `_create_file` / wrong branch"
                elif mv == "w":
                    ok = in_cls and u.name == "_create_file" and ow == [True]
                    why = "truncating open only under self._overwrite" if ok else \
                        "truncating open ('w') not guarded by self._overwrite: an existing " \
                        "file is overwritten without being asked to"
                else:
                    ok, why = False, f"open mode {norm(mode) if mode is not None else 'default'} " \
                        "is not one of 'r'/'x'/'w' (default/'a'/'r+' silently modify an existing file)"
                chk.add("W4", u, f"h5py.File(..., {norm(mode) if mode is not None else '<default>'})",
                        ok, why, c)
    if n_open < 2:
        # (one read-only open and at least one creating open: the two creating modes may share
        # a call site - whether that call is guarded is what the table above judges)
        raise AnalysisError(f"W4: only {n_open} h5py.File opens found (floor 2)")
    # _create_file is called only when self._write holds; _read_file only otherwise
    for callee, want in (("_create_file", True), ("_read_file", False)):
        sites = [c for c in walk_local(init.node)
                 if isinstance(c, ast.Call) and method_call(c) == ("self", callee)]
        for mu in cls.methods.values():
            if mu is init:
                continue
            sites += [c for c in walk_local(mu.node)
                      if isinstance(c, ast.Call) and method_call(c) == ("self", callee)]
        if not sites:
            raise AnalysisError(f"W4: no call of self.{callee}()")
        for c in sites:
            owner = init if any(x is c for x in walk_local(init.node)) else None
            ctx = branch_context(init.node, c) if owner else []
            wr = [br for (t, br) in ctx if dotted(t) == "self._write"]
            chk.add("W4", init, f"self.{callee}() under self._write == {want}",
                    owner is not None and wr == [want],
                    "" if (owner is not None and wr == [want]) else
                    f"{callee} is reachable with the wrong access mode", c)

    # ---------------------------------------------------------------- W5
    chk.rule("W5", "the only file removal in the package is FileProcessTensor.remove, guarded by "
             "_removeable, which is true only for a self-chosen temporary name or under "
             "overwrite and false in read mode", floor=4)
    n_rm = 0
    for u in prog.units.values():
        if isinstance(u.node, ast.Lambda):
            continue
        for st in u.body:
            for c in walk_local(st):
                if isinstance(c, ast.Call) and _resolve(u.module, c) in REMOVERS:
                    n_rm += 1
                    ctx = branch_context(u.node, c)
                    guarded = [br for (t, br) in ctx if dotted(t) == "self._removeable"] == [True]
                    if not guarded:
                        # guard clause in front: `if not self._removeable: raise ...`
                        top = list(u.node.body)
                        upto = next((i for i, b in enumerate(top) if any(x is c for x in ast.walk(b))), 0)
                        for b in top[:upto]:
                            t_ = b.test if isinstance(b, ast.If) else None
                            if t_ is not None and isinstance(t_, ast.UnaryOp) and isinstance(t_.op, ast.Not) \
                                    and dotted(t_.operand) == "self._removeable" and not b.orelse \
                                    and b.body and isinstance(b.body[-1], (ast.Raise, ast.Return)):
                                guarded = True
                    ok = u.cls == "FileProcessTensor" and u.name == "remove" and guarded
                    chk.add("W5", u, f"{_resolve(u.module, c)}(...)", ok,
                            "guarded by self._removeable" if ok else
                            "file removal outside FileProcessTensor.remove or not guarded by "
                            "self._removeable", c)
    if n_rm < 1:
        raise AnalysisError("W5: no file removal call found - anchor vanished")
    stores = 0
    for mu in cls.methods.values():
        for st in walk_local(mu.node):
            if not isinstance(st, ast.Assign):
                continue
            if not any(dotted(t) == "self._removeable" for t in st.targets):
                continue
            stores += 1
            ctx = branch_context(mu.node, st)
            wr = [br for (t, br) in ctx if dotted(t) == "self._write"]
            fn_none = None
            for (t, br) in ctx:
                if isinstance(t, ast.Compare) and dotted(t.left) == "filename" and \
                        len(t.ops) == 1 and isinstance(t.comparators[0], ast.Constant) \
                        and t.comparators[0].value is None:
                    is_none_branch = br if isinstance(t.ops[0], ast.Is) else (not br)
                    fn_none = is_none_branch
            val = norm(st.value)
            if mu.name != "__init__":
                ok, why = False, "_removeable is changed outside the constructor"
            elif wr == [True] and fn_none is True:
                ok, why = True, "self-chosen temporary file name"
            elif wr == [True] and fn_none is False:
                ok = val in ("self._overwrite", "False")
                why = "user-named file: removable only under overwrite" if ok else \
                    "a user-named file becomes removable without overwrite"
            elif wr == [False]:
                ok = val == "False"
                why = "read mode: never removable" if ok else "a file opened for reading becomes removable"
            else:
                raise AnalysisError(
                    f"W5: store `{norm(st)}` at {mu.loc(st)} is outside the enumerated contexts")
            chk.add("W5", mu, f"self._removeable = {val} "
                    f"[write={wr}, filename_is_None={fn_none}]", ok, why, st)
    if stores < 3:
        raise AnalysisError(f"W5: only {stores} stores to _removeable (floor 3)")
