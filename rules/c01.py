"""C01 (claimed in part) - the memory settings have their documented meaning
in the discretised influence functional.

Decided here (shape of the code, every path):
  N1 cell geometry   influence_matrix integrates, for every sign of dk and for
                     add_correlation_time set / unset, over the documented cell
                     (triangle at 0, square at dk*dt, rectangle from dkmax*dt of
                     width min(-dk*dt, dt + add_correlation_time); nothing when
                     no additional time is requested)
  N2 memory window   which separation enters the TEMPO network at step n
                     (full memory: n; n <= dkmax: the last n stored influences;
                     n > dkmax: dkmax - n replaces the furthest one) and the
                     PT-TEMPO column bookkeeping (dkmax=None means num_steps,
                     min(num_steps, dkmax+1) influences, -step in the grow phase,
                     end phase from step > num_steps - num_infl + 1)
  N3 tcut <-> dkmax  _parameter_memory_input_parse: tcut = dkmax*dt, dkmax =
                     tcut/dt up to integer rounding, (None, None) for full memory
  N4 tolerance       every truncating tensor-network operation of the TEMPO and
                     PT-TEMPO back ends truncates by the requested relative
                     tolerance and by nothing else

Not decided: that the resulting numbers equal the independent-boson solution
or the explicit finite-mode evolution (numerical values; see DESIGN 7.2).
"""
from __future__ import annotations

import ast
from typing import Dict, List, Optional, Tuple

from oqv import pathcond as pc
from oqv.astutil import bind_args, call_name, method_call
from oqv.cfg import CFG
from oqv.dataflow import DefUse
from oqv.forms import Poly, eval_form
from oqv.model import AnalysisError, Program, Unit, dotted, norm, walk_local
from oqv.report import Check

DT, DK, DKMAX, ACT = (Poly.sym(s) for s in ("DT", "DK", "DKMAX", "ACT"))
CUR, STEP, N, NUM_INFL, TCUT = (Poly.sym(s) for s in ("CUR", "STEP", "N", "NUM_INFL", "TCUT"))
ONE = Poly.const(1)
ZERO = Poly.const(0)

MIN_CALLS = {"min", "np.min", "numpy.min", "np.amin", "np.minimum", "numpy.minimum",
             "numpy_min", "np.fmin"}
CAST_CALLS = {"int", "float", "np.ceil", "np.round", "np.rint", "round", "np.floor", "np.around",
              "numpy.ceil", "numpy.round", "math.ceil", "math.floor", "np.trunc"}


def _min_form(forms: List[Poly]) -> Poly:
    return Poly.sym("MIN{" + " | ".join(sorted(repr(f) for f in forms)) + "}")


def _mk_leaf(case: pc.Case, names: Dict[str, Poly], casts: bool = False, extra=None):
    """Leaf resolver: role names, min(...) of understood forms, integer/float casts.
    `extra(x, at, leaf)` is tried first (rule-specific leaves that recurse through this one)."""
    def leaf(x: ast.AST, at: int) -> Optional[Poly]:
        if extra is not None:
            r = extra(x, at, leaf)
            if r is not None:
                return r
        d = dotted(x)
        if d in names:
            # a local of that name must still be the parameter / attribute itself
            if isinstance(x, ast.Name):
                ds = case.defs(d, at)
                if any(i is not None and case.du.defs[i].value is not None for i in ds):
                    return None
            return names[d]
        if isinstance(x, ast.Call):
            fn = dotted(x.func)
            if fn in MIN_CALLS and not x.keywords:
                args = list(x.args)
                if len(args) == 1 and isinstance(args[0], (ast.List, ast.Tuple)):
                    args = list(args[0].elts)
                if len(args) >= 2:
                    fs = [case.form(a, at, leaf) for a in args]
                    if all(f is not None for f in fs):
                        return _min_form(fs)
                return None
            if casts and fn in CAST_CALLS and x.args:
                return case.form(x.args[0], at, leaf)
            if fn in ("int",) and len(x.args) == 1 and not x.keywords:
                return case.form(x.args[0], at, leaf)
        return None
    return leaf


def _closure_exprs(du: DefUse, e: ast.AST, at: int, depth: int = 8) -> List[ast.AST]:
    """e plus the defining expressions of the local names it (transitively) reads at `at`."""
    out, seen, work = [e], set(), [(e, at, 0)]
    while work:
        x, nid, k = work.pop()
        if k >= depth:
            continue
        for y in ast.walk(x):
            if isinstance(y, ast.Name) and isinstance(y.ctx, ast.Load):
                for d in du.reaching(nid, y.id):
                    if d.id in seen or d.value is None:
                        continue
                    seen.add(d.id)
                    out.append(d.value)
                    work.append((d.value, d.node, k + 1))
    return out


def _derives_from(du: DefUse, e: ast.AST, at: int, pred) -> bool:
    return any(pred(y) for x in _closure_exprs(du, e, at) for y in ast.walk(x))



def _str_or_none(case: pc.Case, e: Optional[ast.AST], at: int):
    """('const', value) for a string / None constant reaching here, else ('expr', node)."""
    if e is None:
        return ("const", None)
    v, _ = case.value(e, at)
    if isinstance(v, ast.Constant) and (v.value is None or isinstance(v.value, str)):
        return ("const", v.value)
    return ("expr", v)


# ---------------------------------------------------------------------- N1
def n1(prog: Program, chk: Check) -> None:
    chk.rule("N1", "influence_matrix integrates over the documented grid cell: dk == 0 -> "
             "upper triangle at 0; dk > 0 -> square at dk*dt; dk < 0 -> rectangle from dkmax*dt "
             "to dkmax*dt + min(-dk*dt, dt + add_correlation_time) when an additional correlation "
             "time is set and no influence at all (None, no integral) when it is not; the cell "
             "width is dt", floor=4)
    u = prog.unit("tempo:influence_matrix")
    g = CFG(u.node, exc_edges=False)
    du = DefUse(u, g)
    chk.saw(u, g)
    if "dk" not in u.params or "parameters" not in u.params:
        raise AnalysisError("N1: influence_matrix lost its dk / parameters arguments")
    if any(d.name in ("dk", "parameters") and d.value is not None for d in du.defs):
        raise AnalysisError("N1: influence_matrix rebinds dk or parameters")
    sites = [(n.id, c) for n in g.nodes for c in n.calls()
             if isinstance(c.func, ast.Attribute) and c.func.attr == "correlation_2d_integral"]
    if len({id(c) for _, c in sites}) != 1:
        raise AnalysisError(f"N1: expected one correlation_2d_integral call, found {len(sites)}")
    at, call = sites[0]
    base = prog.unit("bath_correlations:BaseCorrelations.correlation_2d_integral")
    params = [p for p in base.params if p != "self"]
    bound = bind_args(call, params)

    def is_dk(e):
        return isinstance(e, ast.Name) and e.id == "dk"

    def is_act(e, case_ref=[None]):
        if dotted(e) == "parameters.add_correlation_time":
            return True
        return False

    names = {"dk": DK, "dt": None, "parameters.dt": DT, "parameters.dkmax": DKMAX,
             "parameters.add_correlation_time": ACT}
    names = {k: v for k, v in names.items() if v is not None}

    expect = {
        "zero": dict(time_1=ZERO, time_2=None, shape="upper-triangle"),
        "pos": dict(time_1=DK * DT, time_2=None, shape="square"),
        "neg": dict(time_1=DKMAX * DT, time_2=DKMAX * DT + _min_form([-DK * DT, DT + ACT]),
                    shape="rectangle"),
    }
    returns = [n.id for n in g.nodes if n.kind == "stmt" and isinstance(n.ast, ast.Return)]
    for sign in ("zero", "pos", "neg"):
        for act_none in (False, True):
            label = f"dk {'== 0' if sign == 'zero' else ('> 0' if sign == 'pos' else '< 0')}, " \
                    f"add_correlation_time {'is None' if act_none else 'set'}"

            def act_alias(e, at_=[None]):
                return is_act(e)
            dec = pc.any_of(pc.sign_decider(is_dk, sign), pc.none_decider(act_alias, act_none))
            # local aliases of the additional time (act = parameters.add_correlation_time)
            alias = {d.name for d in du.defs if d.value is not None and not d.sel
                     and dotted(d.value) == "parameters.add_correlation_time"}
            if alias:
                dec = pc.any_of(dec, pc.none_decider(
                    lambda e: isinstance(e, ast.Name) and e.id in alias, act_none))
            case = pc.Case(du, lambda nid, e, dec=dec: dec(e), label)
            leaf = _mk_leaf(case, names)
            reach = case.reachable()
            if sign == "neg" and act_none:
                # no influence: the integral is not reached and every return hands back None
                rets = [r for r in returns if r in reach]
                ok = at not in reach and rets and all(
                    g.nodes[r].ast.value is None or
                    (isinstance(g.nodes[r].ast.value, ast.Constant)
                     and g.nodes[r].ast.value.value is None) for r in rets)
                chk.add("N1", u, f"[{label}] no influence beyond the memory", bool(ok),
                        "the integral is reachable or a non-None value is returned"
                        if not ok else "returns None before integrating", call)
                continue
            if at not in reach:
                chk.add("N1", u, f"[{label}] integral reached", False,
                        "the correlation integral is not computed in this case", call)
                continue
            # the integral is computed on every feasible path to a return
            skipped = None
            for r in returns:
                if r in reach and r != at:
                    p = case.path_avoiding(r, lambda x: x == at)
                    if p is not None:
                        skipped = r
            chk.add("N1", u, f"[{label}] integral on every path", skipped is None,
                    "" if skipped is None else
                    f"line {g.nodes[skipped].lineno} returns without computing the influence", call)
            want = expect[sign]
            # delta
            f = case.form(bound.get("delta"), at, leaf) if bound.get("delta") is not None else None
            chk.add("N1", u, f"[{label}] delta", f == DT, f"form {f} (expected {DT})", call)
            f1 = case.form(bound["time_1"], at, leaf) if bound.get("time_1") is not None else None
            chk.add("N1", u, f"[{label}] time_1", f1 == want["time_1"],
                    f"form {f1} (expected {want['time_1']})", call)
            kind, v2 = _str_or_none(case, bound.get("time_2"), at)
            if want["time_2"] is None:
                ok = kind == "const" and v2 is None
                det = "time_2 is None" if ok else f"time_2 = {norm(v2) if kind == 'expr' else v2!r}"
            else:
                f2 = case.form(bound["time_2"], at, leaf) if bound.get("time_2") is not None \
                    else None
                ok = f2 == want["time_2"]
                det = f"form {f2} (expected {want['time_2']})"
            chk.add("N1", u, f"[{label}] time_2", ok, det, call)
            kind, sh = _str_or_none(case, bound.get("shape"), at)
            if bound.get("shape") is None:
                # default of the callee
                dflt = _default_of(base, "shape")
                kind, sh = ("const", dflt)
            chk.add("N1", u, f"[{label}] shape", kind == "const" and sh == want["shape"],
                    f"shape {sh if kind == 'const' else norm(sh)!r} (expected {want['shape']!r})",
                    call)


def _default_of(u: Unit, name: str):
    a = u.node.args
    pos = a.posonlyargs + a.args
    for p, d in zip(pos[len(pos) - len(a.defaults):], a.defaults):
        if p.arg == name and isinstance(d, ast.Constant):
            return d.value
    for p, d in zip(a.kwonlyargs, a.kw_defaults):
        if p.arg == name and isinstance(d, ast.Constant):
            return d.value
    return None


# ---------------------------------------------------------------------- N2
def _is(dn: str):
    return lambda e: dotted(e) == dn


def _influence_calls(g: CFG) -> List[Tuple[int, ast.Call]]:
    out = []
    for n in g.nodes:
        if n.copy_of:
            continue
        for c in n.calls():
            if dotted(c.func) == "self._influence":
                out.append((n.id, c))
    return out


def n2_tempo(prog: Program, chk: Check) -> None:
    # ---- initial MPO
    u = prog.unit("backends.tempo_backend:BaseTempoBackend.initialize_mps_mpo")
    g = CFG(u.node, exc_edges=False)
    du = DefUse(u, g)
    chk.saw(u, g)
    calls = _influence_calls(g)
    if not calls:
        raise AnalysisError("N2: initialize_mps_mpo no longer computes influences")
    loops = [n for n in g.nodes if n.kind == "iter" and not n.copy_of]
    for none in (True, False):
        label = f"dkmax {'is None' if none else 'set'}"
        dec = pc.none_decider(_is("self._dkmax"), none)
        case = pc.Case(du, lambda nid, e, dec=dec: dec(e), label)
        leaf = _mk_leaf(case, {"self._dkmax": DKMAX})
        for (at, c) in calls:
            loop = [l for l in loops if any(x is c for x in ast.walk(l.ast))]
            ok, det = False, "influence index is not the loop variable of a range(...)"
            if len(loop) == 1 and len(c.args) == 1 and isinstance(loop[0].ast.target, ast.Name) \
                    and isinstance(c.args[0], ast.Name) and c.args[0].id == loop[0].ast.target.id:
                it = loop[0].ast.iter
                if isinstance(it, ast.Call) and call_name(it) == "range" and len(it.args) == 1:
                    f = case.form(it.args[0], loop[0].id, leaf)
                    want = ONE if none else DKMAX + ONE
                    ok, det = f == want, f"range bound {f} (expected {want})"
            chk.add("N2", u, f"[{label}] stored influences: self._influence({norm(c.args[0])}) "
                    f"over {norm(loop[0].ast.iter) if loop else '?'}", ok, det, c)
    # furthest separation first
    order_ok = None
    for st in walk_local(u.node):
        if isinstance(st, ast.Assign) and any(dotted(t) == "self._mpo" for t in st.targets) \
                and isinstance(st.value, ast.Call) and st.value.args:
            a0 = st.value.args[0]
            txt = norm(a0)
            # number of reversals between the list the loop appends to (dk ascending) and the
            # argument: list(reversed(x)), x[::-1], an unconditional x.reverse() before the use
            flips, e_ = 0, a0
            for _ in range(6):
                if isinstance(e_, ast.Call) and dotted(e_.func) in ("list", "tuple") and len(e_.args) == 1:
                    e_ = e_.args[0]
                elif isinstance(e_, ast.Call) and call_name(e_) == "reversed" and len(e_.args) == 1:
                    flips, e_ = flips + 1, e_.args[0]
                elif isinstance(e_, ast.Subscript) and norm(e_).endswith("[::-1]"):
                    flips, e_ = flips + 1, e_.value
                elif isinstance(e_, ast.Name):
                    d_ = du.unique_value(du.node_of(st), e_.id)
                    if d_ is not None and d_.value is not None and not d_.sel and \
                            not isinstance(d_.value, (ast.List, ast.ListComp)):
                        e_ = d_.value
                    else:
                        break
                else:
                    break
            if isinstance(e_, ast.Name):
                top = list(u.node.body)
                upto = next((i for i, b in enumerate(top) if any(y is st for y in ast.walk(b))), len(top))
                flips += sum(1 for b in top[:upto] if isinstance(b, ast.Expr)
                             and isinstance(b.value, ast.Call) and method_call(b.value) == (e_.id, "reverse"))
            order_ok = flips % 2 == 1
            chk.add("N2", u, f"MPO order: {txt}", bool(order_ok),
                    "the stored influences must run from the furthest separation (left) to dk = 0 "
                    "(right): compute_system_step takes the last n and replaces the first", st)
    if order_ok is None:
        raise AnalysisError("N2: initialize_mps_mpo no longer assigns self._mpo from a list")

    # ---- per-step window
    u = prog.unit("backends.tempo_backend:BaseTempoBackend.compute_system_step")
    g = CFG(u.node, exc_edges=False)
    du = DefUse(u, g)
    chk.saw(u, g)
    if "current_step" not in u.params:
        raise AnalysisError("N2: compute_system_step lost its current_step argument")
    calls = _influence_calls(g)
    splits = [(n.id, c) for n in g.nodes if not n.copy_of for c in n.calls()
              if dotted(c.func) in ("na.split", "split")]
    joins = [(n.id, c) for n in g.nodes if not n.copy_of for c in n.calls()
             if dotted(c.func) in ("na.join", "join")]
    cur = lambda e: isinstance(e, ast.Name) and e.id == "current_step"  # noqa: E731
    cases = [("dkmax is None", pc.none_decider(_is("self._dkmax"), True), "none")]
    for rel in ("lt", "eq", "gt"):
        cases.append((f"dkmax set, current_step {{'lt': '<', 'eq': '==', 'gt': '>'}}[rel] dkmax"
                      .replace("{'lt': '<', 'eq': '==', 'gt': '>'}[rel]",
                               {'lt': '<', 'eq': '==', 'gt': '>'}[rel]),
                      pc.any_of(pc.none_decider(_is("self._dkmax"), False),
                                pc.order_decider(cur, _is("self._dkmax"), rel)), rel))
    names = {"self._dkmax": DKMAX, "current_step": CUR}
    for (label, dec, kind) in cases:
        case = pc.Case(du, lambda nid, e, dec=dec: dec(e), label)
        reach = case.reachable()

        def len_leaf(x, at, leaf, case=case):
            if isinstance(x, ast.Call) and call_name(x) == "len" and len(x.args) == 1:
                v, vat = case.value(x.args[0], at)
                # length of (a copy of) the stored MPO as it was on entry
                if isinstance(v, ast.Call) and isinstance(v.func, ast.Attribute) \
                        and v.func.attr == "copy" and not v.args:
                    v = v.func.value
                if dotted(v) == "self._mpo" and case.defs("self._mpo", vat) == {None}:
                    return Poly.sym("LEN_MPO_ON_ENTRY")
            return None
        leaf = _mk_leaf(case, names, extra=len_leaf)
        live_calls = [(at, c) for (at, c) in calls if at in reach]
        live_splits = [(at, c) for (at, c) in splits if at in reach]
        if kind == "none":
            ok = len(live_calls) == 1
            f = case.form(live_calls[0][1].args[0], live_calls[0][0], leaf) if ok else None
            chk.add("N2", u, f"[{label}] new separation", ok and f == Poly.sym("LEN_MPO_ON_ENTRY"),
                    f"influence index {f} (expected the length of the stored MPO on entry, "
                    f"i.e. the step number)", live_calls[0][1] if live_calls else None)
            chk.add("N2", u, f"[{label}] nothing is cut off", not live_splits,
                    "the MPO is split although the memory is unbounded",
                    live_splits[0][1] if live_splits else None)
        elif kind in ("lt", "eq"):
            chk.add("N2", u, f"[{label}] no new influence", not live_calls,
                    "an influence is computed although all needed ones are stored",
                    live_calls[0][1] if live_calls else None)
            ok = len(live_splits) == 1
            f = None
            if ok:
                at, c = live_splits[0]
                b = bind_args(c, ["array", "index"]) if c.args or c.keywords else {}
                idx = b.get("index")
                f = case.form(idx, at, leaf) if idx is not None else None
            chk.add("N2", u, f"[{label}] window", ok and f == -CUR,
                    f"split index {f} (expected {-CUR}: the last current_step influences)",
                    live_splits[0][1] if live_splits else None)
        else:
            ok = len(live_calls) == 1
            f = case.form(live_calls[0][1].args[0], live_calls[0][0], leaf) if ok else None
            chk.add("N2", u, f"[{label}] separation beyond the memory", ok and f == DKMAX - CUR,
                    f"influence index {f} (expected {DKMAX - CUR})",
                    live_calls[0][1] if live_calls else None)
            ok = len(live_splits) == 1
            f = None
            if ok:
                at, c = live_splits[0]
                idx = bind_args(c, ["array", "index"]).get("index")
                f = case.form(idx, at, leaf) if idx is not None else None
            chk.add("N2", u, f"[{label}] furthest influence replaced", ok and f == ONE,
                    f"split index {f} (expected 1: drop the furthest stored influence)",
                    live_splits[0][1] if live_splits else None)
        # a new influence is joined on the far side (first argument)
        for (at, c) in joins:
            if at not in reach or not c.args:
                continue
            def is_infl(y):
                return isinstance(y, ast.Call) and dotted(y.func) == "self._influence"
            infl_first = _derives_from(du, c.args[0], at, is_infl)
            infl_second = len(c.args) > 1 and _derives_from(du, c.args[1], at, is_infl)
            if infl_first or infl_second:
                chk.add("N2", u, f"[{label}] join side: {norm(c)[:50]}", infl_first,
                        "the new influence must be joined to the left (far) end", c)
    # the window is what the MPS is contracted with
    zips = [c for n in g.nodes if not n.copy_of for c in n.calls()
            if isinstance(c.func, ast.Attribute) and c.func.attr == "zip_up"]
    used = [c for n in g.nodes if not n.copy_of for c in n.calls()
            if c in zips and c.args and _derives_from(
                du, c.args[0], n.id, lambda y: dotted(y) == "self._mpo")]
    chk.add("N2", u, "window handed to zip_up", len(used) == 1,
            "the temporary MPO of this step is contracted exactly once", used[0] if used else None)


def n2_pt(prog: Program, chk: Check) -> None:
    # dkmax = None means the whole run
    u = prog.unit("pt_tempo:PtTempo._init_pt_tempo_backend")
    g = CFG(u.node, exc_edges=False)
    du = DefUse(u, g)
    chk.saw(u, g)
    sites = [(n.id, c) for n in g.nodes if not n.copy_of for c in n.calls()
             if call_name(c) == "PtTempoBackend"]
    if len(sites) != 1:
        raise AnalysisError("N2: PtTempo._init_pt_tempo_backend no longer builds one PtTempoBackend")
    at, c = sites[0]
    be = prog.unit("backends.pt_tempo_backend:PtTempoBackend.__init__")
    b = bind_args(c, [p for p in be.params if p != "self"])
    alias = {d.name for d in du.defs if d.value is not None and not d.sel
             and dotted(d.value) == "self._parameters.dkmax"}
    for none in (True, False):
        label = f"dkmax {'is None' if none else 'set'}"
        dec = pc.none_decider(lambda e: dotted(e) == "self._parameters.dkmax" or
                              (isinstance(e, ast.Name) and e.id in alias), none)
        case = pc.Case(du, lambda nid, e, dec=dec: dec(e), label)
        leaf = _mk_leaf(case, {"self._parameters.dkmax": DKMAX, "self._num_steps": N})
        f = case.form(b["dkmax"], at, leaf) if b.get("dkmax") is not None else None
        want = N if none else DKMAX
        chk.add("N2", u, f"[{label}] PtTempoBackend(dkmax=...)", f == want,
                f"form {f} (expected {want})", c)
    # number of influences
    u = be
    ok = False
    for st in walk_local(u.node):
        if isinstance(st, ast.Assign) and any(dotted(t) == "self._num_infl" for t in st.targets):
            g0 = CFG(u.node, exc_edges=False)
            du0 = DefUse(u, g0)
            case = pc.Case(du0, lambda nid, e: None)
            leaf = _mk_leaf(case, {"num_steps": N, "dkmax": DKMAX, "self._num_steps": N,
                                   "self._dkmax": DKMAX})
            f = case.form(st.value, du0.node_of(st.value), leaf)
            want = _min_form([N, DKMAX + ONE])
            chk.add("N2", u, f"self._num_infl = {norm(st.value)}", f == want,
                    f"form {f} (expected {want})", st)
            ok = True
    if not ok:
        raise AnalysisError("N2: PtTempoBackend.__init__ no longer sets self._num_infl")
    # initial column
    u = prog.unit("backends.pt_tempo_backend:PtTempoBackend.initialize")
    g = CFG(u.node, exc_edges=False)
    chk.saw(u, g)
    loops = [n for n in g.nodes if n.kind == "iter" and not n.copy_of]
    calls = _influence_calls(g)
    if not calls:
        raise AnalysisError("N2: PtTempoBackend.initialize no longer computes influences")
    for (at, c) in calls:
        loop = [l for l in loops if any(x is c for x in ast.walk(l.ast))]
        ok = len(loop) == 1 and isinstance(loop[0].ast.target, ast.Name) and len(c.args) == 1 \
            and isinstance(c.args[0], ast.Name) and c.args[0].id == loop[0].ast.target.id \
            and norm(loop[0].ast.iter) == "range(self._num_infl)"
        chk.add("N2", u, f"column influences: self._influence({norm(c.args[0])})", ok,
                "each of the num_infl rows holds the influence of its own separation", c)
    if loops:
        # every row computes exactly one influence
        body_first = loops[0]
        for (a, lbl) in [(s, l) for (s, l) in g.succ[body_first.id] if l in ("t", "n", "body")]:
            pass
    # grow / end phase
    u = prog.unit("backends.pt_tempo_backend:PtTempoBackend.compute_step")
    g = CFG(u.node, exc_edges=False)
    du = DefUse(u, g)
    chk.saw(u, g)

    def step_leaf(case):
        def extra(x, at, leaf):
            if dotted(x) == "self._step":
                ds = case.defs("self._step", at)
                if ds == {None}:
                    return STEP
                if len(ds) == 1:
                    d = case.du.defs[next(iter(ds))]
                    if d.sel and d.sel[0][0] == "aug" and d.sel[0][1] == "Add" \
                            and isinstance(d.value, ast.Constant) \
                            and case.defs("self._step", d.node) == {None}:
                        return STEP + Poly.const(d.value.value)
                    if not d.sel and d.value is not None:
                        return case.form(d.value, d.node, leaf)
            return None
        return _mk_leaf(case, {"self._num_steps": N, "self._num_infl": NUM_INFL,
                               "self._dkmax": DKMAX}, extra=extra)
    case = pc.Case(du, lambda nid, e: None)
    leaf = step_leaf(case)
    # the phase flag: the local defined by a comparison of the step with num_steps / num_infl
    ends = [d for d in du.defs if d.value is not None and not d.sel
            and isinstance(d.value, (ast.Compare, ast.Call))
            and any(dotted(y) == "self._num_infl" for y in ast.walk(d.value))
            and any(dotted(y) == "self._step" for y in ast.walk(d.value))]
    flag, at_end = None, None
    if len(ends) == 1:
        flag = ends[0].name
        ev = ends[0].value
        at_end = ends[0].node
    else:
        # no flag local: the comparison stands in the test of the if statement itself
        tests = [x.test for x in walk_local(u.node) if isinstance(x, ast.If)
                 and any(dotted(y) == "self._num_infl" for y in ast.walk(x.test))
                 and any(dotted(y) == "self._step" for y in ast.walk(x.test))]
        if ends or len(tests) != 1:
            raise AnalysisError("N2: PtTempoBackend.compute_step no longer decides its end phase "
                                "once (a comparison of self._step with self._num_infl)")
        ev = tests[0]
        at_end = du.node_of(ev)
    ev_whole = ev
    negated = False
    while isinstance(ev, ast.UnaryOp) and isinstance(ev.op, ast.Not):
        ev, negated = ev.operand, not negated        # `if not <end phase>: grow else: shorten`
    ev_inner = ev
    if at_end is None:
        at_end = du.node_of(ev_inner)       # the flow graph keeps the operand of `not` as the test
    if isinstance(ev, ast.Call) and call_name(ev) == "bool" and len(ev.args) == 1:
        ev = ev.args[0]
    ok, det = False, f"condition {norm(ev)} is not a single comparison"
    if isinstance(ev, ast.Compare) and len(ev.ops) == 1:
        l = case.form(ev.left, at_end, leaf)
        r = case.form(ev.comparators[0], at_end, leaf)
        if l is not None and r is not None:
            diff = l - r
            op = type(ev.ops[0])
            # new step s = STEP + 1; end phase iff s > N - NUM_INFL + 1
            want = STEP + NUM_INFL - N
            if op is ast.Gt:
                ok = diff == want
            elif op is ast.Lt:
                ok = diff == -want
            elif op is ast.GtE:
                ok = diff == want - ONE
            elif op is ast.LtE:
                ok = diff == -(want - ONE)
            det = f"lhs - rhs = {diff} with {op.__name__} (expected the incremented step > " \
                  f"N - NUM_INFL + 1, i.e. {want} > 0)"
    chk.add("N2", u, f"end phase: {norm(ev_whole)}", ok, det, ev_whole)
    calls = _influence_calls(g)
    if not calls:
        raise AnalysisError("N2: PtTempoBackend.compute_step no longer computes an influence")
    for phase in (True, False):
        def decide(nid, e, phase=phase):
            if flag is not None and isinstance(e, ast.Name) and e.id == flag:
                return phase
            if flag is None and norm(e) == norm(ev_whole):
                return (not phase) if negated else phase
            if flag is None and norm(e) == norm(ev_inner):
                return phase
            return pc.none_decider(_is("self._dkmax"), False)(e)
        case = pc.Case(du, decide, f"end_phase={phase}")
        leaf = step_leaf(case)
        reach = case.reachable()
        live = [(at, c) for (at, c) in calls if at in reach]
        if phase:
            chk.add("N2", u, "[end phase] no new influence", not live,
                    "the end phase only shortens the column", live[0][1] if live else None)
        else:
            ok = len(live) == 1
            f = case.form(live[0][1].args[0], live[0][0], leaf) if ok else None
            chk.add("N2", u, "[grow phase] separation beyond the memory", ok and
                    f == -(STEP + ONE), f"influence index {f} (expected {-(STEP + ONE)}: minus "
                    f"the new step)", live[0][1] if live else None)


# ---------------------------------------------------------------------- N3
def n3(prog: Program, chk: Check) -> None:
    chk.rule("N3", "_parameter_memory_input_parse: with dkmax given tcut = dkmax*dt and dkmax "
             "is handed through; with tcut given dkmax = tcut/dt up to integer rounding and tcut "
             "is handed through; with neither both are None; and TempoParameters stores exactly "
             "that pair", floor=4)
    u = prog.unit("tempo:_parameter_memory_input_parse")
    g = CFG(u.node, exc_edges=False)
    du = DefUse(u, g)
    chk.saw(u, g)
    rets = [n for n in g.nodes if n.kind == "stmt" and isinstance(n.ast, ast.Return)
            and not n.copy_of]
    names = {"tcut": TCUT, "dkmax": DKMAX, "dt": DT}
    for (tc, dk) in ((False, True), (True, False), (False, False)):
        label = f"tcut {'given' if tc else 'None'}, dkmax {'given' if dk else 'None'}"
        dec = pc.any_of(pc.none_decider(lambda e: isinstance(e, ast.Name) and e.id == "tcut",
                                        not tc),
                        pc.none_decider(lambda e: isinstance(e, ast.Name) and e.id == "dkmax",
                                        not dk))
        case = pc.Case(du, lambda nid, e, dec=dec: dec(e), label)
        leaf = _mk_leaf(case, names, casts=True)
        reach = case.reachable()
        live = [n for n in rets if n.id in reach]
        if len(live) != 1 or not isinstance(live[0].ast.value, ast.Tuple) \
                or len(live[0].ast.value.elts) != 2:
            chk.add("N3", u, f"[{label}] result", False,
                    "expected one `return tcut, dkmax` on this path", live[0].ast if live else None)
            continue
        r = live[0]
        e_t, e_k = r.ast.value.elts
        if not tc and not dk:
            k1, v1 = _str_or_none(case, e_t, r.id)
            k2, v2 = _str_or_none(case, e_k, r.id)
            ok = (k1, v1, k2, v2) == ("const", None, "const", None)
            chk.add("N3", u, f"[{label}] result", ok, "both must be None", r.ast)
            continue
        ft = case.form(e_t, r.id, leaf)
        fk = case.form(e_k, r.id, leaf)
        want_t, want_k = (DKMAX * DT, DKMAX) if dk else (TCUT, TCUT.div(DT))
        chk.add("N3", u, f"[{label}] tcut", ft == want_t, f"form {ft} (expected {want_t})", r.ast)
        chk.add("N3", u, f"[{label}] dkmax", fk == want_k,
                f"form {fk} (expected {want_k}, integer casts ignored)", r.ast)
        if tc:
            # a cut-off time that is a multiple of dt must give exactly that multiple: the
            # float quotient k +- ulp has to pass a nearest-integer rounding before any
            # ceil / floor / int
            v, vat = case.value(e_k, r.id)
            wrappers = []
            while isinstance(v, ast.Call) and dotted(v.func) in CAST_CALLS and v.args:
                wrappers.append(dotted(v.func))
                v, vat = case.value(v.args[0], vat)
            nearest = {"np.round", "round", "np.rint", "numpy.round", "np.around"}
            ok = bool(wrappers) and wrappers[-1] in nearest
            chk.add("N3", u, f"[{label}] dkmax rounding {' o '.join(wrappers) or '<none>'}", ok,
                    "the quotient is rounded to the nearest integer first" if ok else
                    "the quotient tcut/dt reaches ceil / floor / int unrounded: tcut = 2.1 with "
                    "dt = 0.3 (quotient 7.000000000000001) gives a memory of 8 steps instead "
                    "of 7", r.ast)
    # TempoParameters stores the parsed pair
    init = prog.unit("tempo:TempoParameters.__init__")
    ok = False
    for st in walk_local(init.node):
        if isinstance(st, ast.Assign) and isinstance(st.value, ast.Call) \
                and call_name(st.value) == "_parameter_memory_input_parse":
            tg = st.targets[0]
            ok = isinstance(tg, ast.Tuple) and [dotted(t) for t in tg.elts] == \
                ["self._tcut", "self._dkmax"] and [norm(a) for a in st.value.args] == \
                ["tcut", "dkmax", "dt"]
            chk.add("N3", init, f"{norm(st)[:70]}", ok,
                    "the parsed (tcut, dkmax) pair is stored in that order from (tcut, dkmax, dt)",
                    st)
    if not ok and not any(i.rule == "N3" and i.function.endswith("__init__")
                          for i in chk.instances):
        raise AnalysisError("N3: TempoParameters.__init__ no longer parses the memory arguments")


# ---------------------------------------------------------------------- N4
TRUNCATING = {"zip_up", "svd_sweep"}
N4_CLASSES = ["backends.tempo_backend:BaseTempoBackend", "backends.tempo_backend:TempoBackend",
              "backends.tempo_backend:MeanFieldTempoBackend",
              "backends.pt_tempo_backend:PtTempoBackend"]


def n4(prog: Program, chk: Check) -> None:
    chk.rule("N4", "every truncating tensor-network operation (zip_up, svd_sweep) of the TEMPO "
             "and PT-TEMPO back ends passes max_truncation_err = the epsrel the back end was "
             "constructed with, relative=True and no cap on the number of singular values; that "
             "epsrel is the constructor argument, unchanged", floor=9)
    na_cls = prog.cls("backends.node_array:NodeArray")
    for cq in N4_CLASSES:
        ci = prog.cls(cq)
        for mu in ci.methods.values():
            for c in walk_local(mu.node):
                if not (isinstance(c, ast.Call) and isinstance(c.func, ast.Attribute)
                        and c.func.attr in TRUNCATING):
                    continue
                callee = prog.find_method(na_cls, c.func.attr)
                b = bind_args(c, [p for p in callee.params if p != "self"])
                err = b.get("max_truncation_err")
                rel = b.get("relative")
                cap = b.get("max_singular_values")
                ok = err is not None and dotted(err) == "self._epsrel" and \
                    isinstance(rel, ast.Constant) and rel.value is True and \
                    (cap is None or (isinstance(cap, ast.Constant) and cap.value is None))
                chk.add("N4", mu, f"{norm(c.func)}(...)", ok,
                        f"max_truncation_err={norm(err) if err is not None else 'default None'}, "
                        f"relative={norm(rel) if rel is not None else 'default False'}, "
                        f"max_singular_values={norm(cap) if cap is not None else 'default None'}",
                        c)
        if ci.name in ("BaseTempoBackend", "PtTempoBackend"):
            srcs = prog.attr_sources(ci, "_epsrel")
            if not srcs:
                raise AnalysisError(f"N4: {ci.name} no longer stores _epsrel")
            for (su, st, v, idx) in srcs:
                ok = isinstance(v, ast.Name) and v.id == "epsrel" and idx is None \
                    and su.qual.endswith("__init__")
                chk.add("N4", su, f"self._epsrel = {norm(v)}", ok,
                        "the tolerance is the constructor argument, unchanged", st)


def n5(prog: Program, chk: Check) -> None:
    chk.rule("N5", "the coefficients of the discretised influence functional are the double "
             "integrals of the bath autocorrelation function over exactly the cells N1 asks for: "
             "the closed form of a spectral-density bath evaluates the double antiderivative eta "
             "at the corners of the cell (affine forms of time_1, time_2, delta, combined by "
             "inclusion-exclusion) - not at rounded, clipped or otherwise altered times; an "
             "absolute alteration of a time is invisible for dt of order one and destroys the "
             "coefficients when the same model is written in units in which times are small",
             floor=3)
    from rules import c12
    sd = prog.unit("bath_correlations:CustomSD.correlation_2d_integral")
    chk.saw(sd)
    for (shape, got, want, region, st, bad_args, tri) in c12.cell_closed_form_checks(prog):
        ok = got == want
        chk.add("N5", sd, f"shape {shape!r}: {c12._fmt(got)}", ok,
                f"= double antiderivative over {region}" if ok else
                c12._l1_reason(bad_args, region, want), st)


def n6(prog: Program, chk: Check) -> None:
    chk.rule("N6", "the coefficients of the influence functional are those of the bath the caller "
             "passed: the memoised double antiderivative (lru_cache on eta_function, keyed by the "
             "correlations object through its __hash__ / __eq__ and by the arguments) is not "
             "shared between correlations objects that differ in anything the integrand reads - "
             "a value equality that leaves out e.g. the cutoff type serves a second bath the "
             "coefficients of the first", floor=1)
    from rules.c20 import cache_equality_findings, memoised_state_reads
    n = 0
    for (mu, construct, ok, detail) in cache_equality_findings(prog, {"bath_correlations"}):
        n += 1
        chk.saw(mu)
        chk.add("N6", mu, construct, ok, detail, mu.node)
    memo = [m_ for m_ in memoised_state_reads(prog) if m_[0].module.short == "bath_correlations"]
    chk.add("N6", prog.module("bath_correlations"),
            f"{len(memo)} memoised methods in bath_correlations, {n} under a value equality",
            len(memo) >= 1, "" if memo else "the memoised double antiderivative vanished")


def run(prog: Program, chk: Check) -> None:
    chk.explanation = (
        "C01 is claimed in part. The rules decide the part of 'the memory settings have exactly "
        "their documented meaning' and 'deviations are bounded by the requested tolerances' that "
        "is visible in the shape of the code: which grid cell of the bath autocorrelation "
        "function is integrated for each separation and memory setting (N1), which separation "
        "enters the TEMPO / PT-TEMPO network at which step (N2), how tcut and dkmax are "
        "converted (N3), and that every truncation uses the requested relative tolerance (N4). "
        "Each is a necessary condition of the property: breaking it changes the discretised "
        "influence functional for some memory setting.")
    chk.not_decided = (
        "Equality of the returned states with the analytic independent-boson solution or with "
        "the explicit finite-mode evolution, and the size of the deviation, are numerical "
        "statements over an unbounded parameter space and are not decided by this check. "
        "The integrands of the double-integral kernels are covered by C12 (L rules; N5 reuses "
        "the corner rule L1), the exponent of the "
        "influence functional by C04 (D4), the TEMPO / PT-TEMPO wiring by C02.")
    chk.call(n1, prog, chk)
    chk.rule("N2", "memory window: TEMPO stores influences 0..dkmax (only 0 for full memory), "
             "furthest first; at step n it adds separation n (full memory), takes the last n "
             "stored ones (n <= dkmax) or replaces the furthest by the one for dkmax - n "
             "(n > dkmax), joined on the far side; PT-TEMPO maps dkmax=None to num_steps, uses "
             "min(num_steps, dkmax+1) influences, adds the one for -(new step) in the grow phase "
             "and is in the end phase iff new step > num_steps - num_infl + 1", floor=16)
    chk.call(n2_tempo, prog, chk)
    chk.call(n2_pt, prog, chk)
    chk.call(n3, prog, chk)
    chk.call(n4, prog, chk)
    chk.call(n5, prog, chk)
    chk.call(n6, prog, chk)
    # the basis-change superoperators of both methods (row-major vectorisation: U (x) U^*)
    from rules.c05 import e2 as _rotation_pairs
    chk.call(_rotation_pairs, prog, chk, rule="N7")
