"""Shared rule: no closure that outlives a loop iteration reads a variable the loop rebinds.

A lambda or nested function created in a loop body looks its free variables up when it is
*called*.  If it is kept beyond the iteration (appended to a list, stored in an attribute or a
dict, handed to a constructor, returned) and reads a name that the loop assigns anew in every
iteration, all the closures see the value of the last iteration: the per-bath influence
functions of a mean-field computation would all use the degeneracy positions of the last bath.
Binding the value when the closure is made (a default argument `x=x`, a factory function,
functools.partial) is the accepted idiom; a closure that is consumed at once (sorted(key=..),
an integrator, map / filter / reduce, a direct call) is fine.
"""
from __future__ import annotations

import ast
from typing import Dict, List, Optional, Set, Tuple

from oqv.model import AnalysisError, Program, Unit, dotted, norm, walk_local
from oqv.report import Check

IMMEDIATE_CONSUMERS = {"sorted", "min", "max", "map", "filter", "reduce", "any", "all", "sum", "list",
                       "tuple", "quad", "quad_vec", "dblquad", "nquad", "fixed_quad", "minimize",
                       "root", "fsolve", "apply_along_axis", "vectorize", "fromfunction",
                       "_complex_integral", "check_true", "check_convert"}
KEEPERS = {"append", "insert", "extend", "add", "setdefault", "update", "put", "submit", "apply_async"}


def _bound_in(body: List[ast.stmt]) -> Set[str]:
    out: Set[str] = set()

    def targets(t):
        if isinstance(t, ast.Name):
            out.add(t.id)
        elif isinstance(t, (ast.Tuple, ast.List)):
            for e in t.elts:
                targets(e)
        elif isinstance(t, ast.Starred):
            targets(t.value)

    class V(ast.NodeVisitor):
        def visit_FunctionDef(self, n):
            out.add(n.name)            # do not descend

        visit_AsyncFunctionDef = visit_FunctionDef

        def visit_Lambda(self, n):
            pass

        def visit_ClassDef(self, n):
            out.add(n.name)

        def visit_Assign(self, n):
            for t in n.targets:
                targets(t)
            self.generic_visit(n.value)

        def visit_AugAssign(self, n):
            targets(n.target)

        def visit_AnnAssign(self, n):
            targets(n.target)

        def visit_For(self, n):
            targets(n.target)
            self.generic_visit(n)

        def visit_With(self, n):
            for it in n.items:
                if it.optional_vars is not None:
                    targets(it.optional_vars)
            self.generic_visit(n)

        def visit_NamedExpr(self, n):
            targets(n.target)
            self.generic_visit(n.value)
    for st in body:
        V().visit(st)
    return out


def _free_loads(fn: ast.AST) -> Set[str]:
    """Names the body of a lambda / def reads that are neither its parameters nor assigned in it."""
    a = fn.args
    params = {x.arg for x in list(a.posonlyargs) + list(a.args) + list(a.kwonlyargs)}
    if a.vararg:
        params.add(a.vararg.arg)
    if a.kwarg:
        params.add(a.kwarg.arg)
    body = [fn.body] if isinstance(fn, ast.Lambda) else fn.body
    local = _bound_in([b for b in body if isinstance(b, ast.stmt)]) if not isinstance(fn, ast.Lambda) else set()
    loads: Set[str] = set()
    for b in body:
        for x in ast.walk(b):
            if isinstance(x, ast.Name) and isinstance(x.ctx, ast.Load):
                loads.add(x.id)
            elif isinstance(x, (ast.ListComp, ast.SetComp, ast.DictComp, ast.GeneratorExp)):
                for g in x.generators:
                    for t in ast.walk(g.target):
                        if isinstance(t, ast.Name):
                            local.add(t.id)
    return loads - params - local


def _parents(root: ast.AST) -> Dict[int, ast.AST]:
    out = {}
    for p in ast.walk(root):
        for c in ast.iter_child_nodes(p):
            out[id(c)] = p
    return out


def _fate(fn: ast.AST, parents: Dict[int, ast.AST], loop: ast.AST) -> Tuple[Optional[bool], str]:
    """(kept beyond the iteration?, how).  None: not decided."""
    if isinstance(fn, ast.Lambda):
        p = parents.get(id(fn))
        # keyword argument / positional argument of a call
        holder = p
        if isinstance(p, ast.keyword):
            holder = parents.get(id(p))
        if isinstance(holder, ast.Call):
            if holder.func is fn:
                return False, "called at once"
            fname = (dotted(holder.func) or "").split(".")[-1] if dotted(holder.func) else (
                holder.func.attr if isinstance(holder.func, ast.Attribute) else "")
            if fname in IMMEDIATE_CONSUMERS:
                return False, f"consumed by {fname}()"
            if fname in KEEPERS:
                return True, f"kept by .{fname}()"
            if fname[:1].isupper():
                return True, f"handed to the constructor {fname}()"
            return None, f"handed to {fname}()"
        if isinstance(p, (ast.Assign, ast.AnnAssign)):
            tgts = p.targets if isinstance(p, ast.Assign) else [p.target]
            if any(isinstance(t, (ast.Subscript, ast.Attribute)) for t in tgts):
                return True, "stored in a container / attribute"
            name = next((t.id for t in tgts if isinstance(t, ast.Name)), None)
            if name:
                return _name_fate(name, p, parents, loop)
            return None, "assigned"
        if isinstance(p, (ast.Return, ast.Yield)):
            return True, "returned"
        if isinstance(p, (ast.List, ast.Tuple, ast.Dict, ast.Set)):
            return True, "put into a container"
        return None, type(p).__name__
    return _name_fate(fn.name, fn, parents, loop)


def _name_fate(name: str, after: ast.AST, parents: Dict[int, ast.AST], loop: ast.AST):
    """What happens to the function bound to `name` inside the loop body."""
    kept = None
    how = "only defined"
    for x in ast.walk(loop):
        if not (isinstance(x, ast.Name) and x.id == name and isinstance(x.ctx, ast.Load)):
            continue
        p = parents.get(id(x))
        holder = parents.get(id(p)) if isinstance(p, ast.keyword) else p
        if isinstance(holder, ast.Call) and holder.func is x:
            if kept is None:
                kept, how = False, "called in the same iteration"
            continue
        if isinstance(holder, ast.Call):
            fname = (dotted(holder.func) or "").split(".")[-1] if dotted(holder.func) else (
                holder.func.attr if isinstance(holder.func, ast.Attribute) else "")
            if fname in IMMEDIATE_CONSUMERS:
                if kept is None:
                    kept, how = False, f"consumed by {fname}()"
                continue
            if fname in KEEPERS or fname[:1].isupper():
                return True, f"kept by {fname}()"
            return None, f"handed to {fname}()"
        if isinstance(p, (ast.Return, ast.Yield, ast.List, ast.Tuple, ast.Dict, ast.Set)):
            return True, "returned / put into a container"
        if isinstance(p, (ast.Assign, ast.AnnAssign)):
            return None, "re-assigned"
    return kept, how


def late_binding(prog: Program, chk: Check, rule: str, modules: Optional[Set[str]] = None,
                 positive_floor: int = 0) -> int:
    n = 0
    for u in prog.units.values():
        if isinstance(u.node, ast.Lambda):
            continue
        if modules is not None and u.module.short not in modules:
            continue
        loops = [x for x in walk_local(u.node) if isinstance(x, (ast.For, ast.While))]
        comps = [x for x in walk_local(u.node)
                 if isinstance(x, (ast.ListComp, ast.SetComp, ast.DictComp, ast.GeneratorExp))]
        if not loops and not comps:
            continue
        parents = _parents(u.node)
        seen: Set[int] = set()
        for loop in loops:
            rebound = _bound_in(loop.body)
            if isinstance(loop, ast.For):
                for t in ast.walk(loop.target):
                    if isinstance(t, ast.Name):
                        rebound.add(t.id)
            for st in loop.body:
                for fn in ast.walk(st):
                    if not isinstance(fn, (ast.Lambda, ast.FunctionDef)) or id(fn) in seen:
                        continue
                    # only functions created directly by this unit (not nested deeper)
                    q = parents.get(id(fn))
                    nested = False
                    while q is not None and q is not u.node:
                        if isinstance(q, (ast.Lambda, ast.FunctionDef)):
                            nested = True
                            break
                        q = parents.get(id(q))
                    if nested:
                        continue
                    seen.add(id(fn))
                    captured = sorted(_free_loads(fn) & rebound)
                    if isinstance(fn, ast.FunctionDef) and fn.name in captured:
                        captured.remove(fn.name)
                    n += 1
                    label = "lambda" if isinstance(fn, ast.Lambda) else f"def {fn.name}"
                    if not captured:
                        chk.saw(u)
                        chk.add(rule, u, f"{label} in a loop: reads no variable the loop rebinds",
                                True, "", fn)
                        continue
                    kept, how = _fate(fn, parents, loop)
                    chk.saw(u)
                    chk.add(rule, u, f"{label} in a loop reads {captured} ({how})",
                            True if kept is False else (False if kept else None),
                            "consumed within the iteration" if kept is False else
                            (f"the closure is {how} and looks up {captured} when it is called: after "
                             f"the loop every closure made here sees the value of the last "
                             f"iteration (bind it when the closure is made: a default argument, "
                             f"a factory function or functools.partial)" if kept else
                             f"what becomes of the closure is not decided ({how})"), fn)
        # comprehensions are loops too: [lambda x: f(x, b) for b in items]
        for comp in comps:
            rebound = {t.id for g in comp.generators for t in ast.walk(g.target)
                       if isinstance(t, ast.Name)}
            elts = [comp.key, comp.value] if isinstance(comp, ast.DictComp) else [comp.elt]
            for e in elts:
                for fn in ast.walk(e):
                    if not isinstance(fn, ast.Lambda) or id(fn) in seen:
                        continue
                    seen.add(id(fn))
                    captured = sorted(_free_loads(fn) & rebound)
                    n += 1
                    chk.saw(u)
                    if not captured:
                        chk.add(rule, u, "lambda in a comprehension: reads no comprehension variable",
                                True, "", fn)
                        continue
                    p = parents.get(id(fn))
                    immediate = isinstance(p, ast.Call) and p.func is fn
                    consumed = isinstance(p, ast.Call) and ((dotted(p.func) or "").split(".")[-1]
                                                            in IMMEDIATE_CONSUMERS)
                    chk.add(rule, u, f"lambda in a comprehension reads {captured}",
                            True if (immediate or consumed) else False,
                            "consumed at once" if (immediate or consumed) else
                            f"every closure in the resulting collection looks up {captured} when it "
                            f"is called and sees the last element (bind it: a default argument or "
                            f"a factory function)", fn)
    return n


POSITIVE = """
def build(items, keep):
    for item in items:
        scale = item.scale
        keep.append(lambda x: x * scale)                   # late binding: reported
        keep.append(lambda x, scale=scale: x * scale)      # bound when made
        best = sorted(item.values, key=lambda v: v - scale)  # consumed at once
    return [lambda x: x + item for item in items]           # late binding: reported
"""


def self_check(rule: str) -> None:
    """The rule's expected count on the package is zero: keep it honest on a tiny example."""
    import types
    from oqv.report import Check as _C
    tree = ast.parse(POSITIVE)
    fn = tree.body[0]

    class _U:      # the minimal surface late_binding() uses
        pass
    u = _U()
    u.node, u.module = fn, types.SimpleNamespace(short="positive")
    u.qual = "positive:build"
    prog = types.SimpleNamespace(units={"positive:build": u})
    got: List[Tuple[str, Optional[bool]]] = []
    sink = types.SimpleNamespace(saw=lambda *a, **k: None,
                                 add=lambda r, uu, c, ok, *a, **k: got.append((c, ok)))
    late_binding(prog, sink, rule)
    verdicts = [ok for (_, ok) in got]
    if verdicts.count(False) != 2 or verdicts.count(True) != 2:
        raise AnalysisError(f"{rule}: the built-in example is judged {got} (expected two reports and "
                            f"two accepted closures) - the rule no longer recognises the idiom")
