"""C03 - contracting any process tensor reproduces the joint evolution:
the structural necessary conditions (claimed in part).

M1 every consumer of a PT-MPO tensor uses the same leg-role table
   (axis 0 past bond, 1 future bond, 2 system in, 3 system out) and the
   rank-3 delta expansion duplicates axis 2,
M2 the system-superoperator application uses one convention,
M3 input guards: per-PT Hilbert dimension, dt agreement, the shortest
   process tensor bounds num_steps, every PT of the list is contracted and
   capped at the step index of the loop (shared with C02 S2),
M4 no consumer depends on the position of a process tensor in the list other
   than through its own bond leg (necessary for order independence).

Exactness against an independently simulated joint evolution is NOT decided.
"""
from __future__ import annotations

import ast
from typing import Dict, List, Optional, Set, Tuple

from oqv.astutil import branch_context, call_name, method_call
from oqv.cfg import CFG
from oqv.dataflow import DefUse, expand, origin, origin_text
from oqv.model import AnalysisError, Program, Unit, dotted, norm, walk_local
from oqv.report import Check

SD = "system_dynamics"


def _node_name_of_mpo(u: Unit) -> Set[str]:
    """local names bound to tn.Node(<an MPO tensor>): the argument, with locals replaced by
    where they come from, mentions an MPO source (parameter pt_mpos, attribute _mpo_tensors,
    a get_mpo_tensor(..) call)."""
    names = set()
    du = DefUse(u, CFG(u.node, exc_edges=False))
    for st in walk_local(u.node):
        if isinstance(st, ast.Assign) and isinstance(st.value, ast.Call) and \
                (dotted(st.value.func) or "").endswith("Node") and st.value.args:
            a = origin_text(du, du.node_of(st.value), st.value.args[0])
            if any(k in a for k in ("pt_mpos", "_mpo_tensors", "get_mpo_tensor")):
                for t in st.targets:
                    if isinstance(t, ast.Name):
                        names.add(t.id)
    return names


def _store_role(t: ast.AST) -> Optional[str]:
    """Role of an edge by the slot it is stored in / taken from: the last entry of the edge
    list (or the physical-leg list of the chain) is the system leg, the entry before it the
    dangling system input of the derivative, the other entries (or the process-tensor leg
    list of the chain) are bond legs."""
    if not isinstance(t, ast.Subscript):
        return None
    base = dotted(t.value) or ""
    idx = t.slice
    neg = isinstance(idx, ast.UnaryOp) and isinstance(idx.op, ast.USub) \
        and isinstance(idx.operand, ast.Constant)
    if base.endswith("_phys_es"):
        return "SYS"
    if base.endswith("_pt_es"):
        return "BOND"
    if base == "current_edges":
        if neg and idx.operand.value == 1:
            return "SYS"
        if neg and idx.operand.value == 2:
            return "SYS_DANGLING_IN"
        if neg:
            return None
        return "BOND"
    return None


def flag_case(u: Unit, du: DefUse, flags: Optional[Dict[str, bool]] = None):
    """Path condition fixing boolean flag parameters of u (default: their default values -
    the way the forward consumers call the helper)."""
    from oqv.pathcond import Case
    a = u.node.args
    names = [x.arg for x in a.args]
    defaults = dict(zip(names[len(names) - len(a.defaults):], a.defaults))
    fixed = {n: d.value for n, d in defaults.items()
             if isinstance(d, ast.Constant) and isinstance(d.value, bool)}
    fixed.update(flags or {})

    def decide(nid, e):
        if isinstance(e, ast.Name) and e.id in fixed and not any(
                df.name == e.id and df.value is not None for df in du.defs):
            return fixed[e.id]
        return None
    case = Case(du, decide, label=", ".join(f"{k}={v}" for k, v in sorted(fixed.items())))
    case.flag_values = {k: v for k, v in fixed.items()
                        if not any(df.name == k and df.value is not None for df in du.defs)}
    return case


def axis_values(du: DefUse, case, nid: Optional[int], e: ast.AST) -> Set[int]:
    """Constant integer values an axis index expression can take at node nid under the case
    (a literal, or a local bound to literals, also through `a, b = 2, 3`)."""
    if isinstance(e, ast.Constant) and isinstance(e.value, int):
        return {e.value}
    if isinstance(e, ast.UnaryOp) and isinstance(e.op, ast.USub) and isinstance(e.operand, ast.Constant):
        return {-e.operand.value}
    out: Set[int] = set()
    if isinstance(e, ast.Name) and nid is not None:
        ids = case.defs(e.id, nid) if case is not None else {d.id for d in du.reaching(nid, e.id)}
        for i in ids:
            if i is None:
                return set()
            d = du.defs[i]
            v = d.value
            idx = [s_[1] for s_ in d.sel if s_[0] == "idx"]
            # `a, b = (3, 2) if flag else (2, 3)`: the branch the case selects
            fv = getattr(case, "flag_values", {}) if case is not None else {}
            while isinstance(v, ast.IfExp):
                t = v.test
                neg = False
                while isinstance(t, ast.UnaryOp) and isinstance(t.op, ast.Not):
                    t, neg = t.operand, not neg
                if isinstance(t, ast.Name) and t.id in fv:
                    v = v.body if (fv[t.id] != neg) else v.orelse
                else:
                    return set()
            if isinstance(v, (ast.Tuple, ast.List)) and len(idx) == 1 and idx[0] < len(v.elts):
                v = v.elts[idx[0]]
            elif d.sel:
                return set()
            if isinstance(v, ast.Constant) and isinstance(v.value, int):
                out.add(v.value)
            else:
                return set()
    return out


def _leg_roles(u: Unit, node_names: Set[str], flags: Optional[Dict[str, bool]] = None
               ) -> Dict[int, Set[str]]:
    """axis index -> roles inferred from how `node[axis]` is used (what it is connected to,
    where the edge taken from it is stored) - independent of the names of the locals.  Axis
    indices held in locals are resolved under the path condition of the flag parameters."""
    roles: Dict[int, Set[str]] = {}
    du = DefUse(u, CFG(u.node, exc_edges=False))
    case = flag_case(u, du, flags)
    reach = case.reachable()
    other_nodes = {t.id for st in walk_local(u.node) if isinstance(st, ast.Assign)
                   and isinstance(st.value, ast.Call) and (dotted(st.value.func) or "").endswith("Node")
                   for t in st.targets if isinstance(t, ast.Name)} - node_names

    def add(ax, r):
        roles.setdefault(ax, set()).add(r)

    def node_axis(e, _depth=0):
        if isinstance(e, ast.Subscript) and dotted(e.value) in node_names:
            if isinstance(e.slice, ast.Constant):
                return e.slice.value
            vals = axis_values(du, case, du.node_of(e), e.slice)
            if len(vals) == 1:
                return next(iter(vals))
        if isinstance(e, ast.Name) and _depth < 3:
            # an edge of the node held in a local: `past = node[0] ... bond ^ past`
            nid_e = du.node_of(e)
            if nid_e is None:
                return None
            axes = set()
            for d in du.reaching(nid_e, e.id):
                v = d.value
                if v is None:
                    return None
                idx = [s_[1] for s_ in (d.sel or ()) if s_[0] == "idx"]
                if isinstance(v, (ast.Tuple, ast.List)) and len(idx) == 1 and idx[0] < len(v.elts):
                    v = v.elts[idx[0]]
                elif len(idx) == 1 and len(d.sel) == 1 and any(
                        isinstance(st, ast.Assign) and st.value is v
                        and any(isinstance(t, ast.Name) and t.id in node_names for t in st.targets)
                        for st in walk_local(u.node)):
                    # the def-use layer reads `a, b = (node[0], node[1])` as unpacking the node
                    axes.add(idx[0])
                    continue
                elif d.sel:
                    return None
                axes.add(node_axis(v, _depth + 1))
            if len(axes) == 1 and None not in axes:
                return next(iter(axes))
        return None

    def pairs(st):
        """(target, value) pairs of an assignment, tuple displays element by element"""
        out = []
        for t in st.targets:
            if isinstance(t, (ast.Tuple, ast.List)) and isinstance(st.value, (ast.Tuple, ast.List)) \
                    and len(t.elts) == len(st.value.elts):
                out += list(zip(t.elts, st.value.elts))
            else:
                out.append((t, st.value))
        return out
    for x in walk_local(u.node):
        nid_x = du.node_of(x)
        if nid_x is not None and nid_x not in reach:
            continue
        # connections  A ^ B
        if isinstance(x, ast.BinOp) and isinstance(x.op, ast.BitXor):
            for side, other in ((x.left, x.right), (x.right, x.left)):
                ax = node_axis(side)
                if ax is None:
                    continue
                nid = du.node_of(x)
                # what kind of node is on the other side?  (its direct definitions)
                o = ""
                if isinstance(other, ast.Subscript) and isinstance(other.value, ast.Name) \
                        and nid is not None:
                    vals = [d.value for d in du.reaching(nid, other.value.id) if d.value is not None]
                    kinds = set()
                    for v in vals:
                        arg = norm(v.args[0]) if isinstance(v, ast.Call) and v.args \
                            and (dotted(v.func) or "").endswith("Node") else ""
                        kinds.add(next((k for k in ("_trace_in", "_trace_out", "_trace_square")
                                        if arg.endswith(k)),
                                       "_trace" if arg == "self._trace" else "other"))
                    o = kinds.pop() if len(kinds) == 1 else "other"
                sr = _store_role(other)
                if o == "_trace_in":
                    add(ax, "SYS_IN")
                elif o == "_trace_out":
                    add(ax, "SYS_OUT")
                elif o == "_trace_square":
                    add(ax, "SYS_IN")
                elif o == "_trace":
                    add(ax, "SYS_IN" if ax == 2 else "SYS_OUT")
                elif sr == "SYS":
                    add(ax, "SYS_IN")
                elif sr == "BOND":
                    add(ax, "BOND_PAST")
                elif o == "other":
                    add(ax, "BOND_FUTURE")       # the running cap
        # edges taken from the node: where do they end up?
        for t, v_ in (pairs(x) if isinstance(x, ast.Assign) else ()):
            if not isinstance(v_, ast.Subscript):
                continue
            ax = node_axis(v_)
            if ax is None:
                continue
            if True:
                sr = _store_role(t)
                if sr == "SYS":
                    add(ax, "SYS_OUT")
                elif sr == "BOND":
                    add(ax, "BOND_FUTURE")
                elif isinstance(t, ast.Name):
                    for r in _edge_sinks(u, t.id):
                        add(ax, r)
    return roles


def _edge_sinks(u: Unit, name: str) -> Set[str]:
    """Roles of the slots an edge held in local `name` is finally stored in (directly, or
    through a list it is appended to)."""
    out: Set[str] = set()
    lists = {dotted(c.func.value) for c in walk_local(u.node) if isinstance(c, ast.Call)
             and isinstance(c.func, ast.Attribute) and c.func.attr == "append" and c.args
             and isinstance(c.args[0], ast.Name) and c.args[0].id == name}
    lists |= {t.id for st in walk_local(u.node) if isinstance(st, ast.Assign)
              and isinstance(st.value, ast.List)
              and any(isinstance(e, ast.Name) and e.id == name for e in st.value.elts)
              for t in st.targets if isinstance(t, ast.Name)}
    for st in walk_local(u.node):
        if not isinstance(st, ast.Assign):
            continue
        v = st.value
        direct = isinstance(v, ast.Name) and v.id == name
        via_list = isinstance(v, ast.Subscript) and dotted(v.value) in lists
        if direct or via_list:
            for t in st.targets:
                sr = _store_role(t)
                if sr == "SYS":
                    out.add("SYS_OUT")
                elif sr == "SYS_DANGLING_IN":
                    out.add("SYS_IN")
                elif sr == "BOND":
                    out.add("BOND_FUTURE")
    return out


WANT = {0: {"BOND_PAST"}, 1: {"BOND_FUTURE"}, 2: {"SYS_IN"}, 3: {"SYS_OUT"}}


def site_gate_convention(prog: Program, chk: Check, rule: str) -> None:
    """Single-site superoperators act as rho' = M rho: the physical leg of the chain is
    contracted with axis 1 of M and replaced by axis 0 (one transposition of M exchanges the
    two).  PtTebd hands the ChainControl superoperators over untransposed."""
    chk.rule(rule, "PT-TEBD applies a single-site control M as rho' = M rho: the node made from "
             "the gate matrix is contracted with the chain's physical leg on its input axis (1, "
             "or 0 if the node is made from M.T) and its output axis becomes the new physical "
             "leg; PtTebd passes the controls of ChainControl on untransposed. The transposed "
             "application leaves symmetric controls alone and makes a reset / amplitude damping "
             "lose the trace", floor=3)
    u = prog.unit("backends.pt_tebd_backend:PtTebdBackend.apply_site_gate")
    chk.saw(u)
    du_ = DefUse(u, CFG(u.node, exc_edges=False))
    nodes = []
    for st in walk_local(u.node):
        if isinstance(st, ast.Assign) and isinstance(st.value, ast.Call) \
                and (dotted(st.value.func) or "").endswith("Node") and st.value.args:
            arg_ = expand(du_, du_.node_of(st), st.value.args[0])      # temporaries written out
            if "tensors" in norm(arg_):
                nodes += [(t.id, arg_) for t in st.targets if isinstance(t, ast.Name)]
    if len(nodes) != 1:
        raise AnalysisError(f"{rule}: the node made from the gate matrix in apply_site_gate was not found")
    name, arg = nodes[0]
    flips = 0
    while True:
        if isinstance(arg, ast.Attribute) and arg.attr == "T":
            flips, arg = flips + 1, arg.value
        elif isinstance(arg, ast.Call) and isinstance(arg.func, ast.Attribute) \
                and arg.func.attr in ("transpose",) and not arg.args:
            flips, arg = flips + 1, arg.func.value
        elif isinstance(arg, ast.Call) and (dotted(arg.func) or "").split(".")[-1] == "transpose" \
                and len(arg.args) == 1:
            flips, arg = flips + 1, arg.args[0]
        else:
            break
    roles = _leg_roles(u, {name})
    want = {1: {"SYS_IN"}, 0: {"SYS_OUT"}} if flips % 2 == 0 else {0: {"SYS_IN"}, 1: {"SYS_OUT"}}
    if not roles:
        raise AnalysisError(f"{rule}: no connection of the gate node with the physical leg found")
    got = {ax: set(r) for ax, r in roles.items()}
    chk.add(rule, u, f"gate node from {'M.T' if flips % 2 else 'M'}: legs { {a: sorted(r) for a, r in sorted(got.items())} }",
            got == want, "" if got == want else
            f"expected { {a: sorted(r) for a, r in sorted(want.items())} }: the control is applied "
            f"transposed")
    # the caller hands the controls over as they are
    cu = prog.unit("pt_tebd:PtTebd._apply_controls")
    chk.saw(cu)
    gates = [c for c in walk_local(cu.node) if isinstance(c, ast.Call) and call_name(c) == "SiteGate"]
    if not gates:
        raise AnalysisError(f"{rule}: PtTebd._apply_controls no longer builds SiteGate objects")
    for c in gates:
        a = c.args[1] if len(c.args) > 1 else next((k.value for k in c.keywords if k.arg == "tensor"), None)
        plain = isinstance(a, ast.Name)
        chk.add(rule, cu, f"SiteGate(site, {norm(a) if a is not None else '?'})", plain,
                "" if plain else "the control is modified (transposed / conjugated) on the way "
                                 "to the back end", c)
    sg = prog.cls("mps_mpo:SiteGate").methods.get("__init__")
    if sg is None:
        raise AnalysisError(f"{rule}: SiteGate.__init__ vanished")
    chk.saw(sg)
    bad = [x for x in walk_local(sg.node) if (isinstance(x, ast.Attribute) and x.attr == "T")
           or (isinstance(x, ast.Call) and (dotted(x.func) or "").split(".")[-1] in
               ("transpose", "swapaxes", "conj", "conjugate"))]
    chk.add(rule, sg, "SiteGate stores the matrix as given", not bad,
            "" if not bad else f"the gate matrix is changed on construction: {norm(bad[0])[:50]}")


def m1(prog: Program, chk: Check) -> None:
    chk.rule("M1", "all consumers of a PT-MPO tensor agree on the leg-role table: axis 0 past bond "
             "(connected to the current bond leg), 1 future bond (becomes the new bond leg / meets "
             "the later cap), 2 system input, 3 system output; rank-3 tensors are expanded with a "
             "delta on the system legs", floor=6)
    consumers = [f"{SD}:_apply_pt_mpos", f"{SD}:_apply_derivative_pt_mpos",
                 "backends.pt_tebd_backend:PtTebdBackend.apply_process_tensors",
                 "process_tensor:SimpleProcessTensor.compute_caps",
                 "process_tensor:FileProcessTensor.compute_caps"]
    leg_role_table(prog, chk, "M1", consumers)
    _m1_rest(prog, chk)


def leg_role_table(prog: Program, chk: Check, rule: str, consumers: List[str]) -> None:
    for q in consumers:
        u = prog.unit(q)
        chk.saw(u)
        names = _node_name_of_mpo(u)
        if not names:
            raise AnalysisError(f"{rule}: no tn.Node(<mpo tensor>) in {q}")
        roles = _leg_roles(u, names)
        bad = {ax: sorted(r) for ax, r in roles.items() if ax in WANT and not r <= WANT[ax]}
        seen = {ax for ax in roles if ax in WANT}
        if len(seen) < 3 and not bad:
            raise AnalysisError(
                f"{rule}: only {len(seen)} leg roles recognised in {q} - the local-name vocabulary "
                f"(bond / sys / phys / cap / trace_in / trace_out) no longer matches the code")
        ok = not bad
        chk.add(rule, u, f"leg roles { {ax: sorted(r) for ax, r in sorted(roles.items())} }", ok,
                "" if ok else
                f"this consumer uses axis {sorted(bad)} as {bad} - the siblings use "
                f"{ {k: sorted(v) for k, v in WANT.items()} }")


def _m1_rest(prog: Program, chk: Check) -> None:
    # backprop swap and delta expansion
    for q in ("process_tensor:SimpleProcessTensor.get_mpo_tensor",
              "process_tensor:FileProcessTensor.get_mpo_tensor"):
        u = prog.unit(q)
        cd = [c for c in walk_local(u.node) if isinstance(c, ast.Call)
              and (dotted(c.func) or "").endswith("create_delta")]
        ok = len(cd) == 1 and norm(cd[0].args[1]) == "[0, 1, 2, 2]"
        rank3 = any(isinstance(t, ast.Compare) and "shape" in norm(t.left)
                    and isinstance(t.comparators[0], ast.Constant) and t.comparators[0].value == 3
                    for (t, br) in branch_context(u.node, cd[0])) if cd else False
        chk.add("M1", u, f"rank-3 expansion create_delta(.., {norm(cd[0].args[1]) if cd else '?'})",
                ok and rank3, "" if ok and rank3 else
                "a rank-3 MPO tensor must get a delta between system input and output "
                "(axes [0, 1, 2, 2]) exactly when its rank is 3")


def m2(prog: Program, chk: Check) -> None:
    chk.rule("M2", "_apply_system_superoperator contracts the state leg with axis 0 of the "
             "TRANSPOSED superoperator and continues on its axis 1 (matrix-vector product "
             "S.vec(rho)); _apply_caps contracts every bond leg with its cap", floor=2)
    u = prog.unit(f"{SD}:_apply_system_superoperator")
    chk.saw(u)
    node = None
    for st in walk_local(u.node):
        if isinstance(st, ast.Assign) and isinstance(st.value, ast.Call) and \
                (dotted(st.value.func) or "").endswith("Node"):
            node = (dotted(st.targets[0]), norm(st.value.args[0]))
    conn = [x for x in walk_local(u.node) if isinstance(x, ast.BinOp) and isinstance(x.op, ast.BitXor)]
    new_edge = [st for st in walk_local(u.node) if isinstance(st, ast.Assign)
                and isinstance(st.value, ast.Subscript) and node and dotted(st.value.value) == node[0]]
    ok = node is not None and node[1].endswith(".T") and len(conn) == 1 and \
        {norm(conn[0].left), norm(conn[0].right)} == {"current_edges[-1]", f"{node[0]}[0]"} and \
        len(new_edge) == 1 and norm(new_edge[0].value) == f"{node[0]}[1]"
    chk.add("M2", u, f"Node({node[1] if node else '?'}); {norm(conn[0]) if conn else '?'}; "
            f"new edge {norm(new_edge[0].value) if new_edge else '?'}", ok,
            "" if ok else "the superoperator is applied transposed / on the wrong leg")
    c = prog.unit(f"{SD}:_apply_caps")
    loop = [x for x in walk_local(c.node) if isinstance(x, ast.For)]
    ok = len(loop) == 1 and "current_edges[:-1]" in norm(loop[0].iter) and "caps" in norm(loop[0].iter)
    chk.add("M2", c, f"for {norm(loop[0].target) if loop else '?'} in {norm(loop[0].iter) if loop else '?'}",
            ok, "" if ok else "not every bond leg is closed with its own cap")


def _is_elem_of(e: ast.AST, what: str) -> bool:
    """e is ELEM(<iterable mentioning `what`>) in origin form."""
    return isinstance(e, ast.Call) and isinstance(e.func, ast.Name) and e.func.id == "ELEM" \
        and e.args and what in norm(e.args[0])


def m3(prog: Program, chk: Check) -> None:
    chk.rule("M3", "input guards of the contraction: each process tensor has the system's Hilbert "
             "dimension, all time steps agree, num_steps is bounded by the shortest process "
             "tensor, a process tensor with an initial tensor is rejected", floor=4)
    u = prog.unit(f"{SD}:_compute_dynamics_input_parse")
    du = DefUse(u, CFG(u.node, exc_edges=False))
    chk.saw(u, du.cfg)
    # all guards are read in origin form: local names are replaced by where their values come
    # from (an element of the process-tensor list is ELEM(..process_tensor..))
    guards = []
    for c in walk_local(u.node):
        if isinstance(c, ast.Call) and call_name(c) == "check_true" and c.args:
            guards.append((c, origin(du, du.node_of(c), c.args[0])))

    def eq_sides(o):
        if isinstance(o, ast.Compare) and len(o.ops) == 1 and isinstance(o.ops[0], ast.Eq):
            return [(o.left, o.comparators[0]), (o.comparators[0], o.left)]
        return []
    ok = any(isinstance(a, ast.Attribute) and a.attr == "hilbert_space_dimension"
             and _is_elem_of(a.value, "process_tensor") and norm(b) == "system.dimension"
             for (_, o) in guards for (a, b) in eq_sides(o))
    chk.add("M3", u, "every process tensor: Hilbert dimension equals the system's", ok,
            "" if ok else "a process tensor of another dimension is contracted")
    ok = any(isinstance(a, ast.Attribute) and a.attr == "dt"
             and _is_elem_of(a.value, "process_tensor")
             and any(isinstance(y, ast.Name) and y.id == "dt" for y in ast.walk(b))
             for (_, o) in guards for (a, b) in eq_sides(o))
    chk.add("M3", u, "every process tensor: pt.dt == dt", ok,
            "" if ok else "process tensors with different time steps are combined")
    # num_steps <= min over the collected max_step values
    collected = [c for c in walk_local(u.node) if isinstance(c, ast.Call)
                 and isinstance(c.func, ast.Attribute) and c.func.attr == "append" and c.args
                 and isinstance(origin(du, du.node_of(c), c.args[0]), ast.Attribute)
                 and origin(du, du.node_of(c), c.args[0]).attr == "max_step"
                 and _is_elem_of(origin(du, du.node_of(c), c.args[0]).value, "process_tensor")]
    bound_ok = False
    if len(collected) == 1:
        lst = dotted(collected[0].func.value)
        for (c, o) in guards:
            if not (isinstance(o, ast.Compare) and len(o.ops) == 1):
                continue
            small, big, src = None, None, None
            if isinstance(o.ops[0], ast.LtE):
                small, big, src = o.left, o.comparators[0], c.args[0].comparators[0]
            elif isinstance(o.ops[0], ast.GtE):
                small, big, src = o.comparators[0], o.left, c.args[0].left
            if small is not None and any(isinstance(y, ast.Name) and y.id == "num_steps"
                                         for y in ast.walk(small)):
                # the bound in source form: a minimum over the collected list
                e = expand(du, du.node_of(c), src, stop_names={lst})
                bound_ok = isinstance(e, ast.Call) and (dotted(e.func) or "").split(".")[-1] in (
                    "min", "amin") and any(isinstance(y, ast.Name) and y.id == lst
                                           for y in ast.walk(e))
    chk.add("M3", u, "num_steps <= min over process tensors of max_step", bound_ok,
            "" if bound_ok else "the shortest process tensor does not bound the number of steps")
    rej = False
    for r in walk_local(u.node):
        if isinstance(r, ast.Raise):
            for (t, br) in branch_context(u.node, r):
                o = origin(du, du.node_of(r) or du.cfg.entry, t) if du.node_of(r) is not None else t
                if isinstance(o, ast.Compare) and len(o.ops) == 1 \
                        and isinstance(o.ops[0], (ast.IsNot, ast.NotEq)) == br \
                        and isinstance(o.left, ast.Call) and isinstance(o.left.func, ast.Attribute) \
                        and o.left.func.attr == "get_initial_tensor" \
                        and _is_elem_of(o.left.func.value, "process_tensor"):
                    rej = True
    chk.add("M3", u, "process tensors with an initial tensor are rejected", rej)


def m4(prog: Program, chk: Check) -> None:
    chk.rule("M4", "the list position i of a process tensor is used only to select its own bond "
             "leg / cap / MPO (index i on both sides): necessary for independence of the order "
             "of the list", floor=4)
    for q, getter in ((f"{SD}:_get_caps", "get_cap_tensor"), (f"{SD}:_get_pt_mpos", "get_mpo_tensor")):
        u = prog.unit(q)
        du = DefUse(u, CFG(u.node, exc_edges=False))
        chk.saw(u, du.cfg)
        calls = [c for c in walk_local(u.node) if isinstance(c, ast.Call)
                 and isinstance(c.func, ast.Attribute) and c.func.attr == getter]
        app = [c for c in walk_local(u.node) if isinstance(c, ast.Call) and method_call(c)
               and method_call(c)[1] == "append"]
        ok = len(calls) == 1 and len(app) == 1
        comps = [x for x in walk_local(u.node) if isinstance(x, ast.ListComp)
                 and len(calls) == 1 and x.elt is calls[0]]
        if len(calls) == 1 and not app and comps:
            # the same collection written as a comprehension over the list, returned as it is
            lc = comps[0]
            g0 = lc.generators[0]
            rets = [r for r in walk_local(u.node) if isinstance(r, ast.Return)]
            recv_ = calls[0].func.value
            by_element = norm(g0.iter) == "process_tensors" and isinstance(recv_, ast.Name) \
                and isinstance(g0.target, ast.Name) and recv_.id == g0.target.id
            by_index = norm(g0.iter) in ("range(len(process_tensors))",) and isinstance(g0.target, ast.Name) \
                and norm(recv_) == f"process_tensors[{g0.target.id}]"
            ok = len(lc.generators) == 1 and not g0.ifs and (by_element or by_index) \
                and len(calls[0].args) == 1 and norm(calls[0].args[0]) == "step" \
                and len(rets) == 1 and rets[0].value is not None \
                and ast.dump(origin(du, du.node_of(rets[0]), rets[0].value) or rets[0]) == ast.dump(lc)
        elif ok:
            recv = origin_text(du, du.node_of(calls[0]), calls[0].func.value)
            arg = origin_text(du, du.node_of(calls[0]), calls[0].args[0]) if calls[0].args else ""
            # entry i of the result comes from process tensor i (ascending list order), same step
            ok = recv in ("process_tensors[ELEM(range(len(process_tensors)))]",
                          "ELEM(process_tensors)") and arg == "step"
            stored = origin(du, du.node_of(app[0]), app[0].args[0]) if app[0].args else None
            ok = ok and stored is not None and any(
                isinstance(y, ast.Call) and isinstance(y.func, ast.Attribute)
                and y.func.attr == getter for y in ast.walk(stored))
        chk.add("M4", u, f"{q.split(':')[1]}: entry i from process_tensors[i] at the same step", ok,
                "" if ok else "tensors are collected from a different list position / step")
    u = prog.unit(f"{SD}:_apply_pt_mpos")
    du = DefUse(u, CFG(u.node, exc_edges=False))
    loops = [x for x in walk_local(u.node) if isinstance(x, ast.For)]
    uses = sorted({origin_text(du, du.node_of(x) if du.node_of(x) is not None else du.cfg.entry,
                               x.slice)
                   for x in (ast.walk(loops[0]) if loops else [])
                   if isinstance(x, ast.Subscript) and dotted(x.value) == "current_edges"})
    ok = len(uses) == 2 and "-1" in uses and any(t.startswith("INDEX(") for t in uses)
    chk.add("M4", u, f"_apply_pt_mpos touches current_edges[{uses}]", ok,
            "MPO i meets bond leg i and the shared system leg only" if ok else
            "an MPO is connected to the bond leg of another environment")
    u = prog.unit(f"{SD}:_apply_caps")
    z = [x for x in walk_local(u.node) if isinstance(x, ast.Call) and dotted(x.func) == "zip"]
    ok = len(z) == 1 and [norm(a) for a in z[0].args] == ["current_edges[:-1]", "caps"]
    chk.add("M4", u, "caps zipped with the bond legs in list order", ok)


# --------------------------------------------------------------------- M5
def m5(prog: Program, chk: Check) -> None:
    chk.rule("M5", "what a process tensor hands to its consumers (MPO, cap, lam tensors, bond "
             "dimensions) is computed from its current tensors: no getter serves a memoised value "
             "whose key leaves out an argument, or that survives a setter rewriting the tensors "
             "it was computed from", floor=1)
    from rules.c20 import _a7_unit, _a7b_unit
    n = 0
    for u in prog.units_in("process_tensor"):
        if isinstance(u.node, ast.Lambda) or u.cls is None:
            continue
        n += 1
        for (st, attr, key_expr, covered, missing) in _a7_unit(u):
            chk.add("M5", u, f"memo {attr}[{norm(key_expr)}] <- {norm(st.value)[:40]}", not missing,
                    f"keyed / validated by {covered}" if not missing else
                    f"the stored value depends on {missing}, which is not part of the key", st)
        from rules.c20 import _a7_slot_unit
        for (st, attr, covered, missing) in _a7_slot_unit(u):
            chk.add("M5", u, f"single-slot memo {attr} <- {norm(st.value)[:40]}", not missing,
                    f"served only when {covered} agree" if not missing else
                    f"the remembered tensor depends on {missing}, which is not compared when it is "
                    f"served again (a raw tensor is handed out where the transformed one was asked "
                    f"for, or the other way round)", st)
        for (st, attr, mu, written) in _a7b_unit(prog, u):
            chk.add("M5", u, f"memo {attr} vs {mu.qual.split(':')[1]} writing {written}", False,
                    f"{mu.qual.split(':')[1]} rewrites {written}, from which the entries of {attr} "
                    f"were computed, and does not drop them: a later contraction uses the tensor "
                    f"of the old state", st)
    chk.add("M5", prog.module("process_tensor"),
            f"{n} methods of the process-tensor classes scanned for memo idioms", n >= 40,
            "" if n >= 40 else "the module shrank below what was confirmed by hand")



# --------------------------------------------------------------------- M7
def cap_closings(prog: Program):
    """[(unit, branch label, {axis: kind}, expected {axis: kind}, site)] for both compute_caps:
    how the legs of an MPO tensor are closed when the caps are built, per rank branch."""
    out = []
    for q in ("process_tensor:SimpleProcessTensor.compute_caps",
              "process_tensor:FileProcessTensor.compute_caps"):
        u = prog.unit(q)
        du = DefUse(u, CFG(u.node, exc_edges=False))
        names = _node_name_of_mpo(u)
        if not names:
            raise AnalysisError(f"M7: no tn.Node(<mpo tensor>) in {q}")
        conns = []          # (axis, kind, rank branch: 3 / 4 / None)
        for x in walk_local(u.node):
            if not (isinstance(x, ast.BinOp) and isinstance(x.op, ast.BitXor)):
                continue
            for side, other in ((x.left, x.right), (x.right, x.left)):
                if not (isinstance(side, ast.Subscript) and dotted(side.value) in names
                        and isinstance(side.slice, ast.Constant)):
                    continue
                nid = du.node_of(x)
                kind = "cap"
                if isinstance(other, ast.Subscript) and isinstance(other.value, ast.Name):
                    vals = [d.value for d in du.reaching(nid, other.value.id) if d.value is not None]
                    ks = set()
                    for v in vals:
                        arg = norm(v.args[0]) if isinstance(v, ast.Call) and v.args \
                            and (dotted(v.func) or "").endswith("Node") else ""
                        ks.add(next((k for k in ("_trace_in", "_trace_out", "_trace_square")
                                     if arg.endswith(k)),
                                    "_trace" if arg == "self._trace" else "cap"))
                    kind = ks.pop() if len(ks) == 1 else "cap"
                rank = None
                for (t, br) in branch_context(u.node, x):
                    if isinstance(t, ast.Compare) and len(t.ops) == 1 \
                            and isinstance(t.ops[0], ast.Eq) and "shape" in norm(t.left) \
                            and isinstance(t.comparators[0], ast.Constant) \
                            and t.comparators[0].value in (3, 4):
                        r = t.comparators[0].value
                        rank = r if br else (7 - r)
                conns.append((side.slice.value, kind, rank, x))
        has_branch = any(r is not None for (_, _, r, _) in conns) or any(
            isinstance(t, ast.Compare) and "shape" in norm(t.left)
            and isinstance(t.comparators[0], ast.Constant) and t.comparators[0].value in (3, 4)
            for st in walk_local(u.node) if isinstance(st, ast.If) for t in [st.test])
        # tensors taken with the transforms applied are closed with the plain trace vector,
        # raw tensors with the trace vector pushed through the transforms
        srcs_ = [expand(du, du.node_of(st.value), st.value.args[0])
                 for st in walk_local(u.node) if isinstance(st, ast.Assign)
                 and isinstance(st.value, ast.Call) and (dotted(st.value.func) or "").endswith("Node")
                 and any(isinstance(t, ast.Name) and t.id in names for t in st.targets)]
        transformed = bool(srcs_) and all(
            isinstance(a_, ast.Call) and isinstance(a_.func, ast.Attribute)
            and a_.func.attr == "get_mpo_tensor"
            and not any(k.arg == "transformed" and isinstance(k.value, ast.Constant)
                        and k.value.value is False for k in a_.keywords)
            and len(a_.args) <= 1 for a_ in srcs_)
        want3 = {1: "cap", 2: "_trace_square"}
        want4 = {1: "cap", 2: "_trace", 3: "_trace"} if transformed else \
            {1: "cap", 2: "_trace_in", 3: "_trace_out"}
        site = conns[0][3] if conns else None
        if has_branch:
            for rank, want in ((3, want3), (4, want4)):
                got = {ax: k for (ax, k, r, _) in conns if r in (None, rank)}
                out.append((u, f"rank-{rank} tensors", got, want, site))
        else:
            got = {ax: k for (ax, k, r, _) in conns}
            # without a rank branch the tensor must come from the expanding getter
            src = [expand(du, du.node_of(st.value), st.value.args[0])
                   for st in walk_local(u.node) if isinstance(st, ast.Assign)
                   and isinstance(st.value, ast.Call) and (dotted(st.value.func) or "").endswith("Node")
                   and any(isinstance(t, ast.Name) and t.id in names for t in st.targets)]
            expanding = all(isinstance(a, ast.Call) and isinstance(a.func, ast.Attribute)
                            and a.func.attr == "get_mpo_tensor"
                            and not any(k.arg == "transformed" and isinstance(k.value, ast.Constant)
                                        and k.value.value is False for k in a.keywords)
                            and len(a.args) <= 1 for a in src) and bool(src)
            if not expanding:
                got = dict(got, source="raw tensors without a rank branch")
            out.append((u, "tensors expanded to rank 4 by get_mpo_tensor", got, want4, site))
    return out


def m7(prog: Program, chk: Check, rule: str = "M7") -> None:
    chk.rule(rule, "caps: a raw rank-4 MPO tensor is closed with (future bond: the later cap, "
             "system in: trace_in, system out: trace_out) - the trace vector pushed through the "
             "transforms -, a tensor taken from get_mpo_tensor() with the transforms applied with "
             "the plain trace vector on both system legs (transforms act exactly once), a rank-3 "
             "tensor with (the later cap, trace_square) - in both compute_caps, for each rank "
             "branch; a version without a rank branch takes its tensors from the expanding "
             "getter", floor=3)
    for (u, label, got, want, site) in cap_closings(prog):
        chk.saw(u)
        closed = {ax for ax in got if isinstance(ax, int)}
        if closed < {ax for ax in want if isinstance(ax, int)} and closed <= {1}:
            # no system leg of the MPO tensor is seen closed at all: a cap with open system legs
            # could not even be stored - the closing happens in a shape the rule does not read
            raise AnalysisError(f"{rule}: the closing of the system legs in {u.qual} was not found "
                                f"(only {got}); expected {want}")
        chk.add(rule, u, f"{label}: legs closed with {got}", got == want,
                "" if got == want else
                f"expected {want}: a cap built otherwise carries a wrong weight, the states "
                f"before the last step are no longer normalised", site)


# --------------------------------------------------------------------- M8
def m8(prog: Program, chk: Check) -> None:
    chk.rule("M8", "the trace vectors that close raw tensors are the plain trace contracted with "
             "the OUTER index of each transform as get_mpo_tensor applies it (M_in[k,i] T[..,i,j] "
             "M_out[j,l]): trace_in[i] = sum_k tr[k] M_in[k,i], trace_out[j] = sum_l M_out[j,l] "
             "tr[l] - so closing a raw tensor equals closing the transformed one with the plain "
             "trace", floor=2)
    from oqv import tensoridx as ti
    u = prog.unit("process_tensor:BaseProcessTensor.__init__")
    chk.saw(u)

    def atom(x):
        d = dotted(x)
        if d == "self._trace":
            return ti.Val.atom("tr", 1)
        if d in ("self._transform_in", "tmp_transform_in", "transform_in"):
            return ti.Val.atom("Min", 2)
        if d in ("self._transform_out", "tmp_transform_out", "transform_out"):
            return ti.Val.atom("Mout", 2)
        return None
    du = DefUse(u, CFG(u.node, exc_edges=False))
    want = {"self._trace_in": ((("Min", 1),), ((("Min", 0), ("tr", 0)),)),
            "self._trace_out": ((("Mout", 0),), ((("Mout", 1), ("tr", 0)),))}
    seen = set()
    for st in walk_local(u.node):
        if not (isinstance(st, ast.Assign) and len(st.targets) == 1
                and dotted(st.targets[0]) in want):
            continue
        tgt = dotted(st.targets[0])
        v = expand(du, du.node_of(st.value), st.value)
        if dotted(v) == "self._trace":
            continue                      # no transform: the plain trace
        seen.add(tgt)
        val = ti.evaluate(v, atom)
        sig = val.signature() if val is not None else None
        chk.add("M8", u, f"{tgt} = {norm(st.value)}", sig == want[tgt],
                "outer index of the transform contracted with the trace" if sig == want[tgt] else
                f"index signature {sig}, expected {want[tgt]}: the trace vector is pushed through "
                f"the transposed map - for a transform that is not a symmetric / trace-preserving "
                f"superoperator every cap, and with it every state before the last step, is wrong",
                st)
    if seen != set(want):
        raise AnalysisError(f"M8: transformed trace vectors not found in BaseProcessTensor.__init__ "
                            f"({sorted(seen)})")


# --------------------------------------------------------------------- M6
def m6(prog: Program, chk: Check) -> None:
    chk.rule("M6", "the tensors of an in-memory process tensor are its own: every setter stores "
             "an independent copy of the array it is given, so the network that is contracted "
             "later is the one that was set", floor=3)
    from rules.c20 import STORE_TABLE, setter_copies
    sc = setter_copies(prog, [STORE_TABLE[0]])
    for (mu, st, v, ok) in sc:
        chk.saw(mu)
        chk.add("M6", mu, f"{norm(st.targets[0])} = {norm(v)[:50]}", ok,
                "an independent copy is stored" if ok else
                "the caller's buffer is stored: refilling a work array per step silently rewrites "
                "the steps already set and compute_dynamics contracts the wrong network", st)


def m9(prog: Program, chk: Check) -> None:
    chk.rule("M9", "the contraction code never updates in place an array it does not own "
             "(propagators and controls handed out by closures, MPO / cap tensors handed out by "
             "process tensors, elements of containers): every consumer of a process tensor sees "
             "the tensors and propagators as their owners made them, at every step", floor=10)
    from rules.ownership import inplace_updates
    inplace_updates(prog, chk, "M9", modules={"system_dynamics", "gradient", "pt_tebd", "process_tensor",
                                               "backends.pt_tebd_backend", "system", "mps_mpo",
                                               "bath_dynamics"}, floor=1)


def m10(prog: Program, chk: Check) -> None:
    chk.rule("M10", "the final state contains every operation of the last step that acts before "
             "it is measured: in each stepper the pre-measurement control of the last step lies "
             "on every path to the final record - the loop leaves through a break placed after "
             "that control in its last iteration, and cannot run out of steps between the last "
             "propagation and the final record (event classification of C18 O2)", floor=6)
    from rules import c18
    c18.final_step_controls(prog, chk, "M10")


def run(prog: Program, chk: Check) -> None:
    chk.explanation = (
        "Claims C03 IN PART: structural necessary conditions of 'contracting any process tensor "
        "gives the joint evolution'. M1 sibling agreement of all five consumers of a PT-MPO "
        "tensor on the leg-role table (past bond, future bond, system in, system out) and the "
        "rank-3 delta expansion; M2 one convention for applying system superoperators and caps; "
        "M3 the input guards (dimension, dt, shortest PT bounds num_steps, no initial tensor); "
        "M4 the list position of a process tensor only selects its own bond leg / cap / MPO; "
        "M5 no getter of a process tensor serves a memoised tensor that a setter has outdated. "
        "A consumer that deviates from the table computes wrong states for every non-trivial "
        "process tensor.")
    chk.not_decided = ("Exactness against an independently simulated joint evolution, "
                       "equivalence of two baths with one bath of summed spectral density, and "
                       "errors of a convention shared by producer and all consumers (invisible to "
                       "a cross-check between consumers).")
    chk.assumptions = ["tensornetwork: `a[i] ^ b[j]` connects axis i of a with axis j of b",
                       "leg-role vocabulary of the local names (bond / sys / phys / cap / trace_in "
                       "/ trace_out) confirmed by reading the five consumers"]
    chk.call(m1, prog, chk)
    chk.call(m2, prog, chk)
    chk.call(m3, prog, chk)
    chk.call(m4, prog, chk)
    chk.call(m5, prog, chk)
    chk.call(m6, prog, chk)
    chk.call(m7, prog, chk)
    chk.call(m8, prog, chk)
    chk.call(m9, prog, chk)
    chk.call(m10, prog, chk)
    from rules.c16 import storage_layout
    chk.call(storage_layout, prog, chk, "M11")
    from rules.c16 import read_only_getters
    chk.call(read_only_getters, prog, chk, "M12")
