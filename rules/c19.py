"""C19 - no background activity is left behind (DESIGN section 2, C19).

P1 enter/exit pairing of every progress object on all paths (exceptional
   edges included), P2 who may start threads/timers/processes, P3 typestate
   of the self re-arming timer, P4 progress protocol.
"""
from __future__ import annotations

import ast
from typing import Dict, List, Optional, Set, Tuple

from oqv.astutil import call_name, method_call
from oqv.cfg import CFG
from oqv.dataflow import DefUse
from oqv.model import AnalysisError, Program, Unit, dotted, norm, walk_local
from oqv.report import Check

STARTERS = {
    "threading.Thread", "threading.Timer", "_thread.start_new_thread",
    "concurrent.futures.ThreadPoolExecutor", "concurrent.futures.ProcessPoolExecutor",
    "concurrent.futures.thread.ThreadPoolExecutor",
    "concurrent.futures.process.ProcessPoolExecutor",
    "multiprocessing.Process", "multiprocessing.Pool", "multiprocessing.pool.Pool",
    "multiprocessing.pool.ThreadPool", "multiprocessing.dummy.Pool",
    "subprocess.Popen", "subprocess.run", "subprocess.call", "subprocess.check_call",
    "subprocess.check_output", "os.fork", "os.system", "os.popen", "os.spawnl",
    "os.spawnv", "os.posix_spawn", "asyncio.run", "asyncio.create_task",
    "asyncio.ensure_future", "asyncio.new_event_loop", "asyncio.get_event_loop",
    "signal.setitimer", "signal.alarm", "sched.scheduler",
}
LOCK_CTORS = {"threading.Lock", "threading.RLock"}


def resolve_call(mod, c: ast.Call) -> Optional[str]:
    d = dotted(c.func)
    if d is None:
        return None
    head, _, rest = d.partition(".")
    tgt = mod.imports.get(head)
    if tgt is None:
        return d
    return tgt + ("." + rest if rest else "")


def progress_classes(prog: Program):
    util = prog.module("util")
    base = prog.cls("util:BaseProgress")
    return base, prog.subclasses(base, strict=True)


# --------------------------------------------------------------------- P1
def _is_get_progress(mod, c: ast.AST) -> bool:
    return isinstance(c, ast.Call) and resolve_call(mod, c) in (
        "oqupy.util.get_progress", "oqupy.util.util.get_progress") or (
        isinstance(c, ast.Call) and (dotted(c.func) or "").endswith("get_progress")
        and resolve_call(mod, c) is not None and "util" in resolve_call(mod, c))


def p1(prog: Program, chk: Check) -> None:
    chk.rule("P1", "every progress object is a `with` context expression, or every CFG path "
             "(exceptional edges included) from <obj>.enter() to any function exit passes "
             "<obj>.exit() on the same object", floor=11)
    base, subs = progress_classes(prog)
    prog_class_names = {c.name for c in subs} | {base.name}
    for u in list(prog.units.values()):
        if u.module.short == "util" and u.cls in prog_class_names:
            continue
        if isinstance(u.node, ast.Lambda):
            continue
        ctor_calls: List[ast.Call] = []
        du: Optional[DefUse] = None
        local_calls = [x for st in u.body for x in walk_local(st) if isinstance(x, ast.Call)]
        cand = []
        for c in local_calls:
            if isinstance(c.func, ast.Call) and _is_get_progress(u.module, c.func):
                cand.append(c)
            elif isinstance(c.func, ast.Name):
                if c.func.id in prog_class_names and \
                        (u.module.imports.get(c.func.id, "").startswith("oqupy.util")
                         or u.module.short == "util"):
                    cand.append(c)
                else:
                    cand.append(("maybe", c))
        if not cand and not any(_is_get_progress(u.module, c) for c in local_calls):
            continue
        du = DefUse(u)
        chk.saw(u, du.cfg)
        for item in cand:
            if isinstance(item, tuple):
                c = item[1]
                nid = du.node_of(c)
                if nid is None:
                    continue
                ds = du.reaching(nid, c.func.id)
                if ds and all(d.value is not None and _is_get_progress(u.module, d.value)
                              and not d.sel for d in ds):
                    ctor_calls.append(c)
            else:
                ctor_calls.append(item)
        for k, c in enumerate(sorted(ctor_calls, key=lambda x: (x.lineno, x.col_offset))):
            _p1_object(prog, chk, u, du, c, k)


def _title_of(du: DefUse, c: ast.Call) -> str:
    if len(c.args) >= 2:
        t = c.args[1]
        if isinstance(t, ast.Constant) and isinstance(t.value, str):
            return t.value
        if isinstance(t, ast.Name):
            nid = du.node_of(c)
            d = du.unique_value(nid, t.id) if nid is not None else None
            if d and isinstance(d.value, ast.Constant) and isinstance(d.value.value, str):
                return d.value.value
    return ""


def _p1_object(prog, chk, u: Unit, du: DefUse, ctor: ast.Call, k: int) -> None:
    g = du.cfg
    title = _title_of(du, ctor)
    label = f"progress object {title!r}" if title else f"progress object #{k}"
    # role of the constructor call
    nid = du.node_of(ctor)
    if nid is None:
        raise AnalysisError(f"P1: constructor of {label} in {u.qual} not found in CFG")
    n = g.nodes[nid]
    if n.kind == "with_enter" and n.ast.context_expr is ctor:
        chk.add("P1", u, label, True, "context-managed (`with`)", ctor)
        return
    if not (n.kind == "stmt" and isinstance(n.ast, ast.Assign) and n.ast.value is ctor
            and len(n.ast.targets) == 1 and isinstance(n.ast.targets[0], ast.Name)):
        raise AnalysisError(
            f"P1: progress object at {u.loc(ctor)} is neither a `with` context expression "
            f"nor bound to a local name - outside the enumerated idioms")
    var = n.ast.targets[0].id
    mydef = [d for d in du.gen.get(nid, []) if d.name == var][0]
    enters, exits = [], set()
    for (un, name_node) in du.uses(mydef):
        node = g.nodes[un]
        # classify the use
        ok_use = False
        for x in node.walk():
            mc = method_call(x)
            if mc and mc[0] == var and x.func.value is name_node:
                ok_use = True
                if mc[1] == "enter":
                    enters.append(un)
                elif mc[1] in ("exit", "__exit__"):
                    if {d.id for d in du.reaching(un, var)} == {mydef.id}:
                        exits.add(un)
                elif mc[1] != "update":
                    ok_use = False
        if node.kind == "with_enter" and node.ast.context_expr is name_node:
            ok_use = True
        if not ok_use:
            raise AnalysisError(
                f"P1: progress object `{var}` escapes at {u.loc(name_node)} "
                f"({node.text()}) - cannot follow it")
    if not enters:
        chk.add("P1", u, label, True, "never entered explicitly", ctor, nontrivial=False)
        return
    bad_path = None
    for en in sorted(set(enters)):
        starts = [b for (b, l) in g.succ[en] if l != "e"]
        starts = [s for s in starts if s not in exits]
        path = g.find_path(starts, lambda x: x in (g.exit, g.raise_exit),
                           blocked=lambda x: x in exits)
        if path is not None:
            bad_path = [en] + path
            break
    if bad_path is None:
        chk.add("P1", u, label, True,
                f"{len(set(enters))} enter() site(s), exit() on every path", ctor)
    else:
        chk.add("P1", u, label, False,
                f"`{var}.enter()` can reach a function exit without `{var}.exit()` "
                f"(the timer of progress type 'bar' keeps re-arming itself)",
                g.nodes[bad_path[0]].ast,
                path=_compress(g.describe_path(bad_path, u.loc)))


def _compress(lines: List[str], keep: int = 6) -> List[str]:
    if len(lines) <= 2 * keep:
        return lines
    return lines[:keep] + [f"... ({len(lines) - 2 * keep} nodes) ..."] + lines[-keep:]


# --------------------------------------------------------------------- P2
def p2(prog: Program, chk: Check) -> Dict[str, List[Tuple[Unit, ast.Call]]]:
    chk.rule("P2", "the only thread/timer/process creations in the package are the progress "
             "timer (governed by P3) and context-managed executors", floor=3)
    base, subs = progress_classes(prog)
    prog_class_names = {c.name for c in subs}
    timers: Dict[str, List[Tuple[Unit, ast.Call]]] = {}
    for u in prog.units.values():
        if isinstance(u.node, ast.Lambda):
            continue
        for st in u.body:
            for c in walk_local(st):
                if not isinstance(c, ast.Call):
                    continue
                r = resolve_call(u.module, c)
                if r not in STARTERS:
                    continue
                chk.saw(u)
                construct = f"{r}(...)"
                if r == "threading.Timer" and u.module.short == "util" \
                        and u.cls in prog_class_names:
                    timers.setdefault(u.cls, []).append((u, c))
                    chk.add("P2", u, construct, True, "progress timer, governed by P3", c)
                    continue
                chain = _with_items_enclosing(u, c)
                if chain == "ctx":
                    chk.add("P2", u, construct, True, "context-managed (`with`)", c)
                elif _bound_and_managed(u, c):
                    chk.add("P2", u, construct, True,
                            "bound to a name that is entered as a `with` context (or shut down) "
                            "on every path", c)
                else:
                    chk.add("P2", u, construct, False,
                            "creates background activity that is not context-managed", c)
    # module-level starters
    for m in prog.modules.values():
        for st in m.tree.body:
            if isinstance(st, (ast.FunctionDef, ast.ClassDef, ast.AsyncFunctionDef)):
                continue
            for c in walk_local(st):
                if isinstance(c, ast.Call) and resolve_call(m, c) in STARTERS:
                    chk.add("P2", m, f"{resolve_call(m, c)}(...)", False,
                            "module-level creation of background activity", c)
    return timers


def _bound_and_managed(u: Unit, c: ast.Call) -> bool:
    """`name = Starter(...)` followed on every path (exceptional edges included) by
    `with name:` or `name.shutdown()/join()`."""
    du = DefUse(u)
    g = du.cfg
    nid = du.node_of(c)
    if nid is None:
        return False
    n = g.nodes[nid]
    if not (n.kind == "stmt" and isinstance(n.ast, ast.Assign) and n.ast.value is c
            and len(n.ast.targets) == 1 and isinstance(n.ast.targets[0], ast.Name)):
        return False
    name = n.ast.targets[0].id
    closers = set()
    for m in g.nodes:
        if m.kind == "with_enter" and isinstance(m.ast.context_expr, ast.Name) \
                and m.ast.context_expr.id == name:
            closers.add(m.id)
        for x in m.calls():
            if method_call(x) in ((name, "shutdown"), (name, "join"), (name, "close"),
                                  (name, "terminate")):
                closers.add(m.id)
    if not closers:
        return False
    starts = [b for (b, l) in g.succ[nid] if l != "e" and b not in closers]
    p = g.find_path(starts, lambda x: x in (g.exit, g.raise_exit), blocked=lambda x: x in closers)
    return p is None


def _with_items_enclosing(u: Unit, c: ast.Call) -> str:
    for x in walk_local(u.node):
        if isinstance(x, (ast.With, ast.AsyncWith)):
            for it in x.items:
                if it.context_expr is c:
                    return "ctx"
    return ""


# --------------------------------------------------------------------- P3
def _enclosing_withs(u: Unit, target: ast.AST) -> List[ast.With]:
    out = []

    def rec(n, stack):
        if n is target:
            out.extend(stack)
            return True
        for ch in ast.iter_child_nodes(n):
            if isinstance(n, (ast.With, ast.AsyncWith)) and ch in n.body:
                if rec(ch, stack + [n]):
                    return True
            else:
                if rec(ch, stack):
                    return True
        return False
    rec(u.node, [])
    return out


def _under_lock(u: Unit, target: ast.AST, lock: str) -> bool:
    for w in _enclosing_withs(u, target):
        for it in w.items:
            if dotted(it.context_expr) == f"self.{lock}":
                return True
    return False


def p3(prog: Program, chk: Check, timers) -> None:
    chk.rule("P3", "in a class whose Timer target re-arms a Timer: one lock attribute guards "
             "every write/start/cancel of the timer field; the re-arming method tests a stop "
             "flag inside the locked region before arming; exit() sets that flag inside the "
             "locked region before cancelling", floor=3)
    if not timers:
        raise AnalysisError("P3: no progress class creates a Timer any more - anchor vanished")
    for cname, sites in timers.items():
        ci = prog.cls(f"util:{cname}")
        # which methods create timers, and their targets
        creators: Dict[str, List[ast.Call]] = {}
        for (u, c) in sites:
            creators.setdefault(u.name, []).append(c)

        def calls_self_methods(meth: str, seen: Set[str]) -> Set[str]:
            if meth in seen:
                return seen
            seen.add(meth)
            mu = prog.find_method(ci, meth)
            if mu is None:
                return seen
            for x in walk_local(mu.node):
                mc = method_call(x)
                if mc and mc[0] == "self":
                    calls_self_methods(mc[1], seen)
            return seen

        rearming: List[Tuple[Unit, ast.Call]] = []
        for (u, c) in sites:
            if len(c.args) < 2:
                continue
            tgt = dotted(c.args[1])
            if tgt and tgt.startswith("self."):
                reach = calls_self_methods(tgt[5:], set())
                if reach & set(creators):
                    rearming.append((u, c))
        if not rearming:
            chk.add("P3", prog.find_method(ci, "enter") or sites[0][0], f"{cname}: timer targets",
                    True, "no timer target arms a timer again", nontrivial=False)
            continue
        # timer fields
        fields: Set[str] = set()
        for (u, c) in sites:
            for st in walk_local(u.node):
                if isinstance(st, ast.Assign) and st.value is c:
                    for t in st.targets:
                        d = dotted(t)
                        if d and d.startswith("self."):
                            fields.add(d[5:])
        if not fields:
            raise AnalysisError(f"P3: {cname} creates a Timer that is not stored in a field")
        init = ci.methods.get("__init__")
        locks = []
        if init is not None:
            for st in walk_local(init.node):
                if isinstance(st, ast.Assign) and isinstance(st.value, ast.Call) and \
                        resolve_call(init.module, st.value) in LOCK_CTORS:
                    for t in st.targets:
                        d = dotted(t)
                        if d and d.startswith("self."):
                            locks.append(d[5:])
        anchor = init or sites[0][0]
        if len(locks) != 1:
            chk.add("P3", anchor, f"{cname}: lock attribute guarding {sorted(fields)}", False,
                    f"{len(locks)} lock attribute(s) created in __init__; the timer callback "
                    f"and exit() race: the callback passes cancel(), exit() runs, the callback "
                    f"arms a new timer that nobody cancels")
            lock = locks[0] if locks else None
        else:
            lock = locks[0]
            chk.add("P3", anchor, f"{cname}: lock attribute guarding {sorted(fields)}", True,
                    f"self.{lock}")
        # (i) every store/start/cancel on the field under the lock
        for mname, mu in ci.methods.items():
            for st in walk_local(mu.node):
                site = None
                if isinstance(st, ast.Assign):
                    for t in st.targets:
                        d = dotted(t)
                        if d and d.startswith("self.") and d[5:] in fields \
                                and not (isinstance(st.value, ast.Constant)
                                         and st.value.value is None and mname == "__init__"):
                            site = (st, f"store self.{d[5:]}")
                elif isinstance(st, ast.Call):
                    mc = method_call(st)
                    if mc and mc[0].startswith("self.") and mc[0][5:] in fields \
                            and mc[1] in ("start", "cancel"):
                        site = (st, f"self.{mc[0][5:]}.{mc[1]}()")
                if site is None:
                    continue
                ok = lock is not None and _under_lock(mu, site[0], lock)
                chk.add("P3", mu, f"{site[1]} under lock", ok,
                        "" if ok else "timer field accessed outside the locked region",
                        site[0])
        # flag: constant bool stored in exit() under the lock
        exit_u = ci.methods.get("exit")
        if exit_u is None:
            raise AnalysisError(f"P3: {cname} has no exit()")
        flag, stop_val = None, None
        cancel_nodes = []
        for st in walk_local(exit_u.node):
            if isinstance(st, ast.Assign) and isinstance(st.value, ast.Constant) \
                    and isinstance(st.value.value, bool) and lock and \
                    _under_lock(exit_u, st, lock):
                for t in st.targets:
                    d = dotted(t)
                    if d and d.startswith("self."):
                        flag, stop_val = d[5:], st.value.value
        # (iii) flag store precedes cancel in exit()
        g = CFG(exit_u.node)
        chk.saw(exit_u, g)
        flag_nodes = {n.id for n in g.nodes if n.kind == "stmt" and isinstance(n.ast, ast.Assign)
                      and flag and any(dotted(t) == f"self.{flag}" for t in n.ast.targets)}
        cancel_ids = {n.id for n in g.nodes
                      if any((method_call(c) or ("", ""))[1] == "cancel" and
                             (method_call(c) or ("", ""))[0][5:] in fields for c in n.calls())}
        if not cancel_ids:
            chk.add("P3", exit_u, "exit(): cancels the timer", False, "no cancel() of the timer field")
        else:
            if flag is None:
                chk.add("P3", exit_u, "exit(): stop flag set before cancel", False,
                        "exit() sets no stop flag inside a locked region, so a callback that is "
                        "already running re-arms the timer after exit()")
            else:
                path = g.find_path([g.entry], lambda x: x in cancel_ids,
                                   blocked=lambda x: x in flag_nodes)
                chk.add("P3", exit_u, "exit(): stop flag set before cancel", path is None,
                        f"flag self.{flag} = {stop_val}" if path is None else
                        "a path reaches cancel() without setting the stop flag")
        # (ii) re-arming methods test the flag before arming
        for (u, c) in rearming:
            g2 = CFG(u.node)
            chk.saw(u, g2)
            arm = [n.id for n in g2.nodes if any(x is c for x in n.walk())]
            if flag is None or lock is None:
                chk.add("P3", u, f"{u.name}(): arming guarded by stop flag", False,
                        "no stop flag / lock exists", c)
                continue
            lock_enters = [n.id for n in g2.nodes if n.kind == "with_enter"
                           and dotted(n.ast.context_expr) == f"self.{lock}"]

            def safe_edge(a, b, l):
                na = g2.nodes[a]
                if na.kind != "test":
                    return True
                t = na.ast
                neg = False
                while isinstance(t, ast.UnaryOp) and isinstance(t.op, ast.Not):
                    neg = not neg
                    t = t.operand
                if dotted(t) != f"self.{flag}":
                    return True
                truthy_branch = (l == "t") != neg   # branch on which flag is truthy
                flag_value_on_edge = truthy_branch
                # an edge on which flag == stop value must not lead to arming
                return flag_value_on_edge == stop_val
            # paths that use only edges compatible with "flag == stop value"
            starts = lock_enters or [g2.entry]
            reach_all = True
            path = g2.find_path(starts, lambda x: x in arm, edge_ok=lambda a, b, l:
                                _compatible_with_stop(g2, a, l, flag, stop_val))
            under = _under_lock(u, c, lock)
            # (iv) the armed timer is cancelled before a new one is stored
            arm_store = [n.id for n in g2.nodes if n.kind == "stmt" and isinstance(n.ast, ast.Assign)
                         and n.ast.value is c]
            cancels = {n.id for n in g2.nodes
                       if any((method_call(x) or ("", ""))[1] == "cancel" and
                              (method_call(x) or ("", ""))[0][5:] in fields for x in n.calls())}
            pc = g2.find_path([g2.entry], lambda x: x in arm_store, blocked=lambda x: x in cancels)
            chk.add("P3", u, f"{u.name}(): previous timer cancelled before a new one is armed",
                    pc is None and bool(arm_store),
                    "" if pc is None else
                    "a new timer is stored while the previous one may still be armed: the old "
                    "timer fires later and re-arms without ever being cancelled", c)
            ok = path is None and under
            chk.add("P3", u, f"{u.name}(): arming guarded by stop flag", ok,
                    f"arming is unreachable while self.{flag} == {stop_val}" if ok else
                    "the timer can be re-armed although the stop flag is set "
                    "(or arming is outside the locked region)", c,
                    path=None if ok or path is None else g2.describe_path(path, u.loc))


def _compatible_with_stop(g: CFG, a: int, label: str, flag: str, stop_val: bool) -> bool:
    """Can edge (a,label) be taken while flag == stop_val?"""
    na = g.nodes[a]
    if na.kind != "test" or label not in ("t", "f"):
        return True
    t = na.ast
    neg = False
    while isinstance(t, ast.UnaryOp) and isinstance(t.op, ast.Not):
        neg = not neg
        t = t.operand
    if dotted(t) != f"self.{flag}":
        return True
    flag_truthy_on_edge = (label == "t") != neg
    return flag_truthy_on_edge == bool(stop_val)


# --------------------------------------------------------------------- P4
def p4(prog: Program, chk: Check, timers) -> None:
    chk.rule("P4", "BaseProgress.__exit__ calls exit() on every path; every PROGRESS_DICT value "
             "implements enter/exit/update; exit() reaches the timer cancel before anything "
             "else that can raise; the default PROGRESS_TYPE is registered", floor=6)
    base, subs = progress_classes(prog)
    ex = base.methods.get("__exit__")
    if ex is None:
        raise AnalysisError("P4: BaseProgress.__exit__ vanished")
    g = CFG(ex.node)
    chk.saw(ex, g)
    exit_calls = {n.id for n in g.nodes
                  if any(method_call(c) == ("self", "exit") for c in n.calls())}
    path = g.find_path([g.entry], lambda x: x in (g.exit, g.raise_exit),
                       blocked=lambda x: x in exit_calls)
    chk.add("P4", ex, "__exit__ -> self.exit()", path is None,
            "" if path is None else "a path through __exit__ skips self.exit()",
            path=None if path is None else g.describe_path(path, ex.loc))
    en = base.methods.get("__enter__")
    if en is None:
        raise AnalysisError("P4: BaseProgress.__enter__ vanished")
    has = any(method_call(c) == ("self", "enter") for c in walk_local(en.node)
              if isinstance(c, ast.Call))
    chk.add("P4", en, "__enter__ -> self.enter()", has)

    util = prog.module("util")
    table = None
    for st in util.tree.body:
        if isinstance(st, ast.Assign) and any(dotted(t) == "PROGRESS_DICT" for t in st.targets) \
                and isinstance(st.value, ast.Dict):
            table = st.value
    if table is None:
        raise AnalysisError("P4: PROGRESS_DICT literal vanished")
    keys = []
    for k, v in zip(table.keys, table.values):
        if not (isinstance(k, ast.Constant) and isinstance(v, ast.Name)):
            raise AnalysisError("P4: PROGRESS_DICT entry is not `str: ClassName`")
        keys.append(k.value)
        ci = prog.classes.get(f"util:{v.id}")
        if ci is None:
            raise AnalysisError(f"P4: PROGRESS_DICT value {v.id} is not a class in util")
        in_hierarchy = any(c is base for c in prog.mro(ci))
        missing = []
        for meth in ("enter", "exit", "update"):
            mu = prog.find_method(ci, meth)
            if mu is None or prog.class_of_unit(mu) is base:
                missing.append(meth)
        chk.add("P4", util, f"PROGRESS_DICT[{k.value!r}] = {v.id}",
                in_hierarchy and not missing,
                "" if (in_hierarchy and not missing) else
                f"not a BaseProgress subclass or missing {missing}", v, function=v.id)
    cfgm = prog.module("config")
    default = None
    for st in cfgm.tree.body:
        if isinstance(st, ast.Assign) and any(dotted(t) == "PROGRESS_TYPE" for t in st.targets):
            default = st.value
    if not isinstance(default, ast.Constant):
        raise AnalysisError("P4: config.PROGRESS_TYPE is not a constant")
    chk.add("P4", cfgm, f"PROGRESS_TYPE = {default.value!r}", default.value in keys,
            "" if default.value in keys else "default progress type is not registered", default)

    # exit() of classes with timers: cancel first
    for cname in timers:
        ci = prog.cls(f"util:{cname}")
        eu = ci.methods.get("exit")
        g = CFG(eu.node)
        chk.saw(eu, g)
        cancel_ids = {n.id for n in g.nodes
                      if any((method_call(c) or ("", ""))[1] == "cancel" for c in n.calls())}

        tfields = set()
        for (tu, tc) in timers[cname]:
            for st in walk_local(tu.node):
                if isinstance(st, ast.Assign) and st.value is tc:
                    tfields |= {dotted(t) for t in st.targets if dotted(t)}

        def benign(a, b, l):
            na = g.nodes[a]
            if na.kind == "test" and l in ("t", "f"):
                # the branch on which no timer exists carries no obligation
                t = na.ast
                if isinstance(t, ast.Compare) and len(t.ops) == 1 and \
                        dotted(t.left) in tfields and \
                        isinstance(t.comparators[0], ast.Constant) and \
                        t.comparators[0].value is None:
                    none_branch = "t" if isinstance(t.ops[0], ast.Is) else \
                        ("f" if isinstance(t.ops[0], ast.IsNot) else None)
                    if l == none_branch:
                        return False
            if l != "e":
                return True
            if na.kind in ("with_enter", "with_exit"):
                return False        # acquiring the lock
            if na.kind == "test":
                return False        # `if self._timer is not None`
            if na.kind == "stmt" and isinstance(na.ast, ast.Assign) and \
                    isinstance(na.ast.value, ast.Constant):
                return False        # flag store
            if na.kind == "stmt" and isinstance(na.ast, ast.Expr) and \
                    isinstance(na.ast.value, ast.Constant):
                return False
            return True
        path = g.find_path([g.entry], lambda x: x == g.raise_exit,
                           blocked=lambda x: x in cancel_ids, edge_ok=benign)
        chk.add("P4", eu, f"{cname}.exit(): cancel before anything that can raise",
                path is None and bool(cancel_ids),
                "" if path is None and cancel_ids else
                "exit() can raise before the timer is cancelled",
                path=None if path is None else g.describe_path(path, eu.loc))


def p5(prog: Program, chk: Check, timers) -> None:
    chk.rule("P5", "the `with` statement calls __exit__ only if __enter__ has returned: in enter() "
             "of a class that starts a timer, starting it is the last thing that can raise - no "
             "call, print or format follows Timer.start() before the return (exceptional edges "
             "of the CFG); otherwise an exception raised after the start leaves the timer armed "
             "with nobody to cancel it", floor=1)
    if not timers:
        raise AnalysisError("P5: no progress class creates a Timer any more - anchor vanished")
    for cname in timers:
        ci = prog.cls(f"util:{cname}")
        en = ci.methods.get("enter")
        if en is None:
            raise AnalysisError(f"P5: {cname}.enter vanished")
        g = CFG(en.node)
        chk.saw(en, g)
        starts = [n.id for n in g.nodes if not n.copy_of and any(
            (method_call(c) or ("", ""))[1] == "start" for c in n.calls())]
        if not starts:
            chk.add("P5", en, f"{cname}.enter() starts no timer", True,
                    "nothing to leave behind")
            continue

        def risky(a, b, l):
            if l != "e":
                return True
            na = g.nodes[a]
            if a in starts:
                return False            # start() itself failing leaves no running timer
            if na.kind in ("with_enter", "with_exit", "test"):
                return False            # releasing the lock / testing a flag
            if na.kind == "stmt" and isinstance(na.ast, (ast.Assign, ast.Return)) and \
                    not any(isinstance(x, ast.Call) for x in ast.walk(na.ast)):
                return False            # plain stores and `return self`
            return True
        bad = None
        for s_ in starts:
            nxt = [b for (b, l) in g.succ[s_] if l != "e"]
            pth = g.find_path(nxt, lambda x: x == g.raise_exit, edge_ok=risky)
            if pth is not None:
                bad = [s_] + pth
                break
        chk.add("P5", en, f"{cname}.enter(): nothing that can raise after Timer.start()",
                bad is None,
                "" if bad is None else
                "after the timer has been started enter() can still raise: the `with` statement "
                "then never runs __exit__, exit() never cancels the timer, and it keeps firing "
                "(and re-arming itself) after the call has failed",
                path=None if bad is None else g.describe_path(bad, en.loc)[:8])


def run(prog: Program, chk: Check) -> None:
    chk.explanation = (
        "Decides C19 structurally: a thread can outlive a call only if something started it "
        "and some exit path does not stop it. P1 pairs enter()/exit() of every progress object "
        "on every CFG path incl. exceptional edges; P2 enumerates every construct that can "
        "start a thread/timer/process; P3 checks the lock+stop-flag typestate of the "
        "self re-arming progress timer; P4 checks the context-manager protocol and registry.")
    chk.not_decided = ("Nothing of the property's structural content; behaviour of the Python "
                       "threading library itself is trusted.")
    chk.assumptions = [
        "threading.Timer.cancel() prevents a not-yet-started callback; a callback already "
        "running is excluded by the lock (frozen table, DESIGN 0.3)",
        "`with` runs __exit__ on every exit of its body",
        "Executor used as context manager joins its workers on exit",
    ]
    chk.call(p1, prog, chk)
    timers = p2(prog, chk)
    chk.call(p3, prog, chk, timers)
    chk.call(p4, prog, chk, timers)
    chk.call(p5, prog, chk, timers)
