"""C20 - results depend only on current inputs.

A1 stale memoisation, A2 closures that outlive a shallow copy, A3 captured
constructor locals, A4 layout-independent in-place reshape, A5 no write to
caller data, A6 shared mutable defaults.
"""
from __future__ import annotations

import ast
from typing import Dict, List, Optional, Set, Tuple

from oqv import abseval as ae
from oqv.astutil import branch_context, call_name, method_call
from oqv.cfg import CFG
from oqv.dataflow import DefUse, Def, expand
from oqv.model import AnalysisError, ClassInfo, Program, Unit, dotted, norm, walk_local, kw_of
from oqv.report import Check


# ------------------------------------------------------------ shared helpers
def _resolve(mod, c: ast.Call) -> Optional[str]:
    d = dotted(c.func)
    if d is None:
        return None
    head, _, rest = d.partition(".")
    tgt = mod.imports.get(head)
    return (tgt + ("." + rest if rest else "")) if tgt else d


def _self_reads(node: ast.AST) -> Set[str]:
    """self.<attr> loads anywhere below node (nested closures included)."""
    out = set()
    for x in ast.walk(node):
        if isinstance(x, ast.Attribute) and isinstance(x.value, ast.Name) \
                and x.value.id == "self" and isinstance(x.ctx, ast.Load):
            out.add(x.attr)
    return out


def _family(prog: Program, ci: ClassInfo) -> List[ClassInfo]:
    fam = {c.qual: c for c in prog.mro(ci)}
    for c in prog.subclasses(ci):
        fam[c.qual] = c
        for b in prog.mro(c):
            fam.setdefault(b.qual, b)
    return list(fam.values())


def _closure_attrs(prog: Program, fam: List[ClassInfo]) -> Dict[str, List[Tuple[ClassInfo, ast.AST]]]:
    """attr -> closures (lambda / nested def) stored on self in any __init__ of the family,
    directly or through a local passed to super().__init__ and stored there."""
    out: Dict[str, List[Tuple[ClassInfo, ast.AST]]] = {}
    for c in fam:
        init = c.methods.get("__init__")
        if init is None:
            continue
        local_closures: Dict[str, ast.AST] = {}
        for st in walk_local(init.node):
            if isinstance(st, ast.Assign) and isinstance(st.value, ast.Lambda):
                for t in st.targets:
                    d = dotted(t)
                    if d and d.startswith("self."):
                        out.setdefault(d[5:], []).append((c, st.value))
                    elif isinstance(t, ast.Name):
                        local_closures[t.id] = st.value
            elif isinstance(st, ast.FunctionDef) and st is not init.node:
                local_closures[st.name] = st
        # locals stored later / passed to super().__init__
        for st in walk_local(init.node):
            if isinstance(st, ast.Assign) and isinstance(st.value, ast.Name) \
                    and st.value.id in local_closures:
                for t in st.targets:
                    d = dotted(t)
                    if d and d.startswith("self."):
                        out.setdefault(d[5:], []).append((c, local_closures[st.value.id]))
            if isinstance(st, ast.Call) and isinstance(st.func, ast.Attribute) \
                    and st.func.attr == "__init__" and isinstance(st.func.value, ast.Call) \
                    and dotted(st.func.value.func) == "super":
                # bind to the parent's parameters
                parents = [p for p in prog.mro(c)[1:] if "__init__" in p.methods]
                if not parents:
                    continue
                pin = parents[0].methods["__init__"]
                params = pin.params[1:]
                bound = {}
                for i, a in enumerate(st.args):
                    if i < len(params):
                        bound[params[i]] = a
                for k in st.keywords:
                    if k.arg:
                        bound[k.arg] = k.value
                for pname, a in bound.items():
                    if isinstance(a, ast.Name) and a.id in local_closures:
                        # which attribute of the parent receives (a value derived from) pname?
                        du = DefUse(pin, CFG(pin.node, exc_edges=False))
                        from oqv.dataflow import depends_on
                        for n in du.cfg.nodes:
                            if n.kind == "stmt" and isinstance(n.ast, ast.Assign):
                                for t in n.ast.targets:
                                    d = dotted(t)
                                    if d and d.startswith("self.") and \
                                            _is_param_or_wrapper(du, n.id, n.ast.value, pname):
                                        out.setdefault(d[5:], []).append((c, local_closures[a.id]))
    return out


def _is_param_or_wrapper(du: DefUse, nid: int, v: ast.AST, pname: str, depth: int = 0) -> bool:
    """v is the parameter itself, a wrapper call on it (np.vectorize(p)), or a
    local name defined that way."""
    if depth > 3:
        return False
    if isinstance(v, ast.Name):
        if v.id == pname:
            return True
        ds = du.reaching(nid, v.id)
        return bool(ds) and all(d.value is not None and not d.sel and
                                _is_param_or_wrapper(du, d.node, d.value, pname, depth + 1)
                                for d in ds)
    if isinstance(v, ast.Call) and not isinstance(v.func, ast.Lambda):
        return any(isinstance(a, ast.Name) and a.id == pname for a in v.args)
    return False


def _public_attrs(prog: Program, fam: List[ClassInfo]) -> Set[str]:
    pub = set()
    for c in fam:
        for mname, mu in c.methods.items():
            if mname.endswith(".setter"):
                pub.add(mname.split(".")[0])
        init = c.methods.get("__init__")
        if init is None:
            continue
        for st in walk_local(init.node):
            tg = st.targets if isinstance(st, ast.Assign) else \
                ([st.target] if isinstance(st, ast.AnnAssign) else [])
            for t in tg:
                for el in (t.elts if isinstance(t, (ast.Tuple, ast.List)) else [t]):
                    d = dotted(el)
                    if d and d.startswith("self.") and not d[5:].startswith("_") \
                            and d.count(".") == 1:
                        pub.add(d[5:])
    # attributes handled by BaseAPIClass properties (name/description) are inputs of no memo
    return pub


def _equality_gaps(fam, closures, state_reads):
    """functools caches key `self` by __hash__ / __eq__.  Identity (the default) is a complete
    key; a class of the family that defines value equality makes two objects share entries, so
    the equality must cover everything the memoised method reads.
    [(class, attributes compared, attributes read but not compared, method names)]"""
    out = []
    method_names = {m_ for c2 in fam for m_ in c2.methods}
    for c in fam:
        eq = [c.methods[m_] for m_ in ("__eq__", "__hash__") if m_ in c.methods]
        if not eq:
            continue
        covered: Set[str] = set()
        work2 = list(eq)
        seen2: Set[str] = set()
        while work2:
            eu_ = work2.pop()
            if eu_.qual in seen2:
                continue
            seen2.add(eu_.qual)
            for a_ in _self_reads(eu_.node):
                covered.add(a_)
            for x in ast.walk(eu_.node):          # self._parameters(), other._parameters()
                if isinstance(x, ast.Attribute) and isinstance(x.value, ast.Name):
                    for c2 in fam:
                        if x.attr in c2.methods and c2.methods[x.attr].qual not in seen2:
                            work2.append(c2.methods[x.attr])
        # closures stored on self are derived values: what they read is in state_reads too
        uncovered = sorted(a_ for a_ in state_reads if a_ not in covered
                           and a_ not in method_names and a_ not in closures
                           and not a_.startswith("__"))
        out.append((c, covered, uncovered, method_names))
    return out


def _equality_text(c, covered, uncovered, method_names) -> str:
    if not uncovered:
        return f"equality covers everything the method reads ({sorted(covered)[:6]})"
    return (f"{c.name} compares / hashes by {sorted(a_ for a_ in covered if a_ not in method_names)} "
            f"but the memoised method also reads {uncovered}: two objects that agree in the "
            f"compared attributes and differ in {uncovered[0]} are the same cache key - the second "
            f"one is served the first one's results")


def memoised_state_reads(prog: Program):
    """[(class, method name, unit, family, closures, state reads)] for every lru_cache'd method."""
    out = []
    for ci in prog.classes.values():
        for mname, mu in ci.methods.items():
            if not any(k in norm(d) for d in mu.node.decorator_list
                       for k in ("lru_cache", "functools.cache", "cached_property", "memoize",
                                 "cache(")) and \
                    not any(norm(d) == "cache" for d in mu.node.decorator_list):
                continue
            fam = _family(prog, ci)
            closures = _closure_attrs(prog, fam)
            reads: Set[str] = set()
            seen: Set[Tuple[str, str]] = set()
            work = [("m", mname)]
            while work:
                kind, name = work.pop()
                if (kind, name) in seen:
                    continue
                seen.add((kind, name))
                bodies: List[ast.AST] = []
                if kind == "m":
                    for c in fam:
                        if name in c.methods:
                            bodies.append(c.methods[name].node)
                else:
                    bodies += [cl for (_, cl) in closures.get(name, [])]
                for b in bodies:
                    for a in _self_reads(b):
                        reads.add(a)
                        if any(a in c.methods for c in fam):
                            work.append(("m", a))
                        if a in closures:
                            work.append(("c", a))
            state_reads = {a for a in reads if not any(a in c.methods and
                                                       not any("property" in norm(d) for d in
                                                               c.methods[a].node.decorator_list)
                                                       for c in fam)}
            out.append((ci, mname, mu, fam, closures, state_reads))
    return out


def cache_equality_findings(prog: Program, modules: Optional[Set[str]] = None):
    """[(unit, construct, ok, detail)]: lru_cache'd methods of classes whose family defines
    value equality."""
    out = []
    for (ci, mname, mu, fam, closures, state_reads) in memoised_state_reads(prog):
        if modules is not None and ci.module.short not in modules:
            continue
        for (c, covered, uncovered, method_names) in _equality_gaps(fam, closures, state_reads):
            out.append((mu, f"lru_cache on {ci.name}.{mname} vs value equality of {c.name}",
                        not uncovered, _equality_text(c, covered, uncovered, method_names)))
    return out


# --------------------------------------------------------------------- A1
def a1(prog: Program, chk: Check) -> None:
    chk.rule("A1", "a method memoised with lru_cache (key = self identity + arguments) must not "
             "read, transitively through self methods and closures stored on self, an attribute "
             "that is publicly writable: changing it leaves stale results in the cache "
             "(hand-written memos are covered by A7, whose positive example keeps both alive)",
             floor=0)
    n = 0
    for ci in prog.classes.values():
        for mname, mu in ci.methods.items():
            if not any(k in norm(d) for d in mu.node.decorator_list
                       for k in ("lru_cache", "functools.cache", "cached_property", "memoize",
                                 "cache(")) and \
                    not any(norm(d) == "cache" for d in mu.node.decorator_list):
                continue
            n += 1
            fam = _family(prog, ci)
            closures = _closure_attrs(prog, fam)
            public = _public_attrs(prog, fam)
            reads: Set[str] = set()
            seen: Set[str] = set()
            work = [("m", mname)]
            while work:
                kind, name = work.pop()
                if (kind, name) in seen:
                    continue
                seen.add((kind, name))
                bodies: List[ast.AST] = []
                if kind == "m":
                    for c in fam:
                        if name in c.methods:
                            bodies.append(c.methods[name].node)
                else:
                    bodies += [cl for (_, cl) in closures.get(name, [])]
                for b in bodies:
                    for a in _self_reads(b):
                        reads.add(a)
                        if any(a in c.methods for c in fam):
                            work.append(("m", a))
                        if a in closures:
                            work.append(("c", a))
            # a read of a method name is a call, not state
            state_reads = {a for a in reads if not any(a in c.methods and
                                                       not any("property" in norm(d) for d in
                                                               c.methods[a].node.decorator_list)
                                                       for c in fam)}
            stale = sorted(state_reads & public)
            # private state that another method of the family rewrites or mutates in place
            # (without clearing this cache) is as writable as a public attribute
            mutated: Dict[str, str] = {}
            for c in fam:
                for wname, wu in c.methods.items():
                    if wname in ("__init__", "__new__") or wname == mname:
                        continue
                    if any(isinstance(x, ast.Call) and isinstance(x.func, ast.Attribute)
                           and x.func.attr == "cache_clear" and mname in norm(x.func.value)
                           for x in walk_local(wu.node)):
                        continue
                    for w in _self_writes(wu.node):
                        mutated.setdefault(w[5:], f"{c.name}.{wname}")
            hit = sorted(a for a in state_reads if a in mutated and a not in stale)
            if hit:
                chk.saw(mu)
                chk.add("A1", mu, f"lru_cache reads {hit}, rewritten by {mutated[hit[0]]}", False,
                        f"{mutated[hit[0]]}() changes self.{hit[0]} after results computed from it "
                        f"were memoised under (self, arguments): the object answers according to "
                        f"its history, an equal freshly built one does not",
                        function=f"{ci.name}.{mname}")
            for (c, covered, uncovered, method_names) in _equality_gaps(fam, closures, state_reads):
                chk.saw(mu)
                chk.add("A1", mu, f"lru_cache on {ci.name}.{mname} vs value equality of {c.name}",
                        not uncovered, _equality_text(c, covered, uncovered, method_names),
                        function=f"{ci.name}.{mname}")
            construct = f"lru_cache reads public attributes {stale}" if stale else \
                "lru_cache reads only private, setter-less attributes"
            chk.saw(mu)
            chk.add("A1", mu, construct, not stale,
                    f"reads {sorted(state_reads)}" if not stale else
                    f"after assigning a new value to {stale} the memoised results are stale: "
                    f"e.g. correlation() follows the new value, the cached 2D integrals do not",
                    function=f"{ci.name}.{mname}")
    chk.extra["a1_memoised_methods"] = n


# --------------------------------------------------------------------- A7
def _a7_unit(u: Unit):
    """[(store stmt, attr, key expr, covered, missing)] for hand-written memos in u:
    a dict attribute that is looked up (`.get(K)`, `[K]`, `K in`) and stored
    (`self.A[K] = V`) in the same function, which returns the cached / stored value."""
    from oqv.dataflow import depends_on
    out = []
    stores = []
    for st in walk_local(u.node):
        if isinstance(st, ast.Assign) and isinstance(st.targets[0], ast.Subscript):
            base = st.targets[0].value
            while isinstance(base, ast.Subscript):
                base = base.value
            d = dotted(base)
            if d and d.startswith("self.") and d.count(".") == 1:
                stores.append((st, d))
    if not stores:
        return out
    du = DefUse(u, CFG(u.node, exc_edges=False))
    params = [p for p in u.params if p not in ("self", "cls")]
    for (st, attr) in stores:
        lookups_ok = False
        lookup_names = set()
        tests = []
        for x in walk_local(u.node):
            if x is st or any(y is x for y in ast.walk(st)):
                continue
            if isinstance(x, ast.Call) and isinstance(x.func, ast.Attribute) and \
                    x.func.attr == "get" and attr == dotted(x.func.value):
                lookups_ok = True
            if isinstance(x, ast.Subscript) and isinstance(x.ctx, ast.Load) and \
                    dotted(x.value) == attr:
                lookups_ok = True
            if isinstance(x, ast.Compare) and any(isinstance(o, (ast.In, ast.NotIn)) for o in x.ops) \
                    and any(dotted(c) == attr for c in x.comparators):
                lookups_ok = True
                tests.append(x)
        if not lookups_ok:
            continue
        for d in du.defs:
            if d.value is not None and not d.sel and attr in norm(d.value) and \
                    not isinstance(d.value, (ast.FunctionDef, ast.Lambda)):
                lookup_names.add(d.name)
        # the function hands the memoised value back
        rets = [x for x in walk_local(u.node) if isinstance(x, ast.Return) and x.value is not None]
        returns_memo = any(attr in norm(r.value) or any(
            isinstance(y, ast.Name) and y.id in lookup_names for y in ast.walk(r.value))
            or norm(r.value) == norm(st.value) for r in rets)
        if not returns_memo:
            continue
        # accumulation (slot' = f(slot)) is not a memo
        if attr in norm(st.value) and not lookup_names:
            continue
        nid = du.node_of(st.value)
        key_expr = st.targets[0].slice
        ctx = branch_context(u.node, st)
        miss_tests = [t for (t, br) in ctx] + tests
        covered = set()
        for p_ in params:
            if depends_on(du, key_expr, nid, {p_}):
                covered.add(p_)
            for t in miss_tests:
                for cmp_ in ast.walk(t):
                    if isinstance(cmp_, ast.Compare) and not any(
                            isinstance(o, (ast.In, ast.NotIn)) for o in cmp_.ops) and any(
                            isinstance(y, ast.Name) and y.id == p_ for y in ast.walk(cmp_)) \
                            and any(isinstance(y, ast.Name) and y.id in lookup_names
                                    for y in ast.walk(cmp_)):
                        covered.add(p_)
        needed = {p_ for p_ in params if depends_on(du, st.value, nid, {p_})}
        # control dependence: parameters tested on the way to a definition the value uses
        closure_stmts = []
        seen_defs = set()
        work = [(nid, st.value)]
        while work:
            at, e = work.pop()
            for x in ast.walk(e):
                if isinstance(x, ast.Name) and isinstance(x.ctx, ast.Load):
                    for d in du.reaching(at, x.id):
                        if d.id in seen_defs or d.value is None:
                            continue
                        seen_defs.add(d.id)
                        if d.stmt is not None:
                            closure_stmts.append(d.stmt)
                        work.append((d.node, d.value))
        for cs in closure_stmts:
            for (t, br) in branch_context(u.node, cs):
                for y in ast.walk(t):
                    if isinstance(y, ast.Name) and y.id in params:
                        needed.add(y.id)
        # a memo kept on self by a nested function is shared by every closure the enclosing
        # method ever made: the enclosing call's parameters and locals the value is computed
        # from (free variables here) distinguish the closures and must be part of the key
        # (validating them when the closure is made does not help the closures made earlier)
        if u.parent is not None:
            outer: Set[str] = set()
            p_ = u.parent
            while p_ is not None:
                outer |= {x for x in p_.params if x not in ("self", "cls")}
                outer |= {t.id for a_ in walk_local(p_.node) if isinstance(a_, ast.Assign)
                          for t in a_.targets if isinstance(t, ast.Name)}
                p_ = p_.parent
            local_defs = {d.name for d in du.defs}
            for name in sorted(outer - local_defs):
                if depends_on(du, st.value, nid, {name}) and \
                        not depends_on(du, key_expr, nid, {name}):
                    needed.add(f"{name} (of the enclosing call)")
        out.append((st, attr, key_expr, sorted(covered), sorted(needed - covered)))
    return out


MUTATORS = {"append", "extend", "insert", "pop", "remove", "clear", "update", "setdefault",
            "sort", "reverse", "popitem", "fill", "resize"}


def _self_writes(fn: ast.AST) -> Set[str]:
    """self attributes (first level, 'self.X') that fn rebinds or mutates in place."""
    out = set()

    def base_attr(e):
        while isinstance(e, ast.Subscript):
            e = e.value
        d = dotted(e)
        if d and d.startswith("self.") and d.count(".") >= 1:
            return ".".join(d.split(".")[:2])
        return None
    for x in walk_local(fn):
        tgts = []
        if isinstance(x, ast.Assign):
            tgts = list(x.targets)
        elif isinstance(x, (ast.AugAssign, ast.AnnAssign)):
            tgts = [x.target]
        elif isinstance(x, ast.Delete):
            tgts = list(x.targets)
        for t in tgts:
            for el in (t.elts if isinstance(t, (ast.Tuple, ast.List)) else [t]):
                b = base_attr(el)
                if b:
                    out.add(b)
        if isinstance(x, ast.Call) and isinstance(x.func, ast.Attribute) and x.func.attr in MUTATORS:
            b = base_attr(x.func.value)
            if b:
                out.add(b)
    return out


def _memo_state_reads(u: Unit, st: ast.Assign, attr: str) -> Set[str]:
    """self attributes the value stored by `st` is computed from (def-use closure of the
    stored value plus the branch tests on the way to those definitions)."""
    du = DefUse(u, CFG(u.node, exc_edges=False))
    nid = du.node_of(st.value)
    exprs = [st.value]
    seen = set()
    work = [(nid, st.value)]
    while work:
        at, e = work.pop()
        for x in ast.walk(e):
            if isinstance(x, ast.Name) and isinstance(x.ctx, ast.Load):
                for d in du.reaching(at, x.id):
                    if d.id in seen or d.value is None:
                        continue
                    seen.add(d.id)
                    exprs.append(d.value)
                    if d.stmt is not None:
                        for (t, br) in branch_context(u.node, d.stmt):
                            exprs.append(t)
                    work.append((d.node, d.value))
    out = set()
    for e in exprs:
        for x in ast.walk(e):
            d = dotted(x) if isinstance(x, ast.Attribute) else None
            if d and d.startswith("self.") :
                a = ".".join(d.split(".")[:2])
                if a != attr:
                    out.add(a)
    return out


def _a7b_core(u: Unit, methods: List[Unit]):
    out = []
    for (st, attr, key_expr, covered, missing) in _a7_unit(u):
        reads = _memo_state_reads(u, st, attr)
        if not reads:
            continue
        # methods (family-wide) that invalidate the memo, directly or by calling one that does
        invalidates = {mu.qual for mu in methods if attr in _self_writes(mu.node)
                       and mu.qual != u.qual}
        by_name = {}
        for mu in methods:
            by_name.setdefault(mu.name, []).append(mu)
        for mu in methods:
            for c in walk_local(mu.node):
                if isinstance(c, ast.Call) and isinstance(c.func, ast.Attribute) \
                        and dotted(c.func.value) == "self" and any(
                            t.qual in invalidates for t in by_name.get(c.func.attr, [])):
                    invalidates = invalidates | {mu.qual}
        for mu in methods:
            if mu.qual == u.qual or mu.name in ("__init__", "__new__"):
                continue
            hit = sorted(_self_writes(mu.node) & reads)
            if hit and mu.qual not in invalidates:
                out.append((st, attr, mu, hit[0]))
    return out


def _a7b_unit(prog: Program, u: Unit):
    """[(store stmt, memo attr, writer unit, written attr)] : another method of the class
    family rewrites state the memoised value was computed from and leaves the memo alone."""
    ci = prog.class_of_unit(u)
    if ci is None:
        return []
    family = {c.qual: c for c in prog.mro(ci)}
    for c in prog.subclasses(ci):
        family[c.qual] = c
    methods = [mu for c in family.values() for mu in c.methods.values()]
    return _a7b_core(u, methods)


def _a7b_positive(tree: ast.AST, m) -> List[Tuple[str, str]]:
    cls = [x for x in ast.walk(tree) if isinstance(x, ast.ClassDef) and x.name == "Store"]
    if not cls:
        return []
    units = [Unit(f"positive.memo_stale:Store.{f.name}", m, f, "Store", None, f.name)
             for f in cls[0].body if isinstance(f, ast.FunctionDef)]
    target = [x for x in units if x.name == "prepared"][0]
    return [(mu.qual.split(":")[1], w) for (st, attr, mu, w) in _a7b_core(target, units)]


def _attr_chains(e: ast.AST, names: Set[str]) -> Set[str]:
    """`n` or `n.attr...` chains (first two components) rooted at one of `names` inside e."""
    out = set()
    for x in ast.walk(e):
        d = dotted(x) if isinstance(x, (ast.Attribute, ast.Name)) else None
        if d and d.split(".")[0] in names:
            out.add(".".join(d.split(".")[:2]))
    # `n.a` subsumes a bare mention of `n` only if the bare name is not itself used
    bare = {c for c in out if "." not in c}
    for x in ast.walk(e):
        if isinstance(x, ast.Attribute) and isinstance(x.value, ast.Name) and x.value.id in bare:
            pass
    # drop a bare name when every occurrence of it is the root of an attribute chain
    roots_only = set()
    for n in bare:
        occ = [x for x in ast.walk(e) if isinstance(x, ast.Name) and x.id == n]
        attr_roots = [x for x in ast.walk(e) if isinstance(x, ast.Attribute)
                      and isinstance(x.value, ast.Name) and x.value.id == n]
        if occ and len(occ) == len(attr_roots):
            roots_only.add(n)
    return out - roots_only


def _a7_lazy_unit(u: Unit):
    """[(store stmt, attr, missing params)] for a lazily initialised attribute
    (`if self.X is None: self.X = E`) whose value E depends on parameters of the method:
    the first call decides, later calls with other arguments are served the old value."""
    from oqv.dataflow import depends_on
    out = []
    params = [p for p in u.params if p not in ("self", "cls")]
    if not params:
        return out
    du = None
    for st in walk_local(u.node):
        if not (isinstance(st, ast.Assign) and len(st.targets) == 1):
            continue
        attr = dotted(st.targets[0])
        if not (attr and attr.startswith("self.") and attr.count(".") == 1):
            continue
        guarded = False
        for (t, br) in branch_context(u.node, st):
            for c in ast.walk(t):
                if isinstance(c, ast.Compare) and len(c.ops) == 1 and dotted(c.left) == attr \
                        and isinstance(c.comparators[0], ast.Constant) \
                        and c.comparators[0].value is None \
                        and isinstance(c.ops[0], (ast.Is, ast.Eq)) == br:
                    guarded = True
        if not guarded:
            continue
        if du is None:
            du = DefUse(u, CFG(u.node, exc_edges=False))
        nid = du.node_of(st.value)
        needed = sorted(p_ for p_ in params if depends_on(du, st.value, nid, {p_}))
        # a validity test that compares a stored copy of the parameter would cover it
        covered = set()
        for (t, br) in branch_context(u.node, st):
            for c in ast.walk(t):
                if isinstance(c, ast.Compare) and dotted(c.left) != attr:
                    for p_ in params:
                        if any(isinstance(y, ast.Name) and y.id == p_ for y in ast.walk(c)) and \
                                any(isinstance(y, ast.Attribute) and (dotted(y) or "").startswith("self.")
                                    for y in ast.walk(c)):
                            covered.add(p_)
        missing = [p_ for p_ in needed if p_ not in covered]
        # a memo serves the stored value: the attribute is read after it has been set (an
        # attribute that is only recorded, or only passed to a validator beforehand, is not one)
        g = du.cfg
        read_after = g.find_path(
            [b_ for b_, _ in g.succ[nid]],
            lambda x: any(isinstance(y, ast.Attribute) and isinstance(y.ctx, ast.Load)
                          and dotted(y) == attr for y in g.nodes[x].walk())) is not None
        if needed and read_after:
            out.append((st, attr, missing))
    return out


def _a7_closure_unit(prog: Program, u: Unit):
    """[(store stmt, description, missing chains)] for a memo kept in a container that a
    closure reaches through a local of the enclosing method:

        c = self.A.setdefault(K, {})          # or self.A[K]
        def f(k): ... c[k] = V ... return c[k]

    The entry is identified by (K, k).  V may depend on parameters of f and on variables of
    the enclosing method; a key component `obj.attr` identifies only that attribute of `obj`,
    not the object."""
    out = []
    if u.parent is None or isinstance(u.node, ast.Lambda):
        return out
    outer = u.parent
    # locals of the enclosing method bound to a slot of a self attribute
    slots = {}
    for st in walk_local(outer.node):
        if isinstance(st, ast.Assign) and len(st.targets) == 1 and isinstance(st.targets[0], ast.Name):
            v = st.value
            key = None
            if isinstance(v, ast.Call) and isinstance(v.func, ast.Attribute) \
                    and v.func.attr in ("setdefault", "get") and v.args \
                    and (dotted(v.func.value) or "").startswith("self."):
                key, base = v.args[0], dotted(v.func.value)
            elif isinstance(v, ast.Subscript) and (dotted(v.value) or "").startswith("self."):
                key, base = v.slice, dotted(v.value)
            if key is not None:
                slots[st.targets[0].id] = (base, key)
    if not slots:
        return out
    outer_names = set(outer.params) | {t.id for st in walk_local(outer.node)
                                      if isinstance(st, ast.Assign) for t in st.targets
                                      if isinstance(t, ast.Name)}
    outer_names -= {"self"}
    f_params = set(u.params)
    du = DefUse(u, CFG(u.node, exc_edges=False))
    for st in walk_local(u.node):
        if not (isinstance(st, ast.Assign) and len(st.targets) == 1
                and isinstance(st.targets[0], ast.Subscript)
                and isinstance(st.targets[0].value, ast.Name)
                and st.targets[0].value.id in slots):
            continue
        cname = st.targets[0].value.id
        base, outer_key = slots[cname]
        inner_key = st.targets[0].slice
        looked_up = any(isinstance(x, ast.Compare) and any(isinstance(o, (ast.In, ast.NotIn))
                                                           for o in x.ops)
                        and any(dotted(c) == cname for c in x.comparators)
                        for x in walk_local(u.node))
        if not looked_up:
            continue
        names = (outer_names | f_params) - {cname}
        # close the stored value over the outer method's locals (tmp = f(bath...) etc.)
        exprs = [st.value]
        seen = set()
        work = [y.id for y in ast.walk(st.value) if isinstance(y, ast.Name)]
        while work:
            n = work.pop()
            if n in seen:
                continue
            seen.add(n)
            for st2 in walk_local(outer.node):
                if isinstance(st2, ast.Assign) and any(isinstance(t, ast.Name) and t.id == n
                                                       for t in st2.targets):
                    exprs.append(st2.value)
                    work += [y.id for y in ast.walk(st2.value) if isinstance(y, ast.Name)]
            # a sibling closure of the enclosing method that the stored value calls: what it
            # reads from the enclosing call is read by the stored value too
            for fn2 in ast.walk(outer.node):
                if isinstance(fn2, ast.FunctionDef) and fn2.name == n and fn2 is not u.node \
                        and fn2 is not outer.node:
                    own = {a.arg for a in fn2.args.args}
                    for b in fn2.body:
                        for y in ast.walk(b):
                            if isinstance(y, ast.expr) and not isinstance(y, (ast.Name, ast.Constant)):
                                pass
                        exprs.append(b if isinstance(b, ast.expr) else ast.Tuple(
                            elts=[y for y in ast.walk(b) if isinstance(y, ast.Name)
                                  and isinstance(y.ctx, ast.Load) and y.id not in own], ctx=ast.Load()))
                        work += [y.id for y in ast.walk(b) if isinstance(y, ast.Name)
                                 and isinstance(y.ctx, ast.Load) and y.id not in own]
        needed = set()
        for e in exprs:
            needed |= _attr_chains(e, (set(outer.params) | f_params) - {"self"})
        covered = _attr_chains(outer_key, set(outer.params) - {"self"}) | \
            _attr_chains(inner_key, f_params)
        missing = sorted(c for c in needed
                         if c not in covered and c.split(".")[0] not in covered)
        out.append((st, f"{base}[{norm(outer_key)}][{norm(inner_key)}]", missing))
    return out


def slot_memos(u: Unit):
    """Single-slot memos: `self.X = (k1, .., v)` stored, `return self.X[j]` served under a
    comparison of other components `self.X[i] == <expr>`.
    [(store stmt, attr, value index j, {component index: compared expression})]"""
    out = []
    stores = [st for st in walk_local(u.node) if isinstance(st, ast.Assign)
              and len(st.targets) == 1 and (dotted(st.targets[0]) or "").startswith("self.")
              and dotted(st.targets[0]).count(".") == 1 and isinstance(st.value, ast.Tuple)
              and len(st.value.elts) >= 2]
    for st in stores:
        attr = dotted(st.targets[0])
        for r in [x for x in walk_local(u.node) if isinstance(x, ast.Return) and x.value is not None]:
            v = r.value
            if not (isinstance(v, ast.Subscript) and dotted(v.value) == attr):
                continue
            j_ = _small_int(v.slice)
            if j_ is None:
                continue
            j_ = j_ % len(st.value.elts)
            compared: Dict[int, ast.AST] = {}
            for (t, br) in branch_context(u.node, r):
                if not br:
                    continue
                for c in ast.walk(t):
                    if isinstance(c, ast.Compare) and len(c.ops) == 1 and isinstance(c.ops[0], (ast.Eq, ast.Is)):
                        for a_, b_ in ((c.left, c.comparators[0]), (c.comparators[0], c.left)):
                            if isinstance(a_, ast.Subscript) and dotted(a_.value) == attr \
                                    and _small_int(a_.slice) is not None:
                                compared[_small_int(a_.slice) % len(st.value.elts)] = b_
                            elif isinstance(a_, ast.Subscript) and dotted(a_.value) == attr \
                                    and isinstance(a_.slice, ast.Slice) and isinstance(b_, ast.Tuple):
                                for i_, e_ in enumerate(b_.elts):
                                    compared[i_] = e_
            if compared:
                out.append((st, attr, j_, compared, r))
    return out


def _small_int(e: ast.AST) -> Optional[int]:
    if isinstance(e, ast.Constant) and isinstance(e.value, int) and not isinstance(e.value, bool):
        return e.value
    if isinstance(e, ast.UnaryOp) and isinstance(e.op, ast.USub) and isinstance(e.operand, ast.Constant) \
            and isinstance(e.operand.value, int):
        return -e.operand.value
    return None


def _a7_slot_unit(u: Unit):
    """[(store stmt, attr, covered, missing)] for single-slot memos of u."""
    from oqv.dataflow import depends_on
    found = slot_memos(u)
    if not found:
        return []
    du = DefUse(u, CFG(u.node, exc_edges=False))
    params = [p for p in u.params if p not in ("self", "cls")]
    out = []
    seen = set()
    for (st, attr, j, compared, r) in found:
        if id(st) in seen or j >= len(st.value.elts):
            continue
        seen.add(id(st))
        nid = du.node_of(st)
        value = st.value.elts[j]
        covered = set()
        for i_, e_ in compared.items():
            # the stored component i must be what it is later compared with
            for p_ in params:
                if i_ < len(st.value.elts) and depends_on(du, st.value.elts[i_], nid, {p_}) \
                        and any(isinstance(y, ast.Name) and y.id == p_ for y in ast.walk(e_)):
                    covered.add(p_)
        needed = {p_ for p_ in params if depends_on(du, value, nid, {p_})}
        # control dependence: parameters tested on the way to the definitions the value uses
        work, seen_defs = [(nid, value)], set()
        while work:
            at, e = work.pop()
            for x in ast.walk(e):
                if isinstance(x, ast.Name) and isinstance(x.ctx, ast.Load):
                    for d in du.reaching(at, x.id):
                        if d.id in seen_defs or d.value is None:
                            continue
                        seen_defs.add(d.id)
                        if d.stmt is not None:
                            for (t, br) in branch_context(u.node, d.stmt):
                                for y in ast.walk(t):
                                    if isinstance(y, ast.Name) and y.id in params:
                                        needed.add(y.id)
                        work.append((d.node, d.value))
        out.append((st, attr, sorted(covered), sorted(needed - covered)))
    return out


def _a7_validated_unit(prog: Program, u: Unit):
    """Validated single-value caches:

        key = <expr over locals>
        if key != self._key:            # (or `==` with the work in the else arm)
            self._value = E
            self._key = key
        ... self._value ...

    E may depend only on what the key compares: every local name E reads must be a component
    of the key, or be computed from such components and from attributes that nobody rewrites
    after construction.  [(store stmt of the value, value attr, key attr, missing names)]"""
    out = []
    if u.cls is None:
        return out
    ci = prog.class_of_unit(u)
    if ci is None:
        return out
    fam = _family(prog, ci)
    rewritten = set()
    for c in fam:
        for mname, mu in c.methods.items():
            if mname in ("__init__", "__new__"):
                continue
            rewritten |= _self_writes(mu.node)
    du = None
    for x in walk_local(u.node):
        if not (isinstance(x, ast.If) and isinstance(x.test, ast.Compare) and len(x.test.ops) == 1
                and isinstance(x.test.ops[0], (ast.NotEq, ast.Eq, ast.Is, ast.IsNot))):
            continue
        sides = [x.test.left, x.test.comparators[0]]
        attr_side = [s_ for s_ in sides if (dotted(s_) or "").startswith("self.")
                     and (dotted(s_) or "").count(".") == 1]
        if len(attr_side) != 1:
            continue
        key_attr = dotted(attr_side[0])
        key_expr = [s_ for s_ in sides if s_ is not attr_side[0]][0]
        differ = x.body if isinstance(x.test.ops[0], (ast.NotEq, ast.IsNot)) else x.orelse
        stores = [st for b in differ for st in ast.walk(b) if isinstance(st, ast.Assign)
                  and len(st.targets) == 1 and (dotted(st.targets[0]) or "").startswith("self.")]
        key_store = [st for st in stores if dotted(st.targets[0]) == key_attr
                     and norm(st.value) == norm(key_expr)]
        val_stores = [st for st in stores if dotted(st.targets[0]) != key_attr]
        if not key_store or not val_stores:
            continue
        if du is None:
            du = DefUse(u, CFG(u.node, exc_edges=False))
        nid_k = du.node_of(x.test)
        # components of the key: the names the compared expression is made of
        comp = set()
        kx = key_expr
        if isinstance(kx, ast.Name):
            d = du.unique_value(nid_k, kx.id)
            if d is not None and d.value is not None and not d.sel:
                kx = d.value
        for y in ast.walk(kx):
            if isinstance(y, ast.Name) and isinstance(y.ctx, ast.Load):
                comp.add(y.id)
            elif isinstance(y, ast.Attribute) and (dotted(y) or "").startswith("self."):
                comp.add(dotted(y))

        def covered(name_or_attr, at, depth=0) -> bool:
            if name_or_attr in comp:
                return True
            if name_or_attr.startswith("self."):
                return ".".join(name_or_attr.split(".")[:2]) not in rewritten
            if depth > 5:
                return False
            ds = du.reaching(at, name_or_attr)
            if not ds:
                return True            # global / builtin
            for d in ds:
                if d.value is None or d.sel and d.sel[0][0] == "param":
                    return False
                for y in ast.walk(d.value):
                    if isinstance(y, ast.Name) and isinstance(y.ctx, ast.Load) and y.id != name_or_attr \
                            and y.id not in ("self", "cls"):
                        if not covered(y.id, d.node, depth + 1):
                            return False
                    elif isinstance(y, ast.Attribute) and (dotted(y) or "").startswith("self."):
                        if not covered(dotted(y), d.node, depth + 1):
                            return False
            return True
        for st in val_stores:
            nid = du.node_of(st)
            bound_here = set()
            for y in ast.walk(st.value):
                if isinstance(y, (ast.ListComp, ast.GeneratorExp, ast.SetComp, ast.DictComp)):
                    for g_ in y.generators:
                        for t_ in ast.walk(g_.target):
                            if isinstance(t_, ast.Name):
                                bound_here.add(t_.id)
            missing = []
            for y in ast.walk(st.value):
                if isinstance(y, ast.Name) and isinstance(y.ctx, ast.Load) and y.id not in bound_here \
                        and y.id not in ("self", "cls"):
                    if not covered(y.id, nid):
                        missing.append(y.id)
                elif isinstance(y, ast.Attribute) and (dotted(y) or "").startswith("self.") \
                        and dotted(y).count(".") == 1:
                    if not covered(dotted(y), nid):
                        missing.append(dotted(y))
            out.append((st, dotted(st.targets[0]), key_attr, sorted(set(missing))))
    return out


def memo_findings(prog: Program, units):
    """All memo idioms found in `units`: [(unit, node, construct, missing list)] - dict memos
    (key completeness), lazily initialised attributes, memos reached through a closure."""
    out = []
    for u in units:
        if isinstance(u.node, ast.Lambda):
            continue
        for (st, attr, key_expr, covered, missing) in _a7_unit(u):
            out.append((u, st, f"memo {attr}[{norm(key_expr)}] <- {norm(st.value)[:40]}", missing))
        if u.cls is not None and u.parent is None:
            for (st, attr, missing) in _a7_lazy_unit(u):
                out.append((u, st, f"lazy {attr} <- {norm(st.value)[:50]}", missing))
        for (st, desc, missing) in _a7_closure_unit(prog, u):
            out.append((u, st, f"memo {desc} <- {norm(st.value)[:40]}", missing))
        for (st, attr, covered, missing) in _a7_slot_unit(u):
            out.append((u, st, f"single-slot memo {attr} <- {norm(st.value)[:40]} (compared on "
                               f"{covered})", missing))
        for (st, attr, key_attr, missing) in _a7_validated_unit(prog, u):
            out.append((u, st, f"cache {attr} <- {norm(st.value)[:40]} validated by {key_attr}",
                        missing))
    return out


def guarded_caches(prog: Program):
    """[(guard unit, cache attr, mutator unit, written source attr)] for the idiom

        def m(self, ..):
            if self.X is not None:      # already computed
                return
            ... computes self.X (here or in helper methods) from other attributes S ...

    where another method of the class family writes an attribute of S and neither resets X
    nor calls a method that does: the next call of m serves the value of the old state."""
    out = []
    seen_guard = 0
    for ci in prog.classes.values():
        fam = {c.qual: c for c in prog.mro(ci)}
        methods = {}
        for c in fam.values():
            for n, mu in c.methods.items():
                methods.setdefault(n, mu)
        for mname, mu in ci.methods.items():
            guard_attr = None
            for st in mu.node.body[:4]:
                if isinstance(st, ast.If) and not st.orelse and len(st.body) == 1 \
                        and isinstance(st.body[0], ast.Return) \
                        and (st.body[0].value is None or dotted(st.body[0].value) is not None):
                    t = st.test
                    if isinstance(t, ast.Compare) and len(t.ops) == 1 \
                            and isinstance(t.ops[0], ast.IsNot) \
                            and isinstance(t.comparators[0], ast.Constant) \
                            and t.comparators[0].value is None \
                            and (dotted(t.left) or "").startswith("self.") \
                            and (dotted(t.left) or "").count(".") == 1:
                        guard_attr = dotted(t.left)
            if guard_attr is None:
                continue
            # producers: this method and the self-methods it calls (two levels)
            producers = [mu]
            frontier = [mu]
            for _ in range(2):
                nxt = []
                for pu in frontier:
                    for c in walk_local(pu.node):
                        if isinstance(c, ast.Call) and isinstance(c.func, ast.Attribute) \
                                and dotted(c.func.value) == "self" and c.func.attr in methods \
                                and methods[c.func.attr] not in producers:
                            producers.append(methods[c.func.attr])
                            nxt.append(methods[c.func.attr])
                frontier = nxt
            derived = set()
            for pu in producers:
                derived |= _self_writes(pu.node)
            if guard_attr not in derived:
                continue                     # not a cache of something computed here
            seen_guard += 1
            reads = set()
            for pu in producers:
                for x in walk_local(pu.node):
                    if isinstance(x, ast.Attribute) and isinstance(x.ctx, ast.Load):
                        d = dotted(x) or ""
                        if d.startswith("self.") and d.count(".") >= 1:
                            reads.add(".".join(d.split(".")[:2]))
            sources = reads - derived
            resetters = {n for n, m2 in methods.items() if guard_attr in _self_writes(m2.node)
                         and m2 not in producers}
            all_methods = [m2 for c in list(fam.values()) + prog.subclasses(ci)
                           for m2 in c.methods.values()]
            for m2 in all_methods:
                if m2 in producers or m2.name in ("__init__", "__new__") or m2.name in resetters:
                    continue
                hit = sorted(_self_writes(m2.node) & sources)
                if not hit:
                    continue
                calls_reset = any(isinstance(c, ast.Call) and isinstance(c.func, ast.Attribute)
                                  and dotted(c.func.value) == "self" and c.func.attr in resetters
                                  for c in walk_local(m2.node))
                if not calls_reset:
                    out.append((mu, guard_attr, m2, hit[0]))
    return out, seen_guard


def a7(prog: Program, chk: Check) -> None:
    chk.rule("A7", "a hand-written memo (look-up in a dict attribute, recompute-and-store on a "
             "miss, value returned) must key or validate the entry by every parameter the stored "
             "value depends on (expected count on the pinned tree: 0; a positive example under "
             "selftest/positive must be reported on every run)", floor=1)
    # the rule must still recognise the idiom: positive example
    import os
    from oqv.model import Module
    here = os.path.dirname(os.path.dirname(os.path.abspath(__file__)))
    ex = os.path.join(here, "selftest", "positive", "memo_stale.py")
    with open(ex) as fh:
        src = fh.read()
    tree = ast.parse(src)
    m = Module("positive.memo_stale", "positive.memo_stale", "selftest/positive/memo_stale.py",
               tree, src)
    fn = [x for x in ast.walk(tree) if isinstance(x, ast.FunctionDef) and x.name == "grid"][0]
    pu = Unit("positive.memo_stale:Sampler.grid", m, fn, "Sampler", None, "grid")
    hits = _a7_unit(pu)
    if not (len(hits) == 1 and hits[0][4] == ["start_time"]):
        raise AnalysisError("A7: the positive example selftest/positive/memo_stale.py is no longer "
                            "reported - the rule has gone blind")
    chk.add("A7", m, "positive example: memo keyed by kind, validated by dt, value depends on "
            "start_time", True, "reported as expected (rule is alive)", function="Sampler.grid")
    n = 0
    for u in prog.units.values():
        if isinstance(u.node, ast.Lambda) or u.cls is None:
            continue
        for (st, attr, key_expr, covered, missing) in _a7_unit(u):
            n += 1
            chk.saw(u)
            chk.add("A7", u, f"memo {attr}[{norm(key_expr)}] <- {norm(st.value)[:50]}", not missing,
                    f"entry keyed / validated by {covered}" if not missing else
                    f"the stored value depends on {missing}, which is neither part of the key nor "
                    f"checked on look-up: a later call with a different {missing[0]} gets the "
                    f"stale entry", st)
    for u in prog.units.values():
        if isinstance(u.node, ast.Lambda):
            continue
        if u.cls is not None and u.parent is None:
            for (st, attr, missing) in _a7_lazy_unit(u):
                n += 1
                chk.saw(u)
                chk.add("A7", u, f"lazy {attr} <- {norm(st.value)[:50]}", not missing,
                        "value validated against its arguments" if not missing else
                        f"{attr} is computed once from {missing} and then reused: a later call "
                        f"with a different {missing[0]} is served the first value", st)
        for (st, attr, key_attr, missing) in _a7_validated_unit(prog, u):
            n += 1
            chk.saw(u)
            chk.add("A7", u, f"cache {attr} <- {norm(st.value)[:40]} validated by {key_attr}",
                    not missing,
                    "the value is a function of what the key compares" if not missing else
                    f"the cached value also depends on {missing}, which the key does not compare: "
                    f"it is reused although {missing[0]} has changed", st)
        for (st, attr, covered, missing) in _a7_slot_unit(u):
            n += 1
            chk.saw(u)
            chk.add("A7", u, f"single-slot memo {attr} <- {norm(st.value)[:40]}", not missing,
                    f"served only when {covered} agree" if not missing else
                    f"the remembered value depends on {missing}, which is not compared when it is "
                    f"served again: the next call with another {missing[0]} gets the value of the "
                    f"previous call", st)
        for (st, desc, missing) in _a7_closure_unit(prog, u):
            n += 1
            chk.saw(u)
            chk.add("A7", u, f"memo {desc} <- {norm(st.value)[:40]}", not missing,
                    "entry identified by everything the value depends on" if not missing else
                    f"the stored value depends on {missing}, the key does not: two objects that "
                    f"agree in the key but differ there share one entry", st)
    chk.extra["a7_memos_found"] = n
    chk.rule("A7b", "state a hand-written memo was computed from is not rewritten by another "
             "method of the class family unless that method also drops the memo (expected count "
             "on the pinned tree: 0 memos; the positive example must be reported)", floor=1)
    hits2 = _a7b_positive(tree, m)
    if hits2 != [("Store.put", "self._raw")]:
        raise AnalysisError(f"A7b: the positive example is no longer reported ({hits2}) - the "
                            f"rule has gone blind")
    chk.add("A7b", m, "positive example: memo of prepared items, put() rewrites the raw items "
            "without dropping it", True, "reported as expected (rule is alive)",
            function="Store.prepared")
    gc, n_guards = guarded_caches(prog)
    chk.extra["a7b_guarded_caches"] = n_guards
    for (gu, attr, mu, written) in gc:
        chk.saw(gu)
        chk.add("A7b", gu, f"cache {attr} (guarded early return) vs "
                f"{mu.qual.split(':')[1]} writing {written}", False,
                f"{gu.qual.split(':')[1]} returns early when {attr} is set, but "
                f"{mu.qual.split(':')[1]} changes {written}, which it was computed from, without "
                f"resetting it: the next call serves the value of the old state", gu.node)
    for u in prog.units.values():
        if isinstance(u.node, ast.Lambda) or u.cls is None:
            continue
        for (st, attr, mu, written) in _a7b_unit(prog, u):
            chk.saw(u)
            chk.add("A7b", u, f"memo {attr} vs {mu.qual.split(':')[1]} writing {written}", False,
                    f"{mu.qual.split(':')[1]} rewrites {written}, from which the entries of {attr} "
                    f"were computed, and does not drop them: the next look-up returns a value of "
                    f"the old state", st)


# ------------------------------------------------------------------ A2 / A3
def _shallow_copied_classes(prog: Program) -> Dict[str, List[str]]:
    """class qual -> sites where an instance is shallow-copied (copy.copy)."""
    out: Dict[str, List[str]] = {}
    for u in prog.units.values():
        if isinstance(u.node, ast.Lambda):
            continue
        for c in walk_local(u.node):
            if not (isinstance(c, ast.Call) and _resolve(u.module, c) == "copy.copy" and c.args):
                continue
            arg = c.args[0]
            cls = _static_class_of(prog, u, arg, 0)
            if cls is not None:
                out.setdefault(cls.qual, []).append(u.loc(c))
    return out


def _static_class_of(prog: Program, u: Unit, e: ast.AST, depth: int) -> Optional[ClassInfo]:
    if depth > 3:
        return None
    if isinstance(e, ast.Name):
        a = u.node.args
        for p in a.posonlyargs + a.args + a.kwonlyargs:
            if p.arg == e.id and p.annotation is not None:
                for x in ast.walk(p.annotation):
                    if isinstance(x, (ast.Name, ast.Attribute)):
                        ci = prog.resolve_class_name(u.module, dotted(x) or "")
                        if ci is not None:
                            return ci
        return None
    d = dotted(e)
    if d and d.startswith("self.") and d.count(".") == 1:
        ci = prog.class_of_unit(u)
        if ci is None:
            return None
        for (su, st, v, idx) in prog.attr_sources(ci, d[5:]):
            if isinstance(v, ast.Call) and v.args:
                r = _static_class_of(prog, su, v.args[0], depth + 1)
                if r is not None:
                    return r
            r = _static_class_of(prog, su, v, depth + 1)
            if r is not None:
                return r
    return None


def a2_a3(prog: Program, chk: Check) -> None:
    chk.rule("A2", "a class whose instances are shallow-copied in the package must not store on "
             "self a closure that captures self (the copy's closures still refer to the "
             "original object)", floor=2)
    chk.rule("A3", "a closure created in __init__ must not capture a constructor parameter whose "
             "value is also stored as a public attribute (later changes of the attribute are "
             "ignored by the closure)", floor=1)
    copied = _shallow_copied_classes(prog)
    if not copied:
        raise AnalysisError("A2: no shallow copy of a package object found - anchor vanished")
    done = set()
    n3 = 0
    for cq, sites in copied.items():
        base = prog.cls(cq)
        for ci in prog.subclasses(base):
            if ci.qual in done:
                continue
            done.add(ci.qual)
            init = ci.methods.get("__init__")
            closures = _closure_attrs(prog, [ci])
            own = {a: [cl for (c, cl) in v if c is ci] for a, v in closures.items()}
            own = {a: v for a, v in own.items() if v}
            if not own:
                chk.add("A2", init or ci.module, f"{ci.name}: closures stored on self", True,
                        "none", function=f"{ci.name}.__init__", nontrivial=False)
                continue
            for attr, cls_ in sorted(own.items()):
                for cl in cls_:
                    captures_self = any(isinstance(x, ast.Name) and x.id == "self"
                                        for x in ast.walk(cl.body if isinstance(cl, ast.Lambda) else cl))
                    chk.add("A2", init, f"self.{attr} = closure over self" if captures_self
                            else f"self.{attr} = closure", not captures_self,
                            "" if not captures_self else
                            f"instances are shallow-copied at {sites[:2]}; the copy's "
                            f"self.{attr} still reads the ORIGINAL object's attributes "
                            f"({sorted(_self_reads(cl))})", cl, function=f"{ci.name}.__init__")
                    # A3
                    params = set(init.params[1:]) if init else set()
                    free = {x.id for x in ast.walk(cl) if isinstance(x, ast.Name)
                            and isinstance(x.ctx, ast.Load)} & params
                    bound_inside = set()
                    if isinstance(cl, ast.Lambda):
                        bound_inside = {a.arg for a in cl.args.args}
                    free -= bound_inside
                    pub = _public_attrs(prog, [ci])
                    cap = sorted(p for p in free if p in pub)
                    # ... or a constructor local computed from such a parameter
                    # (`f = TABLE[kind]`, captured instead of looked up through self.kind)
                    if init is not None:
                        loc_free = {x.id for x in ast.walk(cl) if isinstance(x, ast.Name)
                                    and isinstance(x.ctx, ast.Load)} - bound_inside - params - {"self"}
                        for st in walk_local(init.node):
                            if isinstance(st, ast.Assign) and len(st.targets) == 1 \
                                    and isinstance(st.targets[0], ast.Name) \
                                    and st.targets[0].id in loc_free:
                                srcs = {y.id for y in ast.walk(st.value) if isinstance(y, ast.Name)
                                        and y.id in params and y.id in pub}
                                # tmp_x = float(x) style input checks store the same value the
                                # attribute gets: the twin is then self.x = tmp_x, also public
                                if srcs and not any(
                                        isinstance(s2, ast.Assign) and isinstance(s2.value, ast.Name)
                                        and s2.value.id == st.targets[0].id
                                        and any((dotted(t) or "").startswith("self.") for t in s2.targets)
                                        for s2 in walk_local(init.node)):
                                    cap += [f"{st.targets[0].id} (from {sorted(srcs)[0]})"]
                        cap = sorted(set(cap))
                    n3 += 1
                    chk.add("A3", init, f"closure self.{attr} captures constructor locals {cap}"
                            if cap else f"closure self.{attr} captures no public-twin local",
                            not cap,
                            "" if not cap else
                            f"the closure uses the constructor argument {cap} although the same "
                            f"value is public as self.{cap[0].split(' (from ')[-1].rstrip(')')}: "
                            f"assigning that attribute later changes __str__ and other readers "
                            f"but not the closure", cl,
                            function=f"{ci.name}.__init__")
    if n3 < 1:
        raise AnalysisError("A3: no closure examined")


# --------------------------------------------------------------------- A4
FRESH_C_CALLS = {"scipy.linalg.expm", "numpy.zeros", "numpy.ones", "numpy.empty", "numpy.identity",
                 "numpy.eye", "numpy.kron", "numpy.outer", "numpy.dot", "numpy.ascontiguousarray"}


def _unit_axes_only(new_shape: ast.AST, arr: str, du: DefUse, nid: int) -> Tuple[bool, str]:
    """New shape only inserts unit axes into the old shape of `arr`."""
    v = new_shape
    if isinstance(v, ast.Call) and dotted(v.func) == "tuple" and len(v.args) == 1:
        v = v.args[0]
    # idiom A: [1]*k + [n]  applied to an array that was reshaped to (n,)
    if isinstance(v, ast.BinOp) and isinstance(v.op, ast.Add):
        parts = []

        def flat(e):
            if isinstance(e, ast.BinOp) and isinstance(e.op, ast.Add):
                flat(e.left)
                flat(e.right)
            else:
                parts.append(e)
        flat(v)
        ones, rest = [], []
        SEQ = (ast.List, ast.Tuple)      # [1]*k + [n] and (1,)*k + (n,) are the same shape
        for p in parts:
            rep = None
            if isinstance(p, ast.BinOp) and isinstance(p.op, ast.Mult):
                rep = p.left if isinstance(p.left, SEQ) else (p.right if isinstance(p.right, SEQ) else None)
            if rep is not None and len(rep.elts) == 1 and \
                    isinstance(rep.elts[0], ast.Constant) and rep.elts[0].value == 1:
                ones.append(p)
            elif isinstance(p, SEQ) and p.elts and all(isinstance(e, ast.Constant) and e.value == 1
                                                       for e in p.elts):
                ones.append(p)
            else:
                rest.append(p)
        if len(rest) == 1 and isinstance(rest[0], SEQ) and len(rest[0].elts) == 1:
            n_expr = norm(expand(du, nid, rest[0].elts[0]))
            ds = du.reaching(nid, arr)
            if ds and all(d.value is not None and isinstance(d.value, ast.Call)
                          and isinstance(d.value.func, ast.Attribute)
                          and d.value.func.attr == "reshape"
                          and len(d.value.args) == 1
                          and norm(expand(du, d.node, d.value.args[0])) == n_expr
                          for d in ds):
                return True, f"1-D array of length {n_expr} gets leading unit axes"
        return False, "shape expression is not [1]*k + [n] of a 1-D array of length n"
    # idiom B: name bound to list(arr.shape) with .insert(i, 1) calls only
    if isinstance(v, ast.Name):
        ds = du.reaching(nid, v.id)
        if len(ds) == 1 and ds[0].value is not None and isinstance(ds[0].value, ast.Call) \
                and dotted(ds[0].value.func) == "list" and \
                norm(ds[0].value.args[0]) == f"{arr}.shape":
            muts = []
            for n in du.cfg.nodes:
                for c in n.calls():
                    mc = method_call(c)
                    if mc and mc[0] == v.id:
                        muts.append(c)
            ok = all(method_call(c)[1] == "insert" and len(c.args) == 2 and
                     isinstance(c.args[1], ast.Constant) and c.args[1].value == 1 for c in muts)
            return ok, "list(arr.shape) with unit axes inserted" if ok else \
                "shape list is modified by something else than insert(i, 1)"
        return False, f"`{v.id}` is not list({arr}.shape)"
    # idiom C: tuple of 1 / shape[i] in increasing order covering all old axes
    if isinstance(v, (ast.Tuple, ast.List)):
        idxs = []
        for e in v.elts:
            if isinstance(e, ast.Constant) and e.value == 1:
                continue
            if isinstance(e, ast.Subscript) and isinstance(e.slice, ast.Constant) \
                    and isinstance(e.value, ast.Name):
                sd = du.reaching(nid, e.value.id)
                src_ok = sd and all(d.value is not None and f"{arr}.shape" in norm(d.value)
                                    for d in sd)
                if not src_ok:
                    return False, f"`{norm(e)}` is not an axis length of {arr}"
                idxs.append(e.slice.value)
            else:
                return False, f"element `{norm(e)}` merges or splits axes"
        return idxs == list(range(len(idxs))), \
            "old axes kept in order, unit axes inserted" if idxs == list(range(len(idxs))) \
            else "axes are permuted"
    return False, "unrecognised shape expression"


def _fresh_c(prog: Program, u: Unit, du: DefUse, nid: int, arr: str) -> Tuple[bool, str]:
    ds = du.reaching(nid, arr)
    if not ds:
        return False, "no definition"
    for d in ds:
        v = d.value
        if not isinstance(v, ast.Call) or d.sel:
            return False, f"defined by `{norm(v) if v is not None else 'parameter'}`"
        r = _resolve(u.module, v) or ""
        r = r.replace("np.", "numpy.")
        if r in ("numpy.array", "numpy.asarray", "numpy.copy"):
            order = kw_of(v).get("order", None)
            if isinstance(order, ast.Constant) and order.value == "C":
                continue
            return False, (f"`{norm(v)}`: numpy's default order 'K' keeps the memory layout of "
                           f"the argument, so a transposed / Fortran-ordered input cannot be "
                           f"reshaped in place (AttributeError)")
        if r in FRESH_C_CALLS or r.endswith(".expm"):
            continue
        return False, f"`{norm(v)}` is not known to return a fresh C-contiguous array"
    return True, "fresh C-contiguous array"


def layout_orders(prog: Program, modules=None):
    """[(unit, call, order)] : ravel / flatten / reshape / np.array(..) calls with an explicit
    order other than 'C' in library code (expected on the pinned tree: none except the
    documented order='C' copies)."""
    out = []
    for u in prog.units.values():
        if isinstance(u.node, ast.Lambda) or (modules and u.module.short not in modules):
            continue
        for c in walk_local(u.node):
            if not isinstance(c, ast.Call):
                continue
            fn = (dotted(c.func) or "").split(".")[-1]
            if fn not in ("ravel", "flatten", "reshape", "array", "asarray", "copy", "astype"):
                continue
            for k in c.keywords:
                if k.arg == "order" and isinstance(k.value, ast.Constant) \
                        and k.value.value in ("K", "A", "F"):
                    out.append((u, c, k.value.value))
            if fn in ("ravel", "flatten") and c.args and isinstance(c.args[-1], ast.Constant) \
                    and c.args[-1].value in ("K", "A", "F"):
                out.append((u, c, c.args[-1].value))
    return out


def a4(prog: Program, chk: Check) -> None:
    chk.rule("A4", "a store to .shape either only inserts unit axes into the old shape or acts "
             "on an array that is provably fresh and C-contiguous", floor=9)
    n = 0
    for u in prog.units.values():
        if isinstance(u.node, ast.Lambda):
            continue
        stores = [st for st in walk_local(u.node) if isinstance(st, ast.Assign)
                  and any(isinstance(t, ast.Attribute) and t.attr == "shape" for t in st.targets)]
        if not stores:
            continue
        du = DefUse(u, CFG(u.node, exc_edges=False))
        chk.saw(u, du.cfg)
        for st in stores:
            t = [t for t in st.targets if isinstance(t, ast.Attribute) and t.attr == "shape"][0]
            arr = dotted(t.value)
            if arr is None:
                raise AnalysisError(f"A4: .shape store on a non-name at {u.loc(st)}")
            nid = du.node_of(st.value)
            n += 1
            ok, why = _unit_axes_only(st.value, arr, du, nid)
            if not ok:
                ok2, why2 = _fresh_c(prog, u, du, nid, arr)
                ok, why = ok2, (why2 if ok2 else f"{why}; and {why2}")
            chk.add("A4", u, f"{arr}.shape = {norm(st.value)}", ok, why, st)
    # layout-dependent flattening: order 'K' / 'A' follow the memory layout, 'F' transposes
    for (u, c, order) in layout_orders(prog):
        chk.saw(u)
        chk.add("A4", u, f"{norm(c)[:60]}", False,
                f"order={order!r} flattens / reshapes in an order that depends on (or differs "
                f"from) the logical C order: a transposed view of the same matrix gives a "
                f"different vector", c)
    if n < 8:
        raise AnalysisError(f"A4: only {n} .shape stores found (floor 8)")


# --------------------------------------------------------------------- A5
VIEW_METHODS = {"reshape", "view", "ravel", "squeeze", "swapaxes", "transpose", "diagonal"}
SAME_OBJECT_FUNCS = {"numpy.asarray", "numpy.asanyarray", "numpy.ascontiguousarray",
                     "numpy.asfortranarray"}
VIEW_FUNCS = {"numpy.reshape", "numpy.swapaxes", "numpy.moveaxis",
              "numpy.squeeze", "numpy.transpose", "numpy.ravel", "numpy.atleast_1d",
              "numpy.atleast_2d", "numpy.expand_dims"}
INPLACE_METHODS = {"sort", "fill", "resize", "put", "itemset", "setfield", "partition",
                   "byteswap"}
META_METHODS = {"setflags"}


_RET_ALIAS: Dict[str, Dict[int, str]] = {}


def _returned_params(prog: Program, callee: Unit) -> Dict[int, str]:
    """tuple position -> parameter name for functions that hand a parameter
    object back unchanged inside their returned tuple (-1: the bare return value)."""
    if callee.qual in _RET_ALIAS:
        return _RET_ALIAS[callee.qual]
    _RET_ALIAS[callee.qual] = {}
    dc = DefUse(callee, CFG(callee.node, exc_edges=False))
    out: Dict[int, str] = {}
    for n in dc.cfg.nodes:
        if not (n.kind == "stmt" and isinstance(n.ast, ast.Return) and n.ast.value is not None):
            continue
        v = n.ast.value
        at = n.id
        if isinstance(v, ast.Name):
            d = dc.unique_value(n.id, v.id)
            if d is not None and d.value is not None and isinstance(d.value, ast.Tuple):
                v, at = d.value, d.node
        elts = list(enumerate(v.elts)) if isinstance(v, ast.Tuple) else [(-1, v)]
        for pos, el in elts:
            if isinstance(el, ast.Name) and el.id in callee.params:
                ds = dc.reaching(at, el.id)
                if ds and all(d.sel == (("param",),) for d in ds):
                    out[pos] = el.id
    _RET_ALIAS[callee.qual] = out
    return out


def _alias_kind(prog: Program, u: Unit, du: DefUse, nid: int, e: ast.AST, params: Set[str],
                depth: int = 0) -> Optional[Tuple[str, str]]:
    """('same'|'view', param) if e may alias caller data of parameter `param`."""
    if depth > 5:
        return None
    if isinstance(e, ast.Name):
        ds = du.reaching(nid, e.id)
        for d in ds:
            if d.sel and d.sel[0][0] == "param":
                if e.id in params:
                    return ("same", e.id)
                continue
            dval, dnode = d.value, d.node
            if isinstance(dval, ast.Name):
                d2 = du.unique_value(d.node, dval.id)
                if d2 is not None and d2.value is not None and not d2.sel:
                    dval, dnode = d2.value, d2.node
            if dval is not None and d.sel and d.sel[0][0] == "idx" and len(d.sel) == 1 \
                    and isinstance(dval, ast.Call):
                d = Def(d.id, dnode, d.name, dval, d.sel, d.stmt)
                callee = _callee_of(prog, u, d.value)
                if callee is not None:
                    rp = _returned_params(prog, callee)
                    pname = rp.get(d.sel[0][1])
                    if pname is not None:
                        cparams = [p for p in callee.params if p not in ("self", "cls")]
                        arg = None
                        if pname in cparams and cparams.index(pname) < len(d.value.args):
                            arg = d.value.args[cparams.index(pname)]
                        for k in d.value.keywords:
                            if k.arg == pname:
                                arg = k.value
                        if arg is not None:
                            r = _alias_kind(prog, u, du, d.node, arg, params, depth + 1)
                            if r is not None:
                                return r
                continue
            if d.value is None or (d.sel and d.sel[0][0] in ("iter", "idx", "with", "exc",
                                                             "def", "import", "aug")):
                continue
            r = _alias_kind(prog, u, du, d.node, d.value, params, depth + 1)
            if r is not None:
                return r
        return None
    if isinstance(e, ast.Attribute) and e.attr == "T":
        r = _alias_kind(prog, u, du, nid, e.value, params, depth + 1)
        return ("view", r[1]) if r else None
    if isinstance(e, ast.Attribute) and dotted(e) and dotted(e).startswith("self.") \
            and dotted(e).count(".") == 1:
        ci_ = prog.class_of_unit(u)
        for c_ in (prog.mro(ci_) if ci_ else []):
            al = _ATTR_ALIAS.get((c_.module.short, c_.name), {}).get(e.attr)
            if al is not None:
                return (al[0], f"{c_.name}.__init__:{al[1]}")
        return None
    if isinstance(e, ast.Subscript):
        r = _alias_kind(prog, u, du, nid, e.value, params, depth + 1)
        return ("view", r[1]) if r else None
    if isinstance(e, ast.Call):
        if isinstance(e.func, ast.Attribute) and e.func.attr in VIEW_METHODS:
            r = _alias_kind(prog, u, du, nid, e.func.value, params, depth + 1)
            return ("view", r[1]) if r else None
        rs = (_resolve(u.module, e) or "").replace("np.", "numpy.")
        if rs in SAME_OBJECT_FUNCS and e.args:
            # np.asarray(x) IS x when no conversion is needed
            return _alias_kind(prog, u, du, nid, e.args[0], params, depth + 1)
        if rs in VIEW_FUNCS and e.args:
            r = _alias_kind(prog, u, du, nid, e.args[0], params, depth + 1)
            return ("view", r[1]) if r else None
        return None
    if isinstance(e, ast.IfExp):
        return _alias_kind(prog, u, du, nid, e.body, params, depth + 1) or \
            _alias_kind(prog, u, du, nid, e.orelse, params, depth + 1)
    return None


_ATTR_ALIAS: Dict[Tuple[str, Optional[str]], Dict[str, Tuple[str, str]]] = {}


def _build_attr_aliases(prog: Program) -> None:
    """self.<attr> that keeps a reference to (or a view of) a constructor argument and is
    never re-bound to a copy in the constructor."""
    _ATTR_ALIAS.clear()
    for ci in prog.classes.values():
        init = ci.methods.get("__init__")
        if init is None:
            continue
        params = {p for p in init.params if p != "self"}
        if not params:
            continue
        du = DefUse(init, CFG(init.node, exc_edges=False))
        table: Dict[str, Tuple[str, str]] = {}
        stores: Dict[str, List[Tuple[int, Optional[Tuple[str, str]]]]] = {}
        for n in du.cfg.nodes:
            if n.kind == "stmt" and isinstance(n.ast, ast.Assign) and not n.copy_of:
                for t in n.ast.targets:
                    d = dotted(t)
                    if d and d.startswith("self.") and d.count(".") == 1:
                        al = _alias_kind(prog, init, du, n.id, n.ast.value, params)
                        stores.setdefault(d[5:], []).append((n.id, al))
        # the attribute aliases the argument if, on some path, an aliasing store is the last
        # store to it (a later re-binding to a copy only helps on the paths it lies on)
        g = du.cfg
        for attr, sts in stores.items():
            ids = {nid for (nid, _) in sts}
            for (nid, al) in sts:
                if al is None:
                    continue
                starts = [b for (b, l) in g.succ[nid] if b not in ids]
                if nid == g.exit or g.find_path(starts, lambda x: x == g.exit,
                                                blocked=lambda x, ids=ids: x in ids) is not None:
                    table[attr] = al
                    break
        # attributes re-bound in other methods to something else are still aliases at first
        if table:
            _ATTR_ALIAS[(ci.module.short, ci.name)] = table


def _writes_in(u: Unit) -> List[Tuple[ast.AST, ast.AST, str]]:
    """(stmt/call node, written base expression, kind 'data'|'meta')."""
    out = []
    for x in walk_local(u.node):
        if isinstance(x, ast.Assign):
            for t in x.targets:
                for el in (t.elts if isinstance(t, (ast.Tuple, ast.List)) else [t]):
                    if isinstance(el, ast.Subscript):
                        out.append((x, el.value, "data"))
                    elif isinstance(el, ast.Attribute) and el.attr in ("shape", "dtype", "strides"):
                        out.append((x, el.value, "meta"))
        elif isinstance(x, ast.AugAssign):
            if isinstance(x.target, ast.Subscript):
                out.append((x, x.target.value, "data"))
            elif isinstance(x.target, ast.Name):
                out.append((x, x.target, "data-aug"))
        elif isinstance(x, ast.Call):
            if isinstance(x.func, ast.Attribute) and x.func.attr in INPLACE_METHODS:
                out.append((x, x.func.value, "data"))
            elif isinstance(x.func, ast.Attribute) and x.func.attr in META_METHODS:
                out.append((x, x.func.value, "meta"))
            for k in x.keywords:
                if k.arg == "out":
                    out.append((x, k.value, "data"))
            fn = dotted(x.func) or ""
            if fn.split(".")[-1] in ("copyto", "put", "place", "putmask", "fill_diagonal") and x.args:
                out.append((x, x.args[0], "data"))
            if fn.split(".")[-1] in ("nan_to_num",) and x.args and any(
                    k.arg == "copy" and isinstance(k.value, ast.Constant) and k.value.value is False
                    for k in x.keywords):
                out.append((x, x.args[0], "data"))
    return out


def _entry_points(prog: Program) -> Set[str]:
    """Qualified names of the public API: functions in oqupy.__all__ and the
    constructors / public methods of classes in oqupy.__all__."""
    init = prog.modules["oqupy"]
    names: List[str] = []
    for st in init.tree.body:
        if isinstance(st, ast.Assign) and any(dotted(t) == "__all__" for t in st.targets) \
                and isinstance(st.value, (ast.List, ast.Tuple)):
            names = [e.value for e in st.value.elts if isinstance(e, ast.Constant)]
    if len(names) < 30:
        raise AnalysisError("A5: oqupy.__all__ not found or shrank below 30 names")
    out: Set[str] = set()
    for nm in names:
        tgt = init.imports.get(nm)
        if not tgt or not tgt.startswith("oqupy."):
            continue
        modname, _, obj = tgt.rpartition(".")
        short = modname[len("oqupy."):] if modname != "oqupy" else ""
        if f"{short}:{obj}" in prog.units:
            out.add(f"{short}:{obj}")
        elif f"{short}:{obj}" in prog.classes:
            ci = prog.classes[f"{short}:{obj}"]
            for c in prog.mro(ci):
                for mname, mu in c.methods.items():
                    if not mname.startswith("_") or mname == "__init__":
                        out.add(mu.qual)
    return out


def _callee_of(prog: Program, u: Unit, c: ast.Call) -> Optional[Unit]:
    fn = dotted(c.func)
    if fn is None:
        return None
    if "." not in fn:
        q = f"{u.module.short}:{fn}"
        if q in prog.units:
            return prog.units[q]
        tgt = u.module.imports.get(fn, "")
        if tgt.startswith("oqupy."):
            modname, _, obj = tgt.rpartition(".")
            return prog.units.get(f"{modname[len('oqupy.'):]}:{obj}")
        return None
    head, _, rest = fn.partition(".")
    if head == "self" and "." not in rest:
        ci = prog.class_of_unit(u)
        return prog.find_method(ci, rest) if ci else None
    tgt = u.module.imports.get(head, "")
    if tgt.startswith("oqupy") and "." not in rest:
        short = tgt[len("oqupy."):] if tgt != "oqupy" else ""
        return prog.units.get(f"{short}:{rest}")
    return None


def a5(prog: Program, chk: Check) -> None:
    chk.rule("A5", "no public entry point (oqupy.__all__: functions, constructors, public "
             "methods) writes in place - directly or through package helpers, transitively - to "
             "an object that is one of its parameters or a view of one (data writes: subscript "
             "store, augmented assignment, sort/fill/resize/put, out=; metadata writes .shape= / "
             "setflags only count on the parameter object itself)", floor=40)
    entry = _entry_points(prog)
    _build_attr_aliases(prog)
    chk.extra["a5_attributes_aliasing_constructor_arguments"] = {
        f"{k[0]}:{k[1]}": {a_: f"{v[0]} of {v[1]}" for a_, v in t.items()}
        for k, t in sorted(_ATTR_ALIAS.items(), key=lambda kv: str(kv[0]))}
    funcs = [u for u in prog.units.values() if not isinstance(u.node, ast.Lambda)]
    dus: Dict[str, DefUse] = {}

    def du_of(u: Unit) -> DefUse:
        if u.qual not in dus:
            dus[u.qual] = DefUse(u, CFG(u.node, exc_edges=False))
        return dus[u.qual]
    # mutated[f][param] = (description, node, guard) ; guard = (flag param, truth) or None
    mutated: Dict[str, Dict[str, Tuple[str, ast.AST, Optional[Tuple[str, bool]]]]] = {}
    n_writes = 0
    for u in funcs:
        params = {p for p in u.params if p not in ("self", "cls")}
        if not params and not u.cls:
            continue
        writes = _writes_in(u)
        if not writes:
            continue
        du = du_of(u)
        for (node, base, kind) in writes:
            probe = node.value if isinstance(node, ast.stmt) and getattr(node, "value", None) \
                is not None else node
            nid = du.node_of(probe)
            if nid is None:
                continue
            n_writes += 1
            al = _alias_kind(prog, u, du, nid, base, params)
            if al is None:
                continue
            if kind == "meta" and al[0] != "same":
                continue
            ctx = list(branch_context(u.node, node))
            for d in du.reaching(nid, dotted(base) or ""):
                # only the definition through which the alias arises carries the guard
                if d.stmt is not None and d.value is not None and \
                        _alias_kind(prog, u, du, d.node, d.value, params) is not None:
                    ctx += branch_context(u.node, d.stmt)
            guard = None
            for (t, br) in ctx:
                if isinstance(t, ast.Name) and t.id in params and t.id != al[1]:
                    guard = (t.id, br)
            mutated.setdefault(u.qual, {}).setdefault(
                al[1], (f"{kind} write to `{norm(base)}` ({al[0]} of `{al[1]}`)", node, guard))
    # propagate through calls (fixpoint)
    changed = True
    rounds = 0
    while changed and rounds < 8:
        changed = False
        rounds += 1
        for u in funcs:
            params = {p for p in u.params if p not in ("self", "cls")}
            if not params:
                continue
            for c in walk_local(u.node):
                if not isinstance(c, ast.Call):
                    continue
                callee = _callee_of(prog, u, c)
                if callee is None or callee.qual not in mutated:
                    continue
                cparams = [p for p in callee.params if p not in ("self", "cls")]
                bound = {}
                for i, a in enumerate(c.args):
                    if i < len(cparams) and not isinstance(a, ast.Starred):
                        bound[cparams[i]] = a
                for k in c.keywords:
                    if k.arg:
                        bound[k.arg] = k.value
                for mp, (desc, node, guard) in mutated[callee.qual].items():
                    if mp not in bound:
                        continue
                    if guard is not None:
                        fv = bound.get(guard[0])
                        dflt = _default_of(callee, guard[0])
                        val = fv if fv is not None else dflt
                        if isinstance(val, ast.Constant) and bool(val.value) != guard[1]:
                            continue        # the mutating branch is not taken at this site
                    du = du_of(u)
                    nid = du.node_of(c)
                    if nid is None:
                        continue
                    al = _alias_kind(prog, u, du, nid, bound[mp], params)
                    if al is None:
                        continue
                    if al[1] not in mutated.setdefault(u.qual, {}):
                        mutated[u.qual][al[1]] = (
                            f"passes `{norm(bound[mp])}` ({al[0]} of `{al[1]}`) to "
                            f"{callee.qual.split(':')[1]}, which performs a {desc}", c, None)
                        changed = True
    if n_writes < 40:
        raise AnalysisError(f"A5: only {n_writes} in-place writes examined (floor 40)")
    n_entry = 0
    for q in sorted(entry):
        u = prog.units[q]
        params = [p for p in u.params if p not in ("self", "cls")]
        if not params and q not in mutated:
            continue
        n_entry += 1
        chk.saw(u)
        m = mutated.get(q, {})
        if not m:
            chk.add("A5", u, f"parameters {params} not written in place", True,
                    "no direct or transitive in-place write reaches caller data")
        for p, (desc, node, guard) in m.items():
            if guard is not None:
                chk.add("A5", u, f"`{p}`: {desc}", None,
                        exception_reason=f"only when the caller passes {guard[0]}="
                                         f"{guard[1]} explicitly (documented in-place option)",
                        node=node)
            else:
                chk.add("A5", u, f"`{p}`: {desc}", False,
                        f"the caller's object passed as `{p}` is modified in place", node)
    chk.extra["a5_helper_summaries"] = {
        q: {p: d for p, (d, _, _) in m.items()} for q, m in sorted(mutated.items())
        if q not in entry}
    chk.extra["a5_inplace_writes_examined"] = n_writes
    if n_entry < 60:
        raise AnalysisError(f"A5: only {n_entry} public entry points with parameters (floor 60)")


def _default_of(u: Unit, pname: str) -> Optional[ast.AST]:
    a = u.node.args
    pos = a.posonlyargs + a.args
    for p, d in zip(pos[len(pos) - len(a.defaults):], a.defaults):
        if p.arg == pname:
            return d
    for p, d in zip(a.kwonlyargs, a.kw_defaults):
        if p.arg == pname:
            return d
    return None


# --------------------------------------------------------------------- A6
def a6(prog: Program, chk: Check) -> None:
    chk.rule("A6", "module-level mutable defaults that are aliased into instances are never "
             "written through any alias; no function mutates a mutable default argument",
             floor=3)
    mutable: Dict[str, str] = {}
    for m in prog.modules.values():
        for st in m.tree.body:
            if isinstance(st, ast.Assign) and isinstance(st.value, (ast.Dict, ast.List, ast.Set)):
                for t in st.targets:
                    if isinstance(t, ast.Name) and t.id.isupper():
                        mutable[t.id] = m.short
    if len(mutable) < 3:
        raise AnalysisError("A6: module-level mutable defaults vanished")
    # registries are read-only lookups too; all are treated alike
    alias_attrs: Set[str] = set()
    alias_params: Set[Tuple[str, str]] = set()
    for ci in prog.classes.values():
        for mu in ci.methods.values():
            for st in walk_local(mu.node):
                if isinstance(st, ast.Assign):
                    names = {x.id for x in ast.walk(st.value) if isinstance(x, ast.Name)}
                    if names & set(mutable):
                        for t in st.targets:
                            d = dotted(t)
                            if d and d.startswith("self."):
                                alias_attrs.add(d[5:])
    # one level: attrs assigned from a parameter named config/backend_config
    for ci in prog.classes.values():
        init = ci.methods.get("__init__")
        if not init:
            continue
        for st in walk_local(init.node):
            if isinstance(st, ast.Assign):
                names = {x.id for x in ast.walk(st.value) if isinstance(x, ast.Name)}
                if names & {"config", "backend_config"}:
                    for t in st.targets:
                        d = dotted(t)
                        if d and d.startswith("self."):
                            alias_attrs.add(d[5:])
    n = 0
    for u in prog.units.values():
        if isinstance(u.node, ast.Lambda):
            continue
        for x in walk_local(u.node):
            base = None
            what = ""
            if isinstance(x, (ast.Assign, ast.AugAssign)):
                tg = x.targets if isinstance(x, ast.Assign) else [x.target]
                for t in tg:
                    if isinstance(t, ast.Subscript):
                        base, what = t.value, "item store"
            elif isinstance(x, ast.Delete):
                for t in x.targets:
                    if isinstance(t, ast.Subscript):
                        base, what = t.value, "item delete"
            elif isinstance(x, ast.Call) and isinstance(x.func, ast.Attribute) and \
                    x.func.attr in ("update", "setdefault", "pop", "popitem", "clear", "append",
                                    "extend", "insert", "remove", "add", "discard"):
                base, what = x.func.value, f".{x.func.attr}()"
            if base is None:
                continue
            d = dotted(base)
            if d is None:
                continue
            hit = d in mutable or (d.startswith("self.") and d[5:] in alias_attrs
                                   and d.count(".") == 1)
            if hit:
                n += 1
                chk.add("A6", u, f"{what} on `{d}`", False,
                        "a default shared by every instance (and the module) is modified", x)
    # mutable default arguments
    for u in prog.units.values():
        if isinstance(u.node, ast.Lambda):
            continue
        a = u.node.args
        pos = a.posonlyargs + a.args
        for p, dflt in list(zip(pos[len(pos) - len(a.defaults):], a.defaults)) + \
                [(p, d) for p, d in zip(a.kwonlyargs, a.kw_defaults) if d is not None]:
            if isinstance(dflt, (ast.Dict, ast.List, ast.Set)):
                muts = [x for x in walk_local(u.node) if isinstance(x, ast.Call)
                        and method_call(x) and method_call(x)[0] == p.arg
                        and method_call(x)[1] in ("append", "update", "add", "extend", "pop",
                                                  "setdefault", "clear", "insert")]
                stores = [x for x in walk_local(u.node) if isinstance(x, ast.Assign)
                          and any(isinstance(t, ast.Subscript) and dotted(t.value) == p.arg
                                  for t in x.targets)]
                chk.add("A6", u, f"mutable default `{p.arg}={norm(dflt)}`", not (muts or stores),
                        "never mutated" if not (muts or stores) else
                        "the default object is mutated and leaks between calls", dflt)
    for name, short in sorted(mutable.items()):
        chk.add("A6", prog.module(short), f"{name} (module-level {short})", True,
                f"no write through the name or the aliases {sorted(alias_attrs)}",
                function="<module>")


COPY_FUNCS = {"copy", "deepcopy", "numpy.copy", "numpy.array", "copy.copy", "copy.deepcopy"}


def _is_copy_expr(mod, e: ast.AST) -> bool:
    if isinstance(e, ast.Call):
        if isinstance(e.func, ast.Attribute) and e.func.attr == "copy" and not e.args:
            return True
        r = (_resolve(mod, e) or "").replace("np.", "numpy.")
        return r in COPY_FUNCS or r.split(".")[-1] in ("copy", "deepcopy")
    return False


def a8(prog: Program, chk: Check) -> None:
    chk.rule("A8", "objects that hold caller-independent state hand out and keep copies: every "
             "array / object property of Bath and System-like classes returns a copy, Bath's "
             "constructor copies the correlations object and converts the operator with "
             "np.array (instances confirmed on the pinned tree are the reference)", floor=18)
    for cq in ("bath:Bath", "system:System", "system:TimeDependentSystem",
               "system:TimeDependentSystemWithField", "system:ParameterizedSystem"):
        ci = prog.cls(cq)
        for mname, mu in sorted(ci.methods.items()):
            if "." in mname or not any(norm(d) == "property" for d in mu.node.decorator_list):
                continue
            rets = [x for x in walk_local(mu.node) if isinstance(x, ast.Return)]
            if len(rets) != 1 or rets[0].value is None:
                continue
            v = rets[0].value
            src = None
            for x in ast.walk(v):
                if isinstance(x, ast.Attribute) and dotted(x) and dotted(x).startswith("self._"):
                    src = dotted(x)
            if src is None or src in ("self._dimension", "self._name", "self._description"):
                continue
            ok = _is_copy_expr(mu.module, v)
            chk.saw(mu)
            chk.add("A8", mu, f"return {norm(v)}", ok,
                    "a copy is handed out" if ok else
                    f"the internal object {src} is handed out: the caller can change the state "
                    f"of an object that other computations share", rets[0])
    bi = prog.unit("bath:Bath.__init__")
    stores = {dotted(st.targets[0]): st.value for st in walk_local(bi.node)
              if isinstance(st, ast.Assign) and dotted(st.targets[0])}
    v = stores.get("self._correlations")
    ok = v is not None and _is_copy_expr(bi.module, v)
    chk.add("A8", bi, f"self._correlations = {norm(v) if v is not None else '?'}", ok,
            "" if ok else "the bath keeps the caller's correlations object: later changes of its "
                          "parameters change the bath")
    def conversion_of(u, param):
        """The value of the (first) local that is made from parameter `param`."""
        for st in walk_local(u.node):
            if isinstance(st, ast.Assign) and len(st.targets) == 1 \
                    and isinstance(st.targets[0], ast.Name) and isinstance(st.value, ast.Call) \
                    and any(isinstance(a, ast.Name) and a.id == param for a in st.value.args):
                return st.value
        return None
    v = conversion_of(bi, "coupling_operator")
    ok = v is not None and isinstance(v, ast.Call) and \
        (_resolve(bi.module, v) or "").replace("np.", "numpy.") == "numpy.array"
    chk.add("A8", bi, f"coupling operator converted by {norm(v) if v is not None else '?'}", ok,
            "" if ok else "the coupling operator is not copied before it is frozen (setflags) "
                          "and stored")
    sc = setter_copies(prog)
    if len(sc) < 7:
        raise AnalysisError(f"A8: only {len(sc)} array stores found in the setters of "
                            f"SimpleProcessTensor / Control / ChainControl (floor 7)")
    for (mu, st, v, ok) in sc:
        chk.saw(mu)
        chk.add("A8", mu, f"{norm(st)[:70]}", ok,
                "an independent copy / a new array is stored" if ok else
                "the object keeps the caller's buffer: writing into that array later changes "
                "what was set (the sibling classes store np.array(..) copies)", st)
    ic = input_conversions(prog)
    if len(ic) < 3:
        raise AnalysisError(f"A8: only {len(ic)} array conversions found in the input-checking "
                            f"helpers (floor 3)")
    for (cu, c, ok) in ic:
        chk.saw(cu)
        chk.add("A8", cu, f"{norm(c)[:60]}", ok,
                "the argument is copied" if ok else
                "the argument is converted without a copy: an object built from a complex128 "
                "array shares the caller's buffer and changes when that array is overwritten", c)
    ch = prog.unit("system:_check_hamiltonian")
    v = conversion_of(ch, "hamiltonian")
    ok = v is not None and isinstance(v, ast.Call) and \
        (_resolve(ch.module, v) or "").replace("np.", "numpy.") == "numpy.array"
    chk.add("A8", ch, f"Hamiltonian converted by {norm(v) if v is not None else '?'}", ok,
            "" if ok else "the Hamiltonian is frozen / stored without a copy: setflags would make "
                          "the CALLER's array read-only")


ALIASING_CALLS = {"numpy.asarray", "numpy.asanyarray", "numpy.ascontiguousarray",
                  "numpy.asfortranarray", "numpy.atleast_2d", "numpy.squeeze", "numpy.reshape",
                  "numpy.ravel", "numpy.transpose"}
STORE_TABLE = [("process_tensor:SimpleProcessTensor", "set_"),
               ("control:Control", "add_single"),
               ("control:ChainControl", "add_single_site_control")]


def _aliases_param(mod, du: DefUse, nid: int, v: ast.AST, params, depth: int = 0) -> Optional[str]:
    """Name of the parameter whose buffer `v` (evaluated at nid) may share, else None."""
    if depth > 4:
        return None
    if isinstance(v, ast.Name):
        ds = du.reaching(nid, v.id)
        if not ds:
            # a comprehension variable: an element of what the generator iterates over
            for x in du.cfg.nodes[nid].walk():
                if isinstance(x, (ast.ListComp, ast.GeneratorExp, ast.SetComp, ast.DictComp)):
                    for g in x.generators:
                        if any(isinstance(y, ast.Name) and y.id == v.id for y in ast.walk(g.target)):
                            for y in ast.walk(g.iter):
                                if isinstance(y, ast.Name) and y.id in params:
                                    return y.id
                            r = _aliases_param(mod, du, nid, g.iter, params, depth + 1)
                            if r:
                                return r
        for d in ds:
            if d.sel == (("param",),) and v.id in params:
                return v.id
            if d.sel and d.sel[0] == ("iter",) and d.value is not None:
                # an element of a container the caller passed in
                for y in ast.walk(d.value):
                    if isinstance(y, ast.Name) and y.id in params:
                        return y.id
            if d.value is not None and not d.sel and d.node != nid:
                r = _aliases_param(mod, du, d.node, d.value, params, depth + 1)
                if r:
                    return r
        return None
    if isinstance(v, ast.Attribute) and v.attr in ("T", "real", "imag"):
        return _aliases_param(mod, du, nid, v.value, params, depth + 1)
    if isinstance(v, ast.Subscript):
        return _aliases_param(mod, du, nid, v.value, params, depth + 1)
    if isinstance(v, ast.Call):
        r = (_resolve(mod, v) or "").replace("np.", "numpy.")
        no_copy = any(k.arg == "copy" and isinstance(k.value, ast.Constant) and k.value.value is False
                      for k in v.keywords)
        if (r in ALIASING_CALLS or (r == "numpy.array" and no_copy)) and v.args:
            return _aliases_param(mod, du, nid, v.args[0], params, depth + 1)
        if isinstance(v.func, ast.Attribute) and v.func.attr in ("reshape", "view", "transpose",
                                                                 "squeeze", "ravel") :
            return _aliases_param(mod, du, nid, v.func.value, params, depth + 1)
    if isinstance(v, (ast.Dict,)):
        for x in v.values:
            r = _aliases_param(mod, du, nid, x, params, depth + 1)
            if r:
                return r
    return None


def input_conversions(prog: Program):
    """[(unit, call, ok)] for the input-checking helpers (`_check_*`, `_parse_state`): every
    conversion of (an element of) an argument into an array is a copying one."""
    out = []
    for u in prog.units.values():
        if isinstance(u.node, ast.Lambda) or u.cls is not None or u.parent is not None:
            continue
        if not (u.name.startswith("_check_") or u.name in ("_parse_state",)):
            continue
        params = [p for p in u.params]
        du = DefUse(u, CFG(u.node, exc_edges=False))
        for c in walk_local(u.node):
            if not (isinstance(c, ast.Call) and c.args):
                continue
            r = (_resolve(u.module, c) or "").replace("np.", "numpy.")
            if r not in ALIASING_CALLS and r != "numpy.array":
                continue
            nid = du.node_of(c)
            if nid is None:
                continue
            src = _aliases_param(u.module, du, nid, c.args[0], params)
            if src is None:
                continue
            out.append((u, c, _aliases_param(u.module, du, nid, c, params) is None))
    return out


def setter_copies(prog: Program, table=None):
    """[(unit, store statement, stored expression, ok)]: the objects in the table keep their own
    copies of the arrays they are given - no store into `self.<attr>` (assignment, subscript
    store, append) keeps the buffer of an array argument (bare name, np.asarray, a view)."""
    out = []
    scalars = {"step", "site", "time", "post", "name"}
    for cq, prefix in (table or STORE_TABLE):
        ci = prog.cls(cq)
        for mname, mu in sorted(ci.methods.items()):
            if not mname.startswith(prefix):
                continue
            params = [p for p in mu.params if p != "self" and p not in scalars]
            du = DefUse(mu, CFG(mu.node, exc_edges=False))
            for st in walk_local(mu.node):
                stores = []
                if isinstance(st, ast.Assign):
                    for t in st.targets:
                        base = t
                        while isinstance(base, ast.Subscript):
                            base = base.value
                        if (dotted(base) or "").startswith("self."):
                            stores.append((t, st.value))
                elif isinstance(st, ast.Expr) and isinstance(st.value, ast.Call) \
                        and isinstance(st.value.func, ast.Attribute) \
                        and st.value.func.attr in ("append", "insert", "extend") \
                        and (dotted(st.value.func.value) or "").startswith("self.") \
                        and st.value.args:
                    stores.append((st.value.func.value, st.value.args[-1]))
                for (t, v) in stores:
                    if isinstance(v, ast.Constant):
                        continue
                    nid = du.node_of(v)
                    if nid is None:
                        continue
                    mentions = any(isinstance(y, ast.Name) and (
                        y.id in params or any(dd.value is not None for dd in du.reaching(nid, y.id)))
                        for y in ast.walk(v))
                    if not mentions:
                        continue
                    al = _aliases_param(mu.module, du, nid, v, params)
                    # only stores of (something derived from) an array argument are instances
                    from oqv.dataflow import depends_on
                    if al is None and not depends_on(du, v, nid, set(params)):
                        continue
                    out.append((mu, st, v, al is None))
    return out


GLOBAL_SETTERS = {"numpy.seterr", "numpy.random.seed", "numpy.set_printoptions",
                  "numpy.seterrcall", "warnings.simplefilter", "warnings.filterwarnings",
                  "warnings.resetwarnings", "random.seed", "locale.setlocale",
                  "sys.setrecursionlimit"}
GLOBAL_STATE_EXEMPT = {
    ("backends.tempo_backend", "<module>", "os.environ['NUMPY_EXPERIMENTAL_ARRAY_FUNCTION'] = '0'"):
        "import-time constant switch, identical for every history",
}


def a6b(prog: Program, chk: Check) -> None:
    chk.rule("A6b", "library functions do not change process-global state (numpy error / print "
             "/ random state, warning filters, environment variables)", floor=1)
    for m in prog.modules.values():
        for x in ast.walk(m.tree):
            hit = None
            if isinstance(x, ast.Call):
                r = (_resolve(m, x) or "").replace("np.", "numpy.")
                if r in GLOBAL_SETTERS:
                    hit = f"{r}(...)"
            if isinstance(x, (ast.Assign, ast.AugAssign)):
                tg = x.targets if isinstance(x, ast.Assign) else [x.target]
                for t in tg:
                    if isinstance(t, ast.Subscript) and dotted(t.value) == "os.environ":
                        hit = norm(x)
            if hit is None:
                continue
            owner = "<module>"
            for u in prog.units.values():
                if u.module is m and not isinstance(u.node, ast.Lambda) and \
                        any(y is x for y in ast.walk(u.node)):
                    owner = u.qual.split(":")[1]
            key = (m.short, owner, hit)
            if key in GLOBAL_STATE_EXEMPT:
                chk.add("A6b", m, hit, None, exception_reason=GLOBAL_STATE_EXEMPT[key], node=x,
                        function=owner)
            else:
                chk.add("A6b", m, hit, False,
                        "changes process-global state: later computations (of any library) "
                        "depend on whether this ran", x, function=owner)


def a9(prog: Program, chk: Check) -> None:
    chk.rule("A9", "no function of the package updates in place an object it does not own "
             "(beyond parameters, which A5 judges): an array read from an attribute of another "
             "object, an element of a container, a free variable of a closure, or the result of "
             "a callable that hands out its stored arrays - a later call or step would compute "
             "with what an earlier one left behind", floor=20)
    from rules.ownership import inplace_updates
    inplace_updates(prog, chk, "A9", floor=20)


def a10(prog: Program, chk: Check) -> None:
    chk.rule("A10", "no closure that outlives the loop iteration that made it reads a variable the loop rebinds: what it computes would depend on where the loop ended, not on the inputs it was made for (a default argument, a factory function or functools.partial binds "
             "the value when the closure is made; a closure consumed within the iteration is fine). "
             "Expected count on a correct tree is zero: a built-in example with two defective and "
             "two accepted closures is judged on every run", floor=1)
    from rules import latebinding
    latebinding.self_check("A10")
    n = latebinding.late_binding(prog, chk, "A10", modules=None)
    chk.add("A10", prog.module("tempo"), f"{n} closures created in loops / comprehensions examined; "
            f"built-in example judged as expected", True, "")


def run(prog: Program, chk: Check) -> None:
    chk.explanation = (
        "Decides the structural ways in which state leaks in this code base: A1 methods "
        "memoised by lru_cache transitively read publicly writable attributes (stale memo); "
        "A2 closures over self stored on objects that the package shallow-copies; A3 closures "
        "capturing a constructor local that is also a public attribute; A4 .shape stores that "
        "merge/split axes on arrays whose layout follows the caller's input; A5 in-place writes "
        "reaching caller data (alias analysis over views/copies); A6 shared mutable defaults.")
    chk.not_decided = ("Absence of every conceivable history dependence of numerical results "
                       "(e.g. library-level caches, BLAS threading).")
    chk.assumptions = [
        "numpy: np.array/np.copy default order 'K' keeps the source layout; reshape/.T/basic "
        "slicing/asarray may return views; arithmetic and np.array copy data",
        "functools.lru_cache on a method keys on self (identity/hash) and the arguments only",
        "copy.copy is shallow: attribute values (incl. closures) are shared",
    ]
    chk.call(a1, prog, chk)
    chk.call(a7, prog, chk)
    chk.call(a2_a3, prog, chk)
    chk.call(a4, prog, chk)
    chk.call(a5, prog, chk)
    chk.call(a6, prog, chk)
    chk.call(a6b, prog, chk)
    chk.call(a8, prog, chk)
    chk.call(a9, prog, chk)
    chk.call(a10, prog, chk)
