"""C04 - every reported state is a physical density matrix: the clauses that
hold by construction (claimed in part).

D1 Lindblad dissipators have the trace-annihilating form
   gamma * ( L . L^dagger  -  1/2 {L^dagger L, .} )  at every construction site,
D2 the superoperator convention vec(A rho B) = (A (x) B^T) vec(rho) is used
   consistently by all builders (commutators annihilate the trace),
D3 normalised read-outs (Gibbs state X / tr X, PT-TEBD norm = total trace),
D4 the influence exponent carries the commutator eigenvalue of the later
   time as an overall factor (entries are 1 where it vanishes => the trace
   over the last leg is preserved) and pairs Re(eta) with the commutator and
   i*Im(eta) with the anticommutator (=> I(s+,s-)* = I(s-,s+), Hermiticity).

Positivity and the numerical size of trace / Hermiticity deviations after
SVD truncation are NOT decided.
"""
from __future__ import annotations

import ast
from fractions import Fraction
from typing import Dict, List, Optional, Tuple

from oqv.astutil import call_name, method_call
from oqv.cfg import CFG
from oqv.dataflow import DefUse, origin, origin_text
from oqv.model import AnalysisError, Program, Unit, dotted, norm, walk_local, kw_of
from oqv.report import Check
from rules.c05 import adjoint_base


def _fn(c: ast.AST) -> str:
    return (dotted(c.func) or "").split(".")[-1] if isinstance(c, ast.Call) else ""


def _resolve_name(du: DefUse, nid: int, e: ast.AST) -> ast.AST:
    for _ in range(3):
        if isinstance(e, ast.Name):
            d = du.unique_value(nid, e.id)
            if d is None or d.value is None or d.sel:
                return e
            nid, e = d.node, d.value
        else:
            break
    return e


def _is_adjoint_of(du: DefUse, nid: int, e: ast.AST, base: ast.AST) -> bool:
    """e is a spelling of base^dagger; both are compared in origin form, so neither the local
    names nor temporaries (`op_dagger = op.conjugate().T`) matter."""
    b = adjoint_base(origin(du, nid, e))
    return b is not None and norm(b) == origin_text(du, nid, base)


def _product_of_adjoint(du: DefUse, nid: int, e: ast.AST, base: ast.AST) -> bool:
    """e == base^dagger . base  (np.dot(a, b) or a @ b)."""
    e = _resolve_name(du, nid, e)
    if isinstance(e, ast.Call) and _fn(e) in ("dot", "matmul") and len(e.args) == 2:
        l, r = e.args
    elif isinstance(e, ast.BinOp) and isinstance(e.op, ast.MatMult):
        l, r = e.left, e.right
    else:
        return False
    return _is_adjoint_of(du, nid, l, base) and \
        origin_text(du, nid, r) == origin_text(du, nid, base)


def _split_terms(e: ast.AST, sign: int = 1) -> List[Tuple[Fraction, ast.AST]]:
    """e as a signed sum of (coefficient, factor) terms; numeric factors are folded."""
    if isinstance(e, ast.BinOp) and isinstance(e.op, (ast.Add, ast.Sub)):
        return _split_terms(e.left, sign) + \
            _split_terms(e.right, sign if isinstance(e.op, ast.Add) else -sign)
    if isinstance(e, ast.UnaryOp) and isinstance(e.op, ast.USub):
        return _split_terms(e.operand, -sign)
    if isinstance(e, ast.BinOp) and isinstance(e.op, ast.Mult):
        for a, b in ((e.left, e.right), (e.right, e.left)):
            if isinstance(a, ast.Constant) and isinstance(a.value, (int, float)):
                return [(Fraction(str(a.value)) * c, t) for (c, t) in _split_terms(b, sign)]
    return [(Fraction(sign), e)]


def d1(prog: Program, chk: Check) -> None:
    chk.rule("D1", "every Lindblad dissipator is built as gamma * (LRS(L, L^dagger) - 1/2 * "
             "ACOMM(L^dagger L)): coefficient 1 on the jump term with the pair (L, L^dagger) and "
             "-1/2 on the anticommutator of exactly L^dagger L (trace annihilating)", floor=3)
    sites = [("system:_liouvillian", "left_right_super", "acommutator"),
             ("system:SystemChain.add_site_dissipation", "left_right_super", "acommutator")]
    for q, jump, acomm in sites:
        u = prog.unit(q)
        du = DefUse(u, CFG(u.node, exc_edges=False))
        chk.saw(u, du.cfg)
        found = False
        for st in walk_local(u.node):
            if not isinstance(st, (ast.AugAssign, ast.Assign)):
                continue
            v = st.value
            if isinstance(v, ast.BinOp) and isinstance(v.op, ast.Mult) and du.node_of(st) is not None \
                    and not any(_fn(c) == jump for c in ast.walk(v)):
                # the two terms held in locals first (`jump = lrs(L, Ld); decay = acomm(..)`)
                from oqv.dataflow import expand as _expand
                v = _expand(du, du.node_of(st), v, depth=2)
            if not (isinstance(v, ast.BinOp) and isinstance(v.op, ast.Mult)):
                continue
            # rate * (jump term - 1/2 anticommutator): the factor that holds the jump term
            has_jump = [side for side in (v.left, v.right)
                        if any(_fn(c) == jump for c in ast.walk(side))]
            if len(has_jump) != 1:
                continue
            inner = has_jump[0]
            terms = _split_terms(inner)
            nid = du.node_of(v) if du.node_of(v) is not None else du.node_of(st)
            jump_ok = acomm_ok = False
            base = None
            for (c, t) in terms:
                if _fn(t) == jump and len(t.args) == 2:
                    base = t.args[0]
                    jump_ok = c == 1 and _is_adjoint_of(du, nid, t.args[1], base)
            for (c, t) in terms:
                if _fn(t) == acomm and len(t.args) == 1 and base is not None:
                    acomm_ok = c == Fraction(-1, 2) and _product_of_adjoint(du, nid, t.args[0], base)
            found = True
            ok = jump_ok and acomm_ok and len(terms) == 2
            chk.add("D1", u, f"rate * ({norm(inner)[:90]})", ok,
                    "trace annihilating form" if ok else
                    f"terms {[(str(c), norm(t)[:40]) for c, t in terms]}: tr(L rho L^dagger) is "
                    f"not cancelled by -1/2 tr({{L^dagger L, rho}}) - the dissipator changes the "
                    f"trace", st)
        if not found:
            raise AnalysisError(f"D1: dissipator construction not found in {q}")
    # two-site dissipator
    u = prog.unit("system:SystemChain.add_nn_dissipation")
    du = DefUse(u, CFG(u.node, exc_edges=False))
    chk.saw(u, du.cfg)
    clr = [c for c in walk_local(u.node) if isinstance(c, ast.Call) and _fn(c) == "cross_left_right_super"]
    cac = [c for c in walk_local(u.node) if isinstance(c, ast.Call) and _fn(c) == "cross_acommutator"]
    if len(clr) != 1 or len(cac) != 1:
        raise AnalysisError("D1: two-site dissipator construction not found")
    kw = kw_of(clr[0])
    nid = du.node_of(clr[0])
    ok1 = all(k in kw for k in ("operator_1_l", "operator_1_r", "operator_2_l", "operator_2_r")) and \
        _is_adjoint_of(du, nid, kw["operator_1_r"], kw["operator_1_l"]) and \
        _is_adjoint_of(du, nid, kw["operator_2_r"], kw["operator_2_l"]) and \
        origin_text(du, nid, kw["operator_1_l"]) != origin_text(du, nid, kw["operator_2_l"])
    kw2 = kw_of(cac[0])
    nid2 = du.node_of(cac[0])
    ok2 = ok1 and "operator_1" in kw2 and "operator_2" in kw2 and \
        _product_of_adjoint(du, nid2, kw2["operator_1"], kw["operator_1_l"]) and \
        _product_of_adjoint(du, nid2, kw2["operator_2"], kw["operator_2_l"])
    ok3 = False
    for st in walk_local(u.node):
        if isinstance(st, ast.AugAssign) and isinstance(st.value, ast.BinOp) \
                and isinstance(st.value.op, ast.Mult):
            v = st.value
            nid3 = du.node_of(v)
            for inner in (v.left, v.right):
                terms = {}
                for (c, t) in _split_terms(inner):
                    o = origin(du, nid3, t)
                    terms[_fn(o) or norm(o)] = c
                if terms == {"cross_left_right_super": Fraction(1),
                             "cross_acommutator": Fraction(-1, 2)}:
                    ok3 = True
    chk.add("D1", u, "gamma * (cross_lr - 0.5 * cross_acomm) with (A, A^dagger) pairs",
            ok1 and ok2 and ok3,
            "trace annihilating form" if ok1 and ok2 and ok3 else
            f"jump pair ok={ok1}, anticommutator of A^dagger A ok={ok2}, coefficients ok={ok3}")


def d2(prog: Program, chk: Check) -> None:
    chk.rule("D2", "superoperator builders share the convention vec(A rho B) = (A (x) B^T) vec(rho): "
             "left factor untransposed, right factor transposed; commutator = left - right, "
             "anticommutator = left + right", floor=5)
    m = prog.module("operators")
    want = {
        "commutator": ("-", [("operator", "I"), ("I", "operator.T")]),
        "acommutator": ("+", [("operator", "I"), ("I", "operator.T")]),
        "left_super": (None, [("operator", "I")]),
        "right_super": (None, [("I", "operator.T")]),
        "left_right_super": (None, [("left_operator", "right_operator.T")]),
    }
    for fname, (op, pairs) in want.items():
        u = prog.unit(f"operators:{fname}")
        chk.saw(u)
        ret_ = [x for x in walk_local(u.node) if isinstance(x, ast.Return)][0]
        du_ = DefUse(u, CFG(u.node, exc_edges=False))
        # temporaries (the identity, the two Kronecker terms) written out
        from oqv.dataflow import expand as _expand
        r = _expand(du_, du_.node_of(ret_), ret_.value, depth=4)
        krons = [c for c in ast.walk(r) if isinstance(c, ast.Call) and _fn(c) == "kron"]
        got = []
        for k in krons:
            a, b = [("I" if ("identity" in norm(x)) else norm(x)) for x in k.args]
            got.append((a, b))
        got_op = None
        if isinstance(r, ast.BinOp):
            got_op = "-" if isinstance(r.op, ast.Sub) else ("+" if isinstance(r.op, ast.Add) else "?")
        ok = got == pairs and got_op == op
        chk.add("D2", u, f"{fname}: {got_op or ''} {got}", ok,
                "" if ok else f"expected {op or ''} {pairs}: a transposed / swapped Kronecker factor "
                              f"breaks trace annihilation of the commutator and the (A, B^T) "
                              f"convention all consumers rely on")
    # system._liouvillian: -1j * commutator(H)
    u = prog.unit("system:_liouvillian")
    # the accumulator is whatever the function returns; its first (plain) assignment is the
    # Hamiltonian part
    rets = [r.value for r in walk_local(u.node) if isinstance(r, ast.Return)
            and isinstance(r.value, ast.Name)]
    acc = rets[0].id if len(rets) == 1 else None
    first = [st for st in walk_local(u.node) if isinstance(st, ast.Assign)
             and dotted(st.targets[0]) == acc]
    ok = False
    if first and isinstance(first[0].value, ast.BinOp) and isinstance(first[0].value.op, ast.Mult):
        l, r = first[0].value.left, first[0].value.right
        for coef, call in ((l, r), (r, l)):
            cval = None
            try:
                cval = complex(ast.literal_eval(ast.unparse(coef)))
            except Exception:
                cval = None
            if cval == -1j and isinstance(call, ast.Call) and _fn(call) == "commutator" \
                    and len(call.args) == 1 and norm(call.args[0]) == "hamiltonian":
                ok = True
    chk.add("D2", u, f"Hamiltonian part: {norm(first[0].value) if first else '?'}", ok,
            "Hamiltonian part -i[H, .]" if ok else "the Hamiltonian part is not -i times the commutator")


def d3(prog: Program, chk: Check) -> None:
    chk.rule("D3", "normalised read-outs: the Gibbs state is X / tr X; the PT-TEBD norm is the "
             "total trace of the augmented MPS", floor=2)
    from rules.c11 import _normalised
    gs = prog.unit("tempo:GibbsTempo.get_state")
    du = DefUse(gs, CFG(gs.node, exc_edges=False))
    chk.saw(gs, du.cfg)
    for n in du.cfg.nodes:
        if n.kind == "stmt" and isinstance(n.ast, ast.Return):
            ok, why = _normalised(du, n.id, n.ast.value)
            chk.add("D3", gs, f"return {norm(n.ast.value)}", ok, why, n.ast)
    gn = prog.unit("backends.pt_tebd_backend:PtTebdBackend.get_norm")
    r = [x for x in walk_local(gn.node) if isinstance(x, ast.Return)][0].value
    ok = "self._total_trace" in norm(r)
    chk.add("D3", gn, f"return {norm(r)}", ok, "" if ok else "the reported norm is not the total trace")
    ar = prog.unit("pt_tebd:PtTebd._append_results")
    ok = any(isinstance(c, ast.Call) and method_call(c) == ("self._t_mps", "get_norm")
             for c in walk_local(ar.node))
    chk.add("D3", ar, "results['norm'] from the back end's total trace", ok)


def d4(prog: Program, chk: Check) -> None:
    chk.rule("D4", "influence_matrix: the exponent has the commutator eigenvalues of the later "
             "time as an overall factor (=> entries are 1 where they vanish, the sum over the "
             "last leg preserves the trace) and pairs eta.real with the commutator and "
             "1j*eta.imag with the anticommutator (=> I(s+,s-)* = I(s-,s+))", floor=4)
    u = prog.unit("tempo:influence_matrix")
    du = DefUse(u, CFG(u.node, exc_edges=False))
    chk.saw(u, du.cfg)

    def role(nid: int, e: ast.AST) -> str:
        e2 = _resolve_name(du, nid, e)
        d = dotted(e2) or ""
        return {"coupling_comm": "COMM", "coupling_acomm": "ACOMM"}.get(d, norm(e2))
    exps = [c for c in walk_local(u.node) if isinstance(c, ast.Call) and _fn(c) == "exp"]
    if len(exps) != 2:
        raise AnalysisError(f"D4: expected two np.exp(...) in influence_matrix, found {len(exps)}")
    for c in exps:
        nid = du.node_of(c)
        arg = c.args[0]
        # the exponent is -(...) or (-a) * (...): pull one overall minus sign out
        neg = 0
        body = arg
        if isinstance(body, ast.UnaryOp) and isinstance(body.op, ast.USub):
            neg, body = 1, body.operand
        elif isinstance(body, ast.BinOp) and isinstance(body.op, ast.Mult):
            l, r = body.left, body.right
            if isinstance(l, ast.UnaryOp) and isinstance(l.op, ast.USub):
                neg, body = 1, ast.BinOp(left=l.operand, op=ast.Mult(), right=r)
            elif isinstance(r, ast.UnaryOp) and isinstance(r.op, ast.USub):
                neg, body = 1, ast.BinOp(left=l, op=ast.Mult(), right=r.operand)
        if neg != 1:
            chk.add("D4", u, f"exp({norm(arg)[:60]})", False,
                    "the exponent does not carry the overall minus sign of the influence "
                    "functional", c)
            continue
        inner = None
        factor_ok = False
        if isinstance(body, ast.Call) and _fn(body) == "outer" and len(body.args) == 2:
            factor_ok = role(nid, body.args[1]) == "COMM"
            inner = body.args[0]
            label = "dk>0: -outer(A, comm)"
        elif isinstance(body, ast.BinOp) and isinstance(body.op, ast.Mult):
            if role(nid, body.left) == "COMM":
                factor_ok, inner = True, body.right
            elif role(nid, body.right) == "COMM":
                factor_ok, inner = True, body.left
            label = "dk=0: -comm * A"
        else:
            label = norm(body)[:40]
        chk.add("D4", u, f"{label}: commutator eigenvalue is an overall factor", factor_ok,
                "" if factor_ok else "influence entries are not 1 where the commutator eigenvalue "
                                     "vanishes: summing the last leg changes the trace", c)
        if inner is None:
            continue
        inner = _resolve_name(du, nid, inner)      # A held in a local of its own
        terms = _split_terms(inner)
        sig = []
        for (coef, t) in terms:
            parts = []

            def flat(x):
                if isinstance(x, ast.BinOp) and isinstance(x.op, ast.Mult):
                    flat(x.left)
                    flat(x.right)
                else:
                    parts.append(x)
            flat(t)
            tags = []
            for p_ in parts:
                s_ = norm(p_)
                if s_.endswith(".real"):
                    tags.append("RE")
                elif s_.endswith(".imag"):
                    tags.append("IM")
                elif isinstance(p_, ast.Constant) and isinstance(p_.value, complex):
                    tags.append("i" if p_.value == 1j else s_)
                else:
                    tags.append(role(nid, p_))
            sig.append((str(coef), tuple(sorted(tags))))
        want = [("1", ("COMM", "RE")), ("1", ("ACOMM", "IM", "i"))]
        ok = sorted(sig) == sorted(want)
        chk.add("D4", u, f"{label}: A = {norm(inner)[:70]}", ok,
                "Re(eta)*comm + i*Im(eta)*acomm" if ok else
                f"terms {sig}: swapping the forward and backward path no longer conjugates the "
                f"influence, reported states lose Hermiticity", c)


# --------------------------------------------------------------------- D5
def d5(prog: Program, chk: Check) -> None:
    chk.rule("D5", "imaginary-time path of the Gibbs back end: all factors built from the "
             "half-step propagator carry the same transposition parity (storage + use). The "
             "propagator exp(-H dt/2) is Hermitian; a path mixing P and P^T closes to a matrix "
             "that is not Hermitian as soon as H has complex entries", floor=4)
    from rules.c11 import propagator_parities
    p0, uses = propagator_parities(prog)
    pars = [(p0 + par) % 2 for (_, _, _, par) in uses]
    majority = 1 if sum(pars) * 2 >= len(pars) else 0
    for (mu, st, x, par) in uses:
        ok = (p0 + par) % 2 == majority
        chk.add("D5", mu, f"{norm(st)[:70]}", ok,
                f"{p0} transpose(s) at storage + {par} at this use; the other factors carry "
                f"parity {majority}" if not ok else f"parity {(p0 + par) % 2} like every other factor", x)



def d7(prog: Program, chk: Check) -> None:
    chk.rule("D7", "the augmented MPS keeps the gammas and lambdas it is given (value-preserving "
             "conversions only: dtype / layout conversion, copy, reshape, diagonal of a diagonal "
             "matrix, defaults): the PT-TEBD back end keeps the weight of the state in its "
             "unnormalised lambdas, so a rescaling or 'normalisation by convention' on the way in "
             "multiplies the trace of every reduced density matrix of a run continued from a "
             "saved chain state by a constant", floor=2)
    from rules.valueflow import containers_keep_values
    containers_keep_values(prog, chk, "D7", which={"AugmentedMPS"})


def d8(prog: Program, chk: Check) -> None:
    from rules import c10
    c10.i7(prog, chk, rule="D8")


def run(prog: Program, chk: Check) -> None:
    chk.explanation = (
        "Claims C04 IN PART: the clauses that hold by construction. D1 every Lindblad dissipator "
        "construction site has the trace-annihilating form (coefficients 1 and -1/2, operand "
        "pairs (L, L^dagger) and L^dagger L); D2 all superoperator builders share the (A (x) B^T) "
        "convention, so commutators annihilate the trace; D3 normalised read-outs (Gibbs state "
        "X/tr X, PT-TEBD norm = total trace); D4 the influence exponent has the later commutator "
        "eigenvalue as an overall factor (trace) and the Re/commutator, i*Im/anticommutator "
        "pairing (Hermiticity); D5 the Gibbs back end uses one orientation of the Hermitian "
        "half-step propagator throughout its path. Each is a necessary condition: breaking it breaks unit trace or "
        "Hermiticity for dissipative / generic inputs.")
    chk.not_decided = ("Positivity, and the numerical size of trace / Hermiticity deviations of the "
                       "SVD-truncated contractions at every step (numerical invariants; no sound "
                       "static abstraction bounds them).")
    chk.assumptions = ["np.kron(A, B) with row-major vec: vec(A rho B^T') convention as documented "
                       "in operators.py",
                       "eta.real / eta.imag are real arrays; coupling_comm is odd and "
                       "coupling_acomm even under exchange of the forward and backward index"]
    chk.call(d1, prog, chk)
    chk.call(d2, prog, chk)
    chk.call(d3, prog, chk)
    chk.call(d4, prog, chk)
    chk.call(d5, prog, chk)
    from rules.c03 import m7
    chk.call(m7, prog, chk, rule="D6")
    chk.call(d7, prog, chk)
    chk.call(d8, prog, chk)
    from rules.c03 import site_gate_convention
    chk.call(site_gate_convention, prog, chk, "D9")
