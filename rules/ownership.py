"""Shared rule: an augmented assignment to a local never updates in place an object the
function does not own.

`x op= e` on a local name is an in-place update when x is bound to a numpy array (or a
list): every other holder of that object sees the change.  It is safe when the object was
made by the function itself (arithmetic, numpy constructors and functions that return new
arrays, copies, results of package functions that return such values) or is immutable
(numbers, strings).  It is a defect when the object belongs to somebody else: an attribute,
an element of a container, a free variable of a closure, or the result of a callable that
hands out its stored arrays (System.get_propagators' closure returns the same two arrays for
every step - `first_half_prop @= control` would leave the control inside the propagator of
every later step).

Ownership is decided from the reaching definitions of the target (oqv.dataflow) and, for
calls, from return summaries of the callee computed over the whole package (methods are
resolved by name over every class that defines them: all implementations must return owned
values).  Parameters are left to rule A5 of C20 (caller-owned data at public entry points).
"""
from __future__ import annotations

import ast
from typing import Dict, List, Optional, Set, Tuple

from oqv.cfg import CFG
from oqv.dataflow import DefUse
from oqv.model import AnalysisError, Program, Unit, dotted, norm, walk_local
from oqv.report import Check

IMMUTABLE_BUILTINS = {"int", "float", "complex", "len", "sum", "abs", "round", "max", "min", "str",
                      "bool", "repr", "format", "hash", "ord", "divmod", "pow"}
FRESH_BUILTINS = {"list", "dict", "set", "tuple", "sorted", "range", "enumerate", "zip", "map",
                  "reversed", "copy", "deepcopy", "frozenset", "bytearray"}
# numpy / scipy functions that may hand back their argument or a view of it
VIEW_FUNCS = {"asarray", "asanyarray", "ascontiguousarray", "asfortranarray", "reshape", "ravel",
              "transpose", "swapaxes", "moveaxis", "rollaxis", "squeeze", "atleast_1d",
              "atleast_2d", "atleast_3d", "real", "imag", "diagonal", "broadcast_to",
              "expand_dims", "nan_to_num", "array", "require", "split", "array_split", "hsplit",
              "vsplit", "flip", "fliplr", "flipud", "rot90", "view"}
VIEW_METHODS = {"reshape", "ravel", "transpose", "swapaxes", "squeeze", "view", "diagonal",
                "get_tensor", "get", "setdefault", "pop", "item"}
FRESH_METHODS = {"copy", "astype", "conj", "conjugate", "flatten", "tolist", "dot", "sum", "mean",
                 "trace", "round", "cumsum", "prod", "max", "min", "format", "join", "strip",
                 "split", "replace", "lower", "upper", "keys", "values", "items"}
VIEW_ATTRS = {"T", "real", "imag", "flat", "H"}
NUMERIC_LIBS = ("np", "numpy", "scipy", "linalg", "la", "integrate", "math", "cmath", "tn",
                "tensornetwork", "operator", "itertools", "functools")
SCALAR_ANNOTATIONS = ("int", "float", "complex", "str", "Text", "bool")


class Ownership:
    def __init__(self, prog: Program):
        self.prog = prog
        self._du: Dict[str, DefUse] = {}
        self._ret: Dict[str, Optional[bool]] = {}
        self.methods_by_name: Dict[str, List[Unit]] = {}
        for ci in prog.classes.values():
            for mname, mu in ci.methods.items():
                self.methods_by_name.setdefault(mname, []).append(mu)

    def du(self, u: Unit) -> DefUse:
        if u.qual not in self._du:
            self._du[u.qual] = DefUse(u, CFG(u.node, exc_edges=False))
        return self._du[u.qual]

    # ------------------------------------------------------------------ callees
    def callees(self, u: Unit, c: ast.Call) -> Optional[List[Unit]]:
        """Package functions a call may reach: module-level function, method by name over all
        classes, or a nested function / closure bound to a local name."""
        f = c.func
        if isinstance(f, ast.Name):
            for v in self.prog.nested_units(u):
                if v.name == f.id:
                    return [v]
            # enclosing functions' nested defs
            p = u.parent
            while p is not None:
                for v in self.prog.nested_units(p):
                    if v.name == f.id:
                        return [v]
                p = p.parent
            q = f"{u.module.short}:{f.id}"
            if q in self.prog.units:
                return [self.prog.units[q]]
            tgt = u.module.imports.get(f.id, "")
            if tgt.startswith("oqupy."):
                modname, _, obj = tgt.rpartition(".")
                v = self.prog.units.get(f"{modname[len('oqupy.'):]}:{obj}")
                if v is not None:
                    return [v]
                ci = self.prog.resolve_class_name(u.module, f.id)
                if ci is not None:
                    return []               # constructor: a new object
                return None
            ci = self.prog.resolve_class_name(u.module, f.id)
            if ci is not None:
                return []
            # a local bound to what a package method returned (closure factory)
            du = self.du(u)
            try:
                nid = du.node_of(c)
            except Exception:
                return None
            out: List[Unit] = []
            for d in du.reaching(nid, f.id):
                made = self._closures_made_by(u, d)
                if made is None:
                    return None
                out += made
            return out or None
        if isinstance(f, ast.Attribute):
            head = dotted(f.value) or ""
            if head.split(".")[0] in NUMERIC_LIBS:
                return None
            ms = self.methods_by_name.get(f.attr)
            if ms:
                return list(ms)
        return None

    def _closures_made_by(self, u: Unit, d) -> Optional[List[Unit]]:
        """Nested functions that definition d may bind (value = call of a factory that
        returns a nested function, or an element of a list of such)."""
        v = d.value
        if v is None:
            return None
        if isinstance(v, ast.ListComp):
            v = v.elt
        if not isinstance(v, ast.Call):
            return None
        facs = self.callees(u, v)
        if not facs:
            return None
        out = []
        for fac in facs:
            nested = {n.name: n for n in self.prog.nested_units(fac)}
            got = False
            for r in [x for x in walk_local(fac.node) if isinstance(x, ast.Return)]:
                if isinstance(r.value, ast.Name) and r.value.id in nested:
                    out.append(nested[r.value.id])
                    got = True
                elif r.value is not None and not (isinstance(r.value, ast.Constant)):
                    if not got:
                        return None
            if not got:
                # abstract method (raise NotImplementedError / pass): no obligation
                body = [s for s in fac.node.body if not (isinstance(s, ast.Expr)
                                                         and isinstance(s.value, ast.Constant))]
                if all(isinstance(s, (ast.Raise, ast.Pass)) for s in body):
                    continue
                return None
        return out

    # --------------------------------------------------------------- summaries
    def returns_owned(self, callee: Unit, stack: Tuple[str, ...] = ()) -> Optional[bool]:
        """True: every value the callee returns is owned by the caller afterwards (new or
        immutable); False: some return hands out stored / shared state; None: unknown."""
        if callee.qual in self._ret:
            return self._ret[callee.qual]
        if callee.qual in stack:
            return True                    # recursion: decided by the other returns
        rets = [x for x in walk_local(callee.node) if isinstance(x, ast.Return) and x.value is not None]
        if isinstance(callee.node, ast.Lambda):
            verdict = self.owned(callee, None, callee.node.body, stack + (callee.qual,))
            self._ret[callee.qual] = verdict
            return verdict
        body = [s for s in callee.node.body if not (isinstance(s, ast.Expr)
                                                    and isinstance(s.value, ast.Constant))]
        if not rets:
            verdict: Optional[bool] = True
        else:
            verdict = True
            du = self.du(callee)
            for r in rets:
                vals = r.value.elts if isinstance(r.value, ast.Tuple) else [r.value]
                for v in vals:
                    o = self.owned(callee, du.node_of(r), v, stack + (callee.qual,))
                    if o is False:
                        verdict = False
                    elif o is None and verdict is True:
                        verdict = None
        if all(isinstance(s, (ast.Raise, ast.Pass)) for s in body):
            verdict = True                 # abstract
        self._ret[callee.qual] = verdict
        return verdict

    # ---------------------------------------------------------------- ownership
    def owned(self, u: Unit, nid: Optional[int], e: ast.AST, stack: Tuple[str, ...] = (),
              seen: Optional[Set[int]] = None) -> Optional[bool]:
        """Is the object e evaluates to (at node nid of u) new or immutable?"""
        seen = seen if seen is not None else set()
        if isinstance(e, (ast.Constant, ast.JoinedStr, ast.Compare, ast.BoolOp, ast.Lambda,
                          ast.BinOp, ast.UnaryOp, ast.List, ast.Tuple, ast.Dict, ast.Set,
                          ast.ListComp, ast.DictComp, ast.SetComp, ast.GeneratorExp)):
            return True
        if isinstance(e, ast.IfExp):
            a, b = self.owned(u, nid, e.body, stack, seen), self.owned(u, nid, e.orelse, stack, seen)
            if a is False or b is False:
                return False
            return True if (a and b) else None
        if isinstance(e, ast.Name):
            if nid is None:
                return None
            du = self.du(u)
            ds = du.reaching(nid, e.id)
            if not ds:
                # free variable of a closure: shared between calls
                return False if u.parent is not None else None
            verdict: Optional[bool] = True
            for d in ds:
                if d.id in seen:
                    continue
                seen.add(d.id)
                o = self._owned_def(u, d, stack, seen)
                if o is False:
                    return False
                if o is None:
                    verdict = None
            return verdict
        if isinstance(e, ast.Attribute):
            if e.attr in VIEW_ATTRS:
                return self.owned(u, nid, e.value, stack, seen)
            return False                   # somebody's attribute
        if isinstance(e, ast.Subscript):
            base = self.owned(u, nid, e.value, stack, seen)
            if base is True:
                # a view of an owned array is owned; an element of an owned *list* is as
                # owned as what was put into the list
                el = self.elements_owned(u, nid, e.value, stack)
                if el is not True:
                    return el
            return base
        if isinstance(e, ast.Starred):
            return self.owned(u, nid, e.value, stack, seen)
        if isinstance(e, ast.Call):
            f = e.func
            fn = dotted(f) or ""
            last = fn.split(".")[-1] if fn else (f.attr if isinstance(f, ast.Attribute) else "")
            head = fn.split(".")[0] if fn else ""
            if isinstance(f, ast.Name) and f.id in IMMUTABLE_BUILTINS | FRESH_BUILTINS:
                return True
            imported = u.module.imports.get(head, "") if head else ""
            if isinstance(f, ast.Name) and imported.split(".")[0] in ("numpy", "scipy", "math", "cmath"):
                last = imported.split(".")[-1]
                head = "np"
            if head in NUMERIC_LIBS or fn in ("expm", "kron"):
                if last in VIEW_FUNCS and e.args:
                    if last == "array" and not any(k.arg == "copy" for k in e.keywords):
                        return True        # np.array copies by default
                    return self.owned(u, nid, e.args[0], stack, seen)
                return True
            cs = self.callees(u, e)
            if cs is not None:
                verdict = True
                for c in cs:
                    o = self.returns_owned(c, stack)
                    if o is False:
                        return False
                    if o is None:
                        verdict = None
                return verdict
            if isinstance(f, ast.Attribute):
                if f.attr in FRESH_METHODS:
                    return True
                if f.attr in VIEW_METHODS:
                    return self.owned(u, nid, f.value, stack, seen)
            return None
        return None

    def elements_owned(self, u: Unit, nid: Optional[int], e: ast.AST,
                       stack: Tuple[str, ...] = (), depth: int = 0) -> Optional[bool]:
        """For a freshly made *list* (display, comprehension, or what a package function
        returns as such): are its elements owned too?  True also when e is not such a list
        (an array made here: its elements are its own data)."""
        if depth > 4:
            return None
        if isinstance(e, (ast.List, ast.Tuple)):
            verdict: Optional[bool] = True
            for x in e.elts:
                o = self.owned(u, nid, x, stack, set())
                if o is False:
                    return False
                if o is None:
                    verdict = None
            return verdict
        if isinstance(e, ast.ListComp):
            elt = e.elt
            if isinstance(elt, (ast.Constant, ast.BinOp, ast.UnaryOp, ast.Compare)):
                return True
            if isinstance(elt, ast.Call):
                # comprehension variables are not in the def-use graph: judge the call by
                # its callee alone
                f = elt.func
                fn = dotted(f) or ""
                if fn.split(".")[0] in NUMERIC_LIBS or (isinstance(f, ast.Name) and
                                                        f.id in IMMUTABLE_BUILTINS | FRESH_BUILTINS):
                    return True
                cs = self.callees(u, elt) if not isinstance(f, ast.Name) or \
                    f"{u.module.short}:{f.id}" in self.prog.units else None
                if cs is None and isinstance(f, ast.Attribute):
                    cs = self.methods_by_name.get(f.attr)
                if cs:
                    verdict = True
                    for c in cs:
                        o = self.returns_owned(c, stack)
                        if o is False:
                            return False
                        if o is None:
                            verdict = None
                    return verdict
                if isinstance(f, ast.Attribute) and f.attr in FRESH_METHODS:
                    return True
            return None
        if isinstance(e, ast.Name) and nid is not None:
            verdict = True
            du = self.du(u)
            for d in du.reaching(nid, e.id):
                if d.value is None or d.sel:
                    continue
                if isinstance(d.value, ast.List) and not d.value.elts:
                    # a list filled by append / insert / extend in this function
                    for m in du.cfg.nodes:
                        if m.copy_of:
                            continue
                        for c in m.calls():
                            if isinstance(c.func, ast.Attribute) and dotted(c.func.value) == e.id \
                                    and c.func.attr in ("append", "insert", "extend") and c.args:
                                o = self.owned(u, m.id, c.args[-1], stack, set())
                                if o is False:
                                    return False
                                if o is None:
                                    verdict = None
                    continue
                o = self.elements_owned(u, d.node, d.value, stack, depth + 1)
                if o is False:
                    return False
                if o is None:
                    verdict = None
            return verdict
        if isinstance(e, ast.Call):
            cs = self.callees(u, e)
            if cs:
                verdict = True
                for c in cs:
                    if c.qual in stack:
                        continue
                    cdu = self.du(c) if not isinstance(c.node, ast.Lambda) else None
                    for r in [x for x in walk_local(c.node) if isinstance(x, ast.Return)
                              and x.value is not None]:
                        o = self.elements_owned(c, cdu.node_of(r) if cdu else None, r.value,
                                                stack + (c.qual,), depth + 1)
                        if o is False:
                            return False
                        if o is None:
                            verdict = None
                return verdict
        return True

    def iter_elements_owned(self, u: Unit, nid: Optional[int], e: ast.AST,
                            stack: Tuple[str, ...] = (), depth: int = 0) -> Optional[bool]:
        """Are the objects a loop over e yields owned?  zip / enumerate / reversed / list / sorted
        pass the elements of their arguments on; a container that belongs to somebody else
        (an attribute, a property that hands out a shallow copy of its list) yields that
        owner's objects."""
        if depth > 4:
            return None
        if isinstance(e, ast.Call) and isinstance(e.func, ast.Name) and \
                e.func.id in ("zip", "enumerate", "reversed", "list", "tuple", "sorted", "iter"):
            verdict: Optional[bool] = True
            for a in e.args:
                o = self.iter_elements_owned(u, nid, a, stack, depth + 1)
                if o is False:
                    return False
                if o is None:
                    verdict = None
            return verdict
        if isinstance(e, ast.Call) and isinstance(e.func, ast.Name) and e.func.id == "range":
            return True
        base = self.owned(u, nid, e, stack, set())
        if base is not True:
            return base
        return self.elements_owned(u, nid, e, stack, depth + 1)

    def _owned_def(self, u: Unit, d, stack, seen) -> Optional[bool]:
        kinds = [s[0] for s in d.sel]
        if "param" in kinds:
            return None                    # caller's object: rule A5
        if "import" in kinds or "def" in kinds or "exc" in kinds:
            return True
        if d.value is None:
            return None
        if "aug" in kinds:
            # x op= e keeps the object x had before
            du = self.du(u)
            prior = du.reaching(d.node, d.name)
            verdict: Optional[bool] = True
            for p in prior:
                if p.id in seen or p.id == d.id:
                    continue
                seen.add(p.id)
                o = self._owned_def(u, p, stack, seen)
                if o is False:
                    return False
                if o is None:
                    verdict = None
            return verdict
        if "iter" in kinds:
            v = d.value
            if isinstance(v, ast.Call) and isinstance(v.func, ast.Name) and v.func.id in ("range",):
                return True
            if isinstance(v, ast.Call) and isinstance(v.func, ast.Name) and v.func.id == "enumerate" \
                    and d.sel and d.sel[-1][0] == "idx" and d.sel[-1][1] == 0:
                return True
            return self.iter_elements_owned(u, d.node, v, stack)
        if "with" in kinds:
            return None
        if "idx" in kinds or "star" in kinds:
            v = d.value
            if isinstance(v, (ast.Tuple, ast.List)):
                sel = [s for s in d.sel if s[0] == "idx"]
                if len(sel) == 1 and sel[0][1] < len(v.elts):
                    return self.owned(u, d.node, v.elts[sel[0][1]], stack, seen)
            return self.owned(u, d.node, v, stack, seen)
        return self.owned(u, d.node, d.value, stack, seen)


def _scalar_param(u: Unit, name: str) -> bool:
    a = u.node.args
    allargs = list(a.posonlyargs) + list(a.args) + list(a.kwonlyargs)
    defaults = dict(zip([x.arg for x in a.args][len(a.args) - len(a.defaults):], a.defaults))
    defaults.update({k.arg: d for k, d in zip(a.kwonlyargs, a.kw_defaults) if d is not None})
    for x in allargs:
        if x.arg != name:
            continue
        if x.annotation is not None and any(t in norm(x.annotation) for t in SCALAR_ANNOTATIONS) \
                and "ndarray" not in norm(x.annotation) and "List" not in norm(x.annotation):
            return True
        dflt = defaults.get(name)
        if isinstance(dflt, ast.Constant) and isinstance(dflt.value, (int, float, complex, str)) \
                and not isinstance(dflt.value, bool):
            return True
    return False


_MUTATOR_PREFIXES = ("set_", "add_", "_set", "_add", "append", "update", "_update", "initialize",
                     "_init", "__init__", "compute", "_compute", "_create", "_read", "close", "remove",
                     "resize", "_store", "_write", "insert", "_append")


def _mutator(u: Unit) -> bool:
    """a method whose job is to change its object (constructor, setter / adder, stepper): only
    there is `x = self._x; x[k] = v` read like the direct spelling.  A query that writes
    into stored state through a local (`c = self._c; np.nan_to_num(c, copy=False)`) is judged."""
    name = u.qual.split(":")[-1].split(".")[-1]
    return name.startswith(_MUTATOR_PREFIXES)


def _own_attribute(v: Optional[ast.AST]) -> bool:
    """self.<attr> or self.<attr>[...]: state of the object the method belongs to"""
    if isinstance(v, ast.Subscript):
        v = v.value
    return isinstance(v, ast.Attribute) and isinstance(v.value, ast.Name) and v.value.id == "self"


def inplace_updates(prog: Program, chk: Check, rule: str, modules: Optional[Set[str]] = None,
                    floor: int = 15) -> None:
    own = Ownership(prog)
    n = 0
    shared = 0
    for u in prog.units.values():
        if isinstance(u.node, ast.Lambda):
            continue
        if modules is not None and u.module.short not in modules:
            continue
        augs = [x for x in walk_local(u.node) if isinstance(x, ast.AugAssign)
                and isinstance(x.target, ast.Name)]
        if not augs:
            continue
        du = own.du(u)
        for a in augs:
            n += 1
            nid = du.node_of(a)
            name = a.target.id
            ds = du.reaching(nid, name)
            verdict: Optional[bool] = True
            why = ""
            seen: Set[int] = set()
            if not ds and u.parent is not None:
                n -= 1
                continue                    # nonlocal state of the closure itself
            for d in ds:
                kinds = [s[0] for s in d.sel]
                if "param" in kinds:
                    if not _scalar_param(u, name) and verdict is True:
                        verdict, why = None, "a parameter (caller's object: judged by C20 A5)"
                    continue
                seen.add(d.id)
                o = own._owned_def(u, d, (), seen)
                if o is False:
                    verdict = False
                    why = f"`{norm(d.value)[:60]}`" if d.value is not None else "its definition"
                    break
                if o is None and verdict is True:
                    verdict, why = None, f"`{norm(d.value)[:60]}`" if d.value is not None else ""
            # strings and numbers are immutable whatever their origin
            if verdict is not True and isinstance(a.value, ast.Constant) and \
                    isinstance(a.value.value, str):
                verdict = True
            if verdict is False:
                shared += 1
            chk.saw(u)
            chk.add(rule, u, f"{name} {norm(a)[len(name):][:40].strip()}",
                    True if verdict is True else (False if verdict is False else None),
                    "updates an object made by this function (or an immutable value)"
                    if verdict is True else
                    (f"in-place update of an object this function does not own: {name} is bound to "
                     f"{why}, which hands out a stored / shared object - every other holder "
                     f"(the next call, the next step) sees the change"
                     if verdict is False else f"origin not decided: {why}"),
                    a)
    # other in-place writes through a local name: subscript stores, in-place methods, out=
    from rules.c20 import _writes_in
    m = 0
    for u in prog.units.values():
        if isinstance(u.node, ast.Lambda):
            continue
        if modules is not None and u.module.short not in modules:
            continue
        writes = [(node, base, kind) for (node, base, kind) in _writes_in(u) if kind == "data"]
        if not writes:
            continue
        du = own.du(u)
        for (node, base, kind) in writes:
            root = base
            while isinstance(root, (ast.Subscript, ast.Attribute)):
                root = root.value
            if not isinstance(root, ast.Name) or root.id in ("self", "cls"):
                continue
            try:
                nid = du.node_of(node)
            except Exception:
                continue
            ds = du.reaching(nid, root.id)
            if any("param" in [s_[0] for s_ in d.sel] for d in ds):
                continue                    # caller's object: C20 A5
            if not ds and u.parent is not None:
                continue                    # the closure's own state (container of the enclosing call)
            if _mutator(u) and ds and all((_own_attribute(d.value) and not d.sel) or
                          (len(d.sel) == 1 and d.sel[0][0] == "iter"
                           and isinstance(d.value, (ast.Tuple, ast.List)) and d.value.elts
                           and all(_own_attribute(e) for e in d.value.elts)) for d in ds):
                # `table = self._table; table[k] = v` is `self._table[k] = v`: the object's own
                # attribute written through a local name, like the direct spelling not judged here
                continue
            m += 1
            # `x[i] op= v` updates the element x[i] in place when x is a list
            judged = node.target if isinstance(node, ast.AugAssign) and \
                isinstance(node.target, ast.Subscript) else base
            verdict = own.owned(u, nid, judged, (), set())
            chk.saw(u)
            chk.add(rule, u, f"write into {norm(base)[:40]}: {norm(node)[:50]}",
                    True if verdict is True else (False if verdict is False else None),
                    "writes into an object made by this function" if verdict is True else
                    (f"in-place write into an object this function does not own (`{norm(base)}` "
                     f"is, or is a view of, stored / shared state of somebody else)"
                     if verdict is False else "origin not decided"), node)
    if n < floor:
        raise AnalysisError(f"{rule}: only {n} augmented assignments to local names found "
                            f"(confirmed by hand: {floor}+)")
