"""C09 - mean-field evolution: stage alignment (F1), Heun form (F2), shared
network stepping (F3)."""
from __future__ import annotations

import ast
from fractions import Fraction
from typing import Dict, List, Optional, Set, Tuple

from oqv import roles, rolebind
from oqv.astutil import call_name, method_call
from oqv.cfg import CFG
from oqv.dataflow import DefUse, form_at, origin_text
from oqv.forms import Poly, eval_form
from oqv.model import AnalysisError, Program, Unit, dotted, norm, walk_local
from oqv.report import Check

STEP = Poly.sym("STEP")
START = Poly.sym("START")
DT = Poly.sym("DT")
ONE = Poly.const(1)


def _same_parameter_reparsed(d, name: str) -> bool:
    """The definition re-binds parameter `name` to its own parsed value: an element of the
    tuple an input parser returns, or an entry of a container looked up by the parameter's
    own name (`parsed["num_steps"][0]`)."""
    if d.value is None:
        return False
    if d.sel and d.sel[0][0] == "idx" and isinstance(d.value, (ast.Call, ast.Name)):
        return True
    if not d.sel:
        v = d.value
        while isinstance(v, ast.Subscript):
            if isinstance(v.slice, ast.Constant) and v.slice.value == name:
                return True
            v = v.value
    return False


class Tags:
    """Step tags of times and state lists inside one function.

    tag(time)  = (time - START)/DT as a polynomial in STEP
    tag(states)= the step at which the states were read out / computed
    A value whose definition reaches its use only across a loop back edge
    carries the tag of the previous iteration (STEP -> STEP - 1).
    """

    def __init__(self, prog: Program, u: Unit, env: Optional[Dict[str, Poly]] = None,
                 state_env: Optional[Dict[str, Poly]] = None):
        self.prog = prog
        self.u = u
        self.du = DefUse(u, CFG(u.node, exc_edges=False))
        self.g = self.du.cfg
        self.env = env or {}              # parameter -> time/step form
        self.state_env = state_env or {}  # parameter -> state tag
        self.field_env: Dict[str, Poly] = {}   # parameter -> field tag

    # ---------------------------------------------------------- plumbing
    def _crosses_back_edge(self, dnode: int, use: int) -> bool:
        if dnode == self.g.entry:
            return False
        p = self.g.find_path([dnode], lambda x: x == use,
                             edge_ok=lambda a, b, l: l != "loop")
        return p is None

    def _in_cycle(self, node: int) -> bool:
        if not hasattr(self, "_cyc"):
            self._cyc = {}
        if node not in self._cyc:
            self._cyc[node] = self.g.find_path([b for b, _ in self.g.succ[node]],
                                               lambda x: x == node) is not None
        return self._cyc[node]

    @staticmethod
    def _shift(f: Optional[Poly]) -> Optional[Poly]:
        return None if f is None else f.subs("STEP", STEP - ONE)

    def _name_defs(self, name: str, nid: int):
        return [d for d in self.du.reaching(nid, name) if not self._dead_before_loop(d, nid)]

    def _dead_before_loop(self, d, use: int) -> bool:
        """A definition made before a `for k in range(..)` loop cannot be the one read at `use`
        when (i) the use is not executed in the first iteration (it sits under a test that
        needs k > 0) and (ii) every path through the first iteration redefines the name before
        the loop comes round: from the second iteration on the in-loop definition is in force."""
        if d.value is None and d.sel == (("param",),):
            return False
        g = self.g
        for h in g.nodes:
            if h.kind != "iter" or h.copy_of or not isinstance(h.ast.target, ast.Name):
                continue
            it = h.ast.iter
            if not (isinstance(it, ast.Call) and dotted(it.func) == "range" and len(it.args) == 1):
                continue
            key = (h.id, d.name)
            if not hasattr(self, "_loop_bodies"):
                self._loop_bodies = {}
            if h.id not in self._loop_bodies:
                starts = [b for b, l in g.succ[h.id] if l == "it"]
                body = g.reachable(starts, edge_ok=lambda a, b, l, hh=h.id: b != hh)
                self._loop_bodies[h.id] = {n for n in body
                                           if g.find_path([n], lambda x, hh=h.id: x == hh) is not None}
            body = self._loop_bodies[h.id]
            if use not in body or d.node in body or d.node == h.id:
                continue
            from oqv import abseval as ae, pathcond as pc
            lv = h.ast.target.id
            dec = pc.sign_decider(lambda e, lv=lv: isinstance(e, ast.Name) and e.id == lv, "zero")
            first = ae.feasible_edges(g, lambda nid, e, dec=dec: ae.UNKNOWN if dec(e) is None else dec(e))
            starts = [b for b, l in g.succ[h.id] if l == "it"]
            in_body_defs = {x.node for x in self.du.defs if x.name == d.name and x.node in body}
            if not in_body_defs:
                continue
            runs_first = g.find_path(starts, lambda x: x == use, edge_ok=first) is not None
            skips = g.find_path([b for b in starts if b not in in_body_defs],
                                lambda x, hh=h.id: x == hh,
                                blocked=lambda x: x in in_body_defs, edge_ok=first) is not None
            if not runs_first and not skips:
                return True
        return False

    # ---------------------------------------------------------- time / index forms
    def form(self, e: ast.AST, nid: int, depth: int = 0) -> Optional[Poly]:
        if depth > 8:
            return None

        def leaf(x):
            r0 = roles.role_of(x)
            if r0 in ("START", "DT"):
                return Poly.sym(r0)
            if isinstance(x, ast.Name):
                if x.id in self.env and not [d for d in self._name_defs(x.id, nid)
                                             if d.sel != (("param",),)]:
                    return self.env[x.id]
                ds = self._name_defs(x.id, nid)
                real = [d for d in ds if d.sel != (("param",),)]
                if real and x.id in self.u.params and roles.role_of(x) == "NUM_STEPS" and all(
                        _same_parameter_reparsed(d, x.id) for d in real):
                    # a parameter re-bound from the tuple its own input parser returns
                    return Poly.sym("N")
                if real:
                    forms = set()
                    for d in real:
                        if d.sel and d.sel[0][0] == "iter":
                            # the loop variable of `for k in range(<number of steps>)` is the
                            # step itself, whatever it is called
                            r = roles.role_of(x)
                            it = d.value
                            if r != "STEP" and len(d.sel) == 1 and isinstance(it, ast.Call) \
                                    and dotted(it.func) == "range" and len(it.args) == 1 \
                                    and depth < 6:
                                bound = self.form(it.args[0], d.node, depth + 1)
                                a0 = it.args[0]
                                if bound in (Poly.sym("N"), Poly.sym("N") + ONE):
                                    r = "STEP"
                            forms.add(Poly.sym(r) if r == "STEP" else None)
                            continue
                        if d.value is None or d.sel:
                            forms.add(None)
                            continue
                        f = self.form(d.value, d.node, depth + 1)
                        if self._crosses_back_edge(d.node, nid):
                            f = self._shift(f)
                        forms.add(f)
                    if len(forms) == 1:
                        return forms.pop()
                    return None
            r = roles.role_of(x)
            if r == "STEP" and isinstance(x, ast.Attribute) and dotted(x) in self.du.by_name:
                # self._step read after `self._step += c` in the same function
                ds = self.du.reaching(nid, dotted(x))
                if ds and all(d.sel and d.sel[0][0] == "aug" and d.sel[0][1] == "Add"
                              and isinstance(d.value, ast.Constant) for d in ds):
                    incs = {d.value.value for d in ds}
                    if len(incs) == 1:
                        return STEP + Poly.const(incs.pop())
                if ds and all(not d.sel and d.value is not None for d in ds) and depth < 6:
                    forms = {repr(self.form(d.value, d.node, depth + 1)) for d in ds}
                    if len(forms) == 1:
                        return self.form(ds[0].value, ds[0].node, depth + 1)
            if r in ("START", "DT", "STEP"):
                return Poly.sym(r)
            if r == "NUM_STEPS":
                return Poly.sym("N")
            if isinstance(x, ast.Call) and method_call(x) == ("self", "_time") and len(x.args) == 1:
                inner = self.form(x.args[0], nid, depth + 1)
                return None if inner is None else START + inner * DT
            return None
        return eval_form(e, leaf)

    def time_tag(self, e: ast.AST, nid: int) -> Optional[Poly]:
        f = self.form(e, nid)
        if f is None:
            return None
        return (f - START).div(DT)

    # ---------------------------------------------------------- field tags
    def field_tag(self, e: ast.AST, nid: int) -> Optional[Poly]:
        """Step to which a field VALUE belongs (plain names only): a value defined in
        the current iteration belongs to the current step, a value that reaches the use
        across the loop back edge to the previous one; `self._field` goes with `self._step`."""
        if dotted(e) == "self._field":
            return STEP
        if not isinstance(e, ast.Name):
            return None
        ds = self._name_defs(e.id, nid)
        real = [d for d in ds if d.sel != (("param",),)]
        if not real:
            return self.field_env.get(e.id)
        tags = set()
        for d in real:
            t = STEP
            if d.value is not None and not d.sel and d.node != nid and \
                    isinstance(d.value, (ast.Name, ast.Attribute, ast.IfExp, ast.BoolOp, ast.Subscript)):
                # (arithmetic on field values - the Heun update written out - makes a new value
                # of the current step, like the call of the update function does)
                # a copy / selection of other field values carries their tag
                inner = set()
                whole_is_input = False
                for x in walk_local(d.value):
                    if isinstance(x, (ast.Name, ast.Attribute)) and dotted(x) and \
                            "field" in dotted(x).split(".")[-1] and x is not d.value or \
                            (x is d.value and isinstance(x, (ast.Name, ast.Attribute))):
                        if isinstance(x, ast.Name) and not [dd for dd in self._name_defs(x.id, d.node)
                                                            if dd.sel != (("param",),)] \
                                and x.id not in self.field_env:
                            whole_is_input = whole_is_input or x is d.value
                            continue        # an input value (initial field): no constraint
                        if isinstance(x, ast.Name):
                            xd = [dd for dd in self._name_defs(x.id, d.node)
                                  if dd.sel != (("param",),)]
                            if xd and not any(self._in_cycle(dd.node) for dd in xd):
                                whole_is_input = whole_is_input or x is d.value
                                continue    # defined once before the loop: an input value
                        ti = self.field_tag(x, d.node)
                        if ti is not None:
                            inner.add(ti)
                if len(inner) == 1:
                    t = inner.pop()
                elif whole_is_input and len(real) > 1:
                    # one branch of a selection copies an input value (`x = initial if first
                    # else field`, written as an if statement): the other branch decides
                    continue
            if self._crosses_back_edge(d.node, nid) or d.node == nid:
                t = self._shift(t)
            tags.add(t)
        return tags.pop() if len(tags) == 1 else None

    # ---------------------------------------------------------- state tags
    def state_tag(self, e: ast.AST, nid: int, depth: int = 0) -> Optional[Poly]:
        if depth > 10:
            return None
        if isinstance(e, ast.Name):
            ds = self._name_defs(e.id, nid)
            real = [d for d in ds if d.sel != (("param",),)]
            if not real:
                return self.state_env.get(e.id)
            tags = set()
            for d in real:
                if d.value is None:
                    tags.add(None)
                    continue
                t = self.state_tag(d.value, d.node, depth + 1)
                if t is None and not self._in_cycle(d.node) and len(real) > 1:
                    # set up once before the loop from an input (the initial states): carries
                    # no step tag and puts no constraint on the tag of the in-loop values
                    # (that such a value is not used in later iterations is rule F4)
                    continue
                if self._crosses_back_edge(d.node, nid):
                    t = self._shift(t)
                tags.add(t)
            return tags.pop() if len(tags) == 1 else None
        d = dotted(e)
        if d in ("self._state_list",):
            return STEP
        if isinstance(e, ast.Call):
            fn = (dotted(e.func) or "").split(".")[-1]
            if fn in ("deepcopy", "copy", "list", "array") and e.args:
                return self.state_tag(e.args[0], nid, depth + 1)
            if fn == "_apply_caps" and len(e.args) >= 3:
                return self.state_tag(e.args[2], nid, depth + 1)
            if fn == "_get_caps" and len(e.args) >= 2:
                return self.form(e.args[1], nid)
            if fn == "compute_system_step" and e.args:
                return self.form(e.args[0], nid)
            if fn == "reshape" and isinstance(e.func, ast.Attribute):
                return self.state_tag(e.func.value, nid, depth + 1)
            return None
        if isinstance(e, ast.ListComp):
            t = self.state_tag(e.elt, nid, depth + 1)
            if t is not None:
                return t
            for gen in e.generators:
                its = gen.iter.args if isinstance(gen.iter, ast.Call) and \
                    dotted(gen.iter.func) == "zip" else [gen.iter]
                for it in its:
                    t = self.state_tag(it, nid, depth + 1)
                    if t is not None:
                        return t
            return None
        return None


def _field_eom_calls(u: Unit) -> List[ast.Call]:
    return [c for c in walk_local(u.node) if isinstance(c, ast.Call)
            and (dotted(c.func) or "").split(".")[-1] == "field_eom" and len(c.args) >= 2]


def _judge_field(chk: Check, owner: Unit, label: str, c: ast.Call, tt: Optional[Poly],
                 ft: Optional[Poly], du: Optional[DefUse] = None) -> None:
    if len(c.args) < 3 or not isinstance(c.args[2], (ast.Name, ast.Attribute)) or ft is None \
            or tt is None:
        return
    if du is not None and isinstance(c.args[2], ast.Name):
        # a temporary that holds an expression (field + rk1*dt) is not a plain field value
        d = du.unique_value(du.node_of(c), c.args[2].id)
        if d is not None and d.value is not None and not d.sel \
                and isinstance(d.value, (ast.BinOp, ast.Call, ast.UnaryOp)):
            return
    ok = tt == ft
    chk.add("F1", owner, f"{label}: field argument {norm(c.args[2])} of field_eom({norm(c.args[0])}, ..)",
            ok, f"time at step {tt}, field of step {ft}" if ok else
            f"the field equation of motion is evaluated at the time of step [{tt}] with the field "
            f"value of step [{ft}]", c)


def _judge(chk: Check, owner: Unit, label: str, c: ast.Call, tt: Optional[Poly],
           st: Optional[Poly]) -> None:
    if tt is None or st is None:
        raise AnalysisError(
            f"F1: cannot derive the step tags of `{norm(c)[:70]}` at {owner.loc(c)} "
            f"(time tag {tt}, state tag {st}) - construct outside the enumerated idioms")
    ok = tt == st
    chk.add("F1", owner, f"{label}: field_eom({norm(c.args[0])}, {norm(c.args[1])}, ...)", ok,
            f"time at step {tt}, states of step {st}" if ok else
            f"the field equation of motion is evaluated at the time of step [{tt}] with the "
            f"system states of step [{st}]: for an explicitly time dependent equation the "
            f"Heun stages are shifted by one step", c)


def f1(prog: Program, chk: Check) -> None:
    chk.rule("F1", "at every call field_eom(T, S, a) the step of the time T (T = START + k*DT) "
             "equals the step at which the state list S was read out / computed", floor=8)
    # ---- mean-field TEMPO: bind the callbacks at the back end's call sites
    be = prog.unit("backends.tempo_backend:MeanFieldTempoBackend.compute_step")
    tb = Tags(prog, be)
    chk.saw(be, tb.g)
    # invariant: _state_list and _step are committed together
    commit = [n for n in tb.g.nodes if n.kind == "stmt" and isinstance(n.ast, ast.Assign)
              and any(dotted(t) in ("self._state_list", "self._step") for t in n.ast.targets)]
    both = {dotted(t) for n in commit for t in n.ast.targets}
    vals = {dotted(t): n.ast.value for n in commit for t in n.ast.targets}
    inv_ok = both >= {"self._state_list", "self._step"}
    if inv_ok:
        s_tag = tb.state_tag(vals["self._state_list"], commit[0].id)
        k_form = tb.form(vals["self._step"], commit[0].id)
        inv_ok = s_tag is not None and s_tag == k_form
    chk.add("F1", be, "invariant: self._state_list holds the states of self._step", inv_ok,
            "" if inv_ok else "state list and step counter are not advanced together")
    front = prog.cls("tempo:MeanFieldTempo")
    for cb_attr, meth in (("self._compute_field", "_compute_field"),
                          ("self._compute_field_derivative", "_compute_field_derivative")):
        sites = [(n.id, c) for n in tb.g.nodes for c in n.calls() if dotted(c.func) == cb_attr]
        if len(sites) != 1:
            raise AnalysisError(f"F1: expected one call of {cb_attr} in the back end")
        nid, call = sites[0]
        mu = front.methods.get(meth)
        if mu is None:
            raise AnalysisError(f"F1: MeanFieldTempo.{meth} vanished")
        params = mu.params[1:]
        env, senv = {}, {}
        for p, a in zip(params, call.args):
            f = tb.form(a, nid)
            s = tb.state_tag(a, nid)
            if f is not None and roles.role_of(ast.Name(id=p, ctx=ast.Load())) == "STEP":
                env[p] = f
            if s is not None:
                senv[p] = s
        tm = Tags(prog, mu, env, senv)
        for p, a_ in zip(params, call.args):
            ft = tb.field_tag(a_, nid)
            if ft is not None and "field" in p:
                tm.field_env[p] = ft
        chk.saw(mu, tm.g)
        for c in _field_eom_calls(mu):
            n2 = tm.du.node_of(c)
            _judge(chk, mu, f"MeanFieldTempo.{meth}", c, tm.time_tag(c.args[0], n2),
                   tm.state_tag(c.args[1], n2))
            _judge_field(chk, mu, f"MeanFieldTempo.{meth}", c, tm.time_tag(c.args[0], n2),
                         tm.field_tag(c.args[2], n2) if len(c.args) > 2 else None, tm.du)
    # ---- compute_dynamics_with_field
    u = prog.unit("system_dynamics:compute_dynamics_with_field")
    tu = Tags(prog, u)
    chk.saw(u, tu.g)
    for c in _field_eom_calls(u):
        nid = tu.du.node_of(c)
        _judge(chk, u, "compute_dynamics_with_field", c, tu.time_tag(c.args[0], nid),
               tu.state_tag(c.args[1], nid))
        _judge_field(chk, u, "compute_dynamics_with_field", c, tu.time_tag(c.args[0], nid),
                     tu.field_tag(c.args[2], nid) if len(c.args) > 2 else None, tu.du)
    closures = [v for v in prog.nested_units(u) if _field_eom_calls(v)]
    if not closures and len(_field_eom_calls(u)) < 5:
        # without a closure the two Heun updates (loop, final state) stand in the function
        # itself and were judged above: 2 x 2 stages + the slope handed to the propagators
        raise AnalysisError("F1: the compute_field closure of compute_dynamics_with_field vanished")
    for v in closures:
        sites = [(n.id, c) for n in tu.g.nodes if not n.copy_of for c in n.calls()
                 if dotted(c.func) == v.name]
        if len(sites) < 2:
            raise AnalysisError(f"F1: expected two call sites of {v.name} (loop and final state)")
        for k, (nid, call) in enumerate(sorted(sites, key=lambda s: s[1].lineno)):
            env, senv = {}, {}
            for p, a in zip(v.params, call.args):
                f = tu.form(a, nid)
                s = tu.state_tag(a, nid)
                if f is not None:
                    env[p] = f
                if s is not None:
                    senv[p] = s
            tv = Tags(prog, v, env, senv)
            for p, a_ in zip(v.params, call.args):
                ft = tu.field_tag(a_, nid)
                if ft is not None and "field" in p:
                    tv.field_env[p] = ft
            where = "in the loop" if k == 0 else "for the final state"
            for c in _field_eom_calls(v):
                n2 = tv.du.node_of(c)
                lab = f"{v.name}({', '.join(norm(a) for a in call.args[:3])}..) {where}"
                _judge(chk, u, lab, c, tv.time_tag(c.args[0], n2), tv.state_tag(c.args[1], n2))
                _judge_field(chk, u, lab, c, tv.time_tag(c.args[0], n2),
                             tv.field_tag(c.args[2], n2) if len(c.args) > 2 else None, tv.du)


# --------------------------------------------------------------------- F2
def f2(prog: Program, chk: Check) -> None:
    chk.rule("F2", "Heun form in both implementations: rk2 is evaluated at field a + DT*rk1 and "
             "time T + DT; the result is a + DT/2*rk1 + DT/2*rk2", floor=6)
    sites = [prog.unit("tempo:MeanFieldTempo._compute_field")]
    outer = prog.unit("system_dynamics:compute_dynamics_with_field")
    sites += [v for v in prog.nested_units(outer) if _field_eom_calls(v)]
    sites.append(outer)
    groups = []
    for u in sites:
        du = DefUse(u, CFG(u.node, exc_edges=False))
        chk.saw(u, du.cfg)
        calls = _field_eom_calls(u)
        names = {}
        for c in calls:
            nid = du.node_of(c)
            for d in du.gen.get(nid, []):
                names[id(c)] = d.name
        # a Heun pair: the second stage is evaluated at a field built from the first slope
        from oqv.dataflow import expand as _expand
        slopes = {v for v in names.values()}
        found = [(c1, c2) for c2 in calls if len(c2.args) > 2 for c1 in calls
                 if c1 is not c2 and names.get(id(c1))
                 and any(isinstance(x, ast.Name) and x.id == names[id(c1)]
                         for x in ast.walk(_expand(du, du.node_of(c2), c2.args[2], depth=4,
                                                   stop_names=slopes)))]
        if not found and len(calls) == 2 and u is not outer:
            # no data dependence between the two stages (that is what F2 is about to report)
            found = [tuple(sorted(calls, key=lambda c: (c.lineno, c.col_offset)))]
        if u is not outer and len(found) != 1:
            raise AnalysisError(f"F2: expected two field_eom stages in {u.qual}")
        for c1, c2 in found:
            if not names.get(id(c2)):
                raise AnalysisError(f"F2: stages of {u.qual} are not bound to names")
            groups.append((u, du, [c1, c2], names[id(c1)], names[id(c2)]))
    if len(groups) < 2:
        raise AnalysisError("F2: fewer than two Heun updates found (MeanFieldTempo._compute_field and "
                            "compute_dynamics_with_field)")
    for u, du, calls, r1, r2 in groups:
        # A: the field value the first stage is evaluated at; T: its time. Other locals are
        # followed to their definitions; what is left is a symbol named by its own text.
        a_text = norm(calls[0].args[2]) if len(calls[0].args) > 2 else None
        t_text = origin_text(du, du.node_of(calls[0]), calls[0].args[0])

        def leaf(x, _at=[None]):
            if isinstance(x, ast.Name):
                if x.id == r1:
                    return Poly.sym("R1")
                if x.id == r2:
                    return Poly.sym("R2")
            if a_text is not None and norm(x) == a_text:
                return Poly.sym("A")
            if isinstance(x, (ast.Name, ast.Attribute)) and rolebind.arg_role(u, x) == "DT":
                return DT
            if isinstance(x, (ast.Name, ast.Call, ast.Attribute)):
                ot = origin_text(du, du.node_of(calls[1]), x)
                if ot == t_text:
                    return Poly.sym("T")
            return None
        A, R1, R2, T = Poly.sym("A"), Poly.sym("R1"), Poly.sym("R2"), Poly.sym("T")
        half = Poly.const(Fraction(1, 2))
        def formx(e, at_call):
            return form_at(du, du.node_of(at_call), e, leaf)
        f_field = formx(calls[1].args[2], calls[1]) if len(calls[1].args) > 2 else None
        chk.add("F2", u, f"rk2 field argument {norm(calls[1].args[2])}", f_field == A + DT * R1,
                f"form {f_field}", calls[1])
        dtime = None
        t1, t2 = formx(calls[0].args[0], calls[0]), formx(calls[1].args[0], calls[1])
        if t1 is not None and t2 is not None:
            dtime = t2 - t1
        chk.add("F2", u, f"rk2 time - rk1 time = {dtime}", dtime == DT,
                "" if dtime == DT else "the second stage is not evaluated one step later", calls[1])
        # the statement that combines both slopes (the return of the closure / method, or an
        # assignment when the update stands in the stepper itself)
        rets = [x for x in walk_local(u.node) if isinstance(x, (ast.Return, ast.Assign))
                and x.value is not None
                and {r1, r2} <= {y.id for y in ast.walk(x.value) if isinstance(y, ast.Name)}]
        f_ret = form_at(du, du.node_of(rets[0]), rets[0].value, leaf) if len(rets) == 1 else None
        want = A + half * DT * R1 + half * DT * R2
        chk.add("F2", u, f"result {norm(rets[0].value) if rets else ''}", f_ret == want,
                f"form {f_ret}" if f_ret == want else f"form {f_ret}, expected {want}",
                rets[0] if rets else None)


# --------------------------------------------------------------------- F4
def f4(prog: Program, chk: Check) -> None:
    chk.rule("F4", "values carried from one step of compute_dynamics_with_field to the next "
             "(the states and the field the Heun slope is started from) are renewed in every "
             "iteration on every path: no path through the loop body skips the update, so the "
             "'previous' value is never two steps old or frozen at its initial value", floor=2)
    u = prog.unit("system_dynamics:compute_dynamics_with_field")
    t = Tags(prog, u)
    g, du = t.g, t.du
    chk.saw(u, g)
    loops = [n for n in g.nodes if n.kind == "iter" and not n.copy_of
             and isinstance(n.ast.iter, ast.Call) and dotted(n.ast.iter.func) == "range"
             and len(n.ast.iter.args) == 1
             and t.form(n.ast.iter.args[0], n.id) in (Poly.sym("N"), Poly.sym("N") + ONE)]
    if len(loops) != 1:
        raise AnalysisError("F4: the stepping loop of compute_dynamics_with_field was not found")
    head = loops[0].id
    body = g.reachable([b for b, l in g.succ[head] if l == "it"], edge_ok=lambda a, b, l: b != head)
    body = {n for n in body if g.find_path([n], lambda x: x == head) is not None}
    names = sorted({d.name for d in du.defs if d.node in body and d.value is not None
                    and "." not in d.name})
    from oqv import abseval as ae, pathcond as pc
    lv = loops[0].ast.target.id if isinstance(loops[0].ast.target, ast.Name) else None
    dec = pc.sign_decider(lambda e: isinstance(e, ast.Name) and e.id == lv, "pos")
    later = ae.feasible_edges(g, lambda nid, e: ae.UNKNOWN if dec(e) is None else dec(e))
    n_carried = 0
    for name in names:
        defs = {d.node for d in du.defs if d.name == name and d.node in body}
        # is the value of a previous iteration read?  (a use reached from the loop head
        # without passing a definition of this iteration)
        first_use = None
        for nid in sorted(body):
            if nid in defs and not any(isinstance(y, ast.Name) and y.id == name
                                       and isinstance(y.ctx, ast.Load)
                                       for y in g.nodes[nid].walk()):
                continue
            if any(isinstance(y, ast.Name) and y.id == name and isinstance(y.ctx, ast.Load)
                   for y in g.nodes[nid].walk()):
                p = g.find_path([b for b, l in g.succ[head] if l == "it"
                                 and (b not in defs or b == nid)], lambda x, k=nid: x == k,
                                blocked=lambda x, k=nid: x in defs and x != k)
                if p is not None:
                    first_use = nid
                    break
        if first_use is None:
            continue
        n_carried += 1
        # one full iteration that avoids every definition of the name
        # ... in an iteration after the first one (a branch that is only taken at step 0,
        # where the value set up before the loop is still the right one, does not count)
        skip = g.find_path([b for b, l in g.succ[head] if l == "it" and b not in defs],
                           lambda x: x == head, blocked=lambda x: x in defs, edge_ok=later)
        chk.add("F4", u, f"carried value `{_carried_role(du, name, body)}` renewed on every path",
                skip is None,
                "" if skip is None else
                "a path through the loop body leaves it untouched: the next step starts from a "
                "value that is two steps old (or still the initial one)",
                g.nodes[first_use].ast, path=None if skip is None else
                g.describe_path(skip, u.loc)[-6:])
    if n_carried < 2:
        raise AnalysisError(f"F4: only {n_carried} carried values found in the stepping loop "
                            f"(states and field expected)")


def _carried_role(du: DefUse, name: str, body) -> str:
    """Name-independent label of a carried local: the origin of its in-loop definition."""
    for d in du.defs:
        if d.name == name and d.node in body and d.value is not None and not d.sel:
            return origin_text(du, d.node, d.value)[:60]
    return name


# --------------------------------------------------------------------- F3
def f3(prog: Program, chk: Check) -> None:
    chk.rule("F3", "TEMPO and mean-field TEMPO advance their networks only through "
             "BaseTempoBackend.compute_system_step; no other unit writes _mps/_mpo", floor=3)
    for q in ("backends.tempo_backend:TempoBackend.compute_step",
              "backends.tempo_backend:MeanFieldTempoBackend.compute_step"):
        u = prog.unit(q)
        ok = any(isinstance(c, ast.Call) and (dotted(c.func) or "").endswith("compute_system_step")
                 for c in walk_local(u.node))
        chk.add("F3", u, "steps through compute_system_step", ok,
                "" if ok else "this back end no longer uses the shared network step")
    writers = set()
    for u in prog.units_in("backends.tempo_backend"):
        if isinstance(u.node, ast.Lambda) or u.cls not in ("BaseTempoBackend", "TempoBackend",
                                                           "MeanFieldTempoBackend"):
            continue
        for x in walk_local(u.node):
            tg = x.targets if isinstance(x, ast.Assign) else \
                ([x.target] if isinstance(x, ast.AugAssign) else [])
            for t in tg:
                if dotted(t) in ("self._mps", "self._mpo") or \
                        (dotted(t) or "").endswith("._mps") or (dotted(t) or "").endswith("._mpo"):
                    writers.add(u.qual.split(":")[1])
    allowed = {"BaseTempoBackend.__init__", "BaseTempoBackend.initialize_mps_mpo",
               "BaseTempoBackend.compute_system_step"}
    u = prog.unit("backends.tempo_backend:BaseTempoBackend.compute_system_step")
    chk.add("F3", u, f"writers of _mps/_mpo: {sorted(writers)}", writers <= allowed,
            "" if writers <= allowed else f"unexpected writers {sorted(writers - allowed)}")


# --------------------------------------------------------------------- F5
def f5(prog: Program, chk: Check) -> None:
    chk.rule("F5", "each system of a mean-field computation gets the influence functions of its "
             "own bath, and the propagators of its own step: no memo in MeanFieldTempo or its "
             "back end (incl. the closures they build, and caches validated by a stored key) "
             "identifies a value by less than what it depends on (a name is not an identity; a "
             "field value is not a time step)",
             floor=1)
    from rules.c20 import memo_findings
    units = []
    for cq in ("tempo:MeanFieldTempo", "backends.tempo_backend:MeanFieldTempoBackend"):
        ci = prog.cls(cq)
        for mu in ci.methods.values():
            units += [mu] + [v for v in prog.all_nested(mu) if not isinstance(v.node, ast.Lambda)]
    n = 0
    for (u, node, construct, missing) in memo_findings(prog, units):
        n += 1
        chk.saw(u)
        chk.add("F5", u, construct, not missing,
                "identified by everything it depends on" if not missing else
                f"the stored value depends on {missing}, the key does not: it is served again "
                f"where {missing[0]} differs (another bath with the same name, another time step "
                f"with the same field value)", node)
    chk.add("F5", prog.module("tempo"), f"{len(units)} functions of MeanFieldTempo scanned, {n} "
            f"memo idiom(s)", len(units) >= 10, "" if len(units) >= 10 else "the class shrank")


def f6(prog: Program, chk: Check) -> None:
    chk.rule("F6", "the per-system callables of a mean-field computation (influence functions, propagators, controls) each belong to their own system: no closure kept beyond a loop iteration reads a variable the loop rebinds (late binding would hand every system the objects of the last one) (a default argument, a factory function or functools.partial binds "
             "the value when the closure is made; a closure consumed within the iteration is fine). "
             "Expected count on a correct tree is zero: a built-in example with two defective and "
             "two accepted closures is judged on every run", floor=1)
    from rules import latebinding
    latebinding.self_check("F6")
    n = latebinding.late_binding(prog, chk, "F6", modules={'backends.tempo_backend', 'system', 'system_dynamics', 'tempo'})
    chk.add("F6", prog.module("tempo"), f"{n} closures created in loops / comprehensions examined; "
            f"built-in example judged as expected", True, "")


def run(prog: Program, chk: Check) -> None:
    chk.explanation = (
        "Decides the time/state alignment of the two Runge-Kutta stages at every field_eom call "
        "of both implementations (F1: step tags as polynomial forms; loop-carried values carry "
        "the previous iteration's tag; callbacks and closures are bound at their call sites), "
        "the Heun form in both siblings by comparing coefficients (F2), and that both back ends "
        "share the one network-stepping routine (F3).")
    chk.not_decided = "Numerical agreement of mean-field TEMPO and compute_dynamics_with_field."
    chk.assumptions = [
        "_get_caps(pts, k) / compute_system_step(k, ...) yield the state at step k (frozen facts, "
        "confirmed by reading the tensor-network code)",
        "role vocabulary of oqv/roles.py",
    ]
    chk.call(f1, prog, chk)
    chk.call(f2, prog, chk)
    chk.call(f3, prog, chk)
    chk.call(f4, prog, chk)
    chk.call(f5, prog, chk)
    chk.call(f6, prog, chk)
    from rules.c02 import none_mode_rule
    chk.call(none_mode_rule, prog, chk, "F7")
