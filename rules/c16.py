"""C16 - process tensors survive export / import / file-backed computation.

X1 writer/reader key tables, X2 field coverage of export and import, X3 None
round trip of the initial-tensor setter/getter, X4 shape/data index pairing
and sentinel, X5 raw-vs-transformed discipline, X6 sibling agreement of the two
PtTempo constructions.
"""
from __future__ import annotations

import ast
from typing import Dict, List, Optional, Set, Tuple

from oqv import abseval as ae
from oqv.astutil import branch_context, call_name, method_call
from oqv.cfg import CFG
from oqv.dataflow import DefUse, depends_on, expand
from oqv.model import AnalysisError, Program, Unit, dotted, norm, walk_local, kw_of
from oqv.report import Check

PT = "process_tensor"
META = {
    "hilbert_space_dimension": {"_hs_dim", "hilbert_space_dimension", "_dimension", "dimension"},
    "dt": {"_dt", "dt"},
    "transform_in": {"_transform_in", "transform_in"},
    "transform_out": {"_transform_out", "transform_out"},
    "name": {"name", "_name"},
    "description": {"description", "_description"},
}


def _const_str(e) -> Optional[str]:
    return e.value if isinstance(e, ast.Constant) and isinstance(e.value, str) else None


# --------------------------------------------------------------------- X1
def x1(prog: Program, chk: Check, rule: str = "X1") -> None:
    chk.rule(rule, "the HDF5 attribute keys and dataset keys written by _create_file are exactly "
             "those read by _read_file, and each dataset is bound to the same attribute of the "
             "object on both sides", floor=3)
    cf = prog.unit(f"{PT}:FileProcessTensor._create_file")
    rf = prog.unit(f"{PT}:FileProcessTensor._read_file")
    chk.saw(cf)
    chk.saw(rf)
    w_attrs, r_attrs = set(), set()
    w_ds: Dict[str, Optional[str]] = {}
    r_ds: Dict[str, Optional[str]] = {}
    for st in walk_local(cf.node):
        if isinstance(st, ast.Assign):
            for t in st.targets:
                if isinstance(t, ast.Subscript) and isinstance(t.value, ast.Attribute) \
                        and t.value.attr == "attrs" and _const_str(t.slice):
                    w_attrs.add(t.slice.value)
        if isinstance(st, ast.Call) and method_call(st) and method_call(st)[1] == "create_dataset":
            k = _const_str(st.args[0]) if st.args else None
            if k is None:
                raise AnalysisError(f"X1: create_dataset with non-constant key at {cf.loc(st)}")
            w_ds.setdefault(k, None)
    for st in walk_local(cf.node):
        if isinstance(st, ast.Assign) and isinstance(st.value, ast.Call) and \
                method_call(st.value) and method_call(st.value)[1] == "create_dataset":
            k = _const_str(st.value.args[0])
            for t in st.targets:
                if dotted(t):
                    w_ds[k] = dotted(t)
    for x in walk_local(rf.node):
        if isinstance(x, ast.Subscript) and isinstance(x.ctx, ast.Load):
            if isinstance(x.value, ast.Attribute) and x.value.attr == "attrs" and _const_str(x.slice):
                r_attrs.add(x.slice.value)
            elif dotted(x.value) == "self._f" and _const_str(x.slice):
                r_ds.setdefault(x.slice.value, None)
    for st in walk_local(rf.node):
        if isinstance(st, ast.Assign) and isinstance(st.value, ast.Subscript) and \
                dotted(st.value.value) == "self._f" and _const_str(st.value.slice):
            for t in st.targets:
                if dotted(t) and dotted(t).startswith("self."):
                    r_ds[st.value.slice.value] = dotted(t)
    if len(w_ds) < 10 or len(w_attrs) < 4:
        raise AnalysisError(f"X1: writer table shrank: {len(w_attrs)} attrs, {len(w_ds)} datasets "
                            f"(floors 4/10)")
    chk.add(rule, cf, f"attrs written {sorted(w_attrs)}", w_attrs == r_attrs,
            f"read {sorted(r_attrs)}" if w_attrs == r_attrs else
            f"written but never read: {sorted(w_attrs - r_attrs)}; read but never written: "
            f"{sorted(r_attrs - w_attrs)}")
    chk.add(rule, cf, f"datasets written {sorted(w_ds)}", set(w_ds) == set(r_ds),
            "same keys read" if set(w_ds) == set(r_ds) else
            f"written but never read: {sorted(set(w_ds) - set(r_ds))}; read but never written: "
            f"{sorted(set(r_ds) - set(w_ds))}")
    bound_w = {k: v for k, v in w_ds.items() if v and v.startswith("self.")}
    bound_r = {k: v for k, v in r_ds.items() if v and v.startswith("self.")}
    mism = {k: (bound_w[k], bound_r.get(k)) for k in bound_w if bound_r.get(k) != bound_w[k]}
    chk.add(rule, rf, f"dataset -> attribute binding of {sorted(bound_w)}", not mism,
            "" if not mism else f"writer and reader bind differently: {mism}")


# --------------------------------------------------------------------- X2
def _ctor_kwargs(unit: Unit, ctor: str) -> Optional[ast.Call]:
    for c in walk_local(unit.node):
        if isinstance(c, ast.Call) and call_name(c) == ctor:
            return c
    return None


def _check_meta(chk, unit, call: ast.Call, src_root: str, label: str, rule="X2"):
    got = kw_of(call)
    for field, names in META.items():
        v = got.get(field)
        ok = v is not None and (dotted(v) or "").startswith(src_root + ".") and \
            (dotted(v) or "").split(".")[-1] in names
        chk.add(rule, unit, f"{label}: {field}={norm(v) if v is not None else '<missing>'}", ok,
                "" if ok else f"metadata field `{field}` is not taken from the same-named field "
                              f"of the source object", call)


def x2(prog: Program, chk: Check) -> None:
    chk.rule("X2", "export and import(simple) transfer all six metadata fields from the "
             "same-named source field and all three tensor groups (initial, mpo, cap) with "
             "matching step indices", floor=18)
    ex = prog.unit(f"{PT}:SimpleProcessTensor.export")
    c = _ctor_kwargs(ex, "FileProcessTensor")
    if c is None:
        raise AnalysisError("X2: export no longer builds a FileProcessTensor")
    _check_meta(chk, ex, c, "self", "export")
    du = DefUse(ex, CFG(ex.node, exc_edges=False))
    chk.saw(ex, du.cfg)
    groups = {"set_initial_tensor": "self._initial_tensor", "set_mpo_tensor": "self._mpo_tensors",
              "set_cap_tensor": "self._cap_tensors"}
    for setter, src in groups.items():
        calls = [(n.id, x) for n in du.cfg.nodes for x in n.calls()
                 if method_call(x) and method_call(x)[1] == setter]
        if not calls:
            chk.add("X2", ex, f"export: {setter}(...)", False,
                    f"the {setter[4:]} group is not written to the file")
            continue
        for (nid, x) in calls:
            val = x.args[-1]
            ok = depends_on(du, val, nid, {src}) or norm(val) == src
            idx_ok = True
            if setter != "set_initial_tensor":
                # step index and tensor come from the same enumerate()
                idx_ok = _same_enumerate(du, nid, x.args[0], val, src)
            chk.add("X2", ex, f"export: {setter}({', '.join(norm(a) for a in x.args)})",
                    ok and idx_ok,
                    f"from {src}" if ok and idx_ok else
                    f"value does not come from {src} (or step index and tensor are not paired)", x)
    # import
    im = prog.unit(f"{PT}:import_process_tensor")
    c = _ctor_kwargs(im, "SimpleProcessTensor")
    if c is None:
        raise AnalysisError("X2: import_process_tensor no longer builds a SimpleProcessTensor")
    # the source object: the local bound to FileProcessTensor(mode="read", ...)
    srcs = {st.targets[0].id for st in walk_local(im.node) if isinstance(st, ast.Assign)
            and len(st.targets) == 1 and isinstance(st.targets[0], ast.Name)
            and isinstance(st.value, ast.Call) and call_name(st.value) == "FileProcessTensor"}
    if len(srcs) != 1:
        raise AnalysisError("X2: import_process_tensor no longer opens one FileProcessTensor")
    _check_meta(chk, im, c, next(iter(srcs)), "import")
    du = DefUse(im, CFG(im.node, exc_edges=False))
    chk.saw(im, du.cfg)
    pairs = {"set_initial_tensor": "get_initial_tensor", "set_mpo_tensor": "get_mpo_tensor",
             "set_cap_tensor": "get_cap_tensor"}
    for setter, getter in pairs.items():
        calls = [(n.id, x) for n in du.cfg.nodes for x in n.calls()
                 if method_call(x) and method_call(x)[1] == setter]
        if not calls:
            chk.add("X2", im, f"import: {setter}(...)", False,
                    f"the {setter[4:]} group is not copied into the in-memory object")
            continue
        for (nid, x) in calls:
            val = x.args[-1]
            gcall = _getter_call(du, nid, val, getter)
            gcalls = [gcall] if gcall is not None else []
            if gcall is None and isinstance(_peel_conversions(val), ast.Name):
                # fetched in front of the loop and again at the end of its body (a loop with
                # the test on the fetched value): every definition must be such a fetch
                ds_ = du.reaching(nid, _peel_conversions(val).id)
                got_ = [_getter_call(du, d_.node, d_.value, getter) if d_.value is not None and not d_.sel
                        else None for d_ in ds_]
                if ds_ and None not in got_:
                    gcalls = got_
            ok = bool(gcalls)
            idx_ok = True
            if ok and setter != "set_initial_tensor":
                # same step: the index expression is the same, and the definitions of the index
                # that reach the store are exactly those that reach the fetches
                idx_ok = all(norm(g_.args[0]) == norm(x.args[0]) for g_ in gcalls) and \
                    {d.id for d in du.reaching(nid, norm(x.args[0]))} == \
                    {d.id for g_ in gcalls for d in du.reaching(du.node_of(g_), norm(g_.args[0]))}
            chk.add("X2", im, f"import: {setter}({', '.join(norm(a) for a in x.args)})",
                    ok and idx_ok,
                    f"from pt_file.{getter}" if ok and idx_ok else
                    f"value does not come from pt_file.{getter} at the same step", x)


def _same_enumerate(du: DefUse, nid: int, idx: ast.AST, val: ast.AST, src: str) -> bool:
    val = _peel_conversions(val)
    if not (isinstance(idx, ast.Name) and isinstance(val, ast.Name)):
        return False
    di, dv = du.reaching(nid, idx.id), du.reaching(nid, val.id)
    if len(di) != 1 or len(dv) != 1:
        return False
    a, b = di[0], dv[0]
    return a.value is b.value and isinstance(a.value, ast.Call) and \
        dotted(a.value.func) == "enumerate" and norm(a.value.args[0]) == src and \
        ("idx", 0) in a.sel and ("idx", 1) in b.sel


def _peel_conversions(e: ast.AST) -> ast.AST:
    """x for np.array(x, ..) / np.asarray(x) / x.copy() / x.astype(..) / copy(x): the same values."""
    from rules.valueflow import PRESERVING_FUNCS, PRESERVING_METHODS
    while isinstance(e, ast.Call):
        fn = (dotted(e.func) or "").split(".")[-1]
        if isinstance(e.func, ast.Attribute) and dotted(e.func.value) not in ("np", "numpy") \
                and e.func.attr in PRESERVING_METHODS:
            e = e.func.value
        elif fn in PRESERVING_FUNCS and e.args and fn not in ("diag", "diagonal"):
            e = e.args[0]
        else:
            break
    return e


def _getter_call(du: DefUse, nid: int, val: ast.AST, getter: str) -> Optional[ast.Call]:
    for _ in range(5):
        val = _peel_conversions(val)
        if isinstance(val, ast.Call) and method_call(val) and method_call(val)[1] == getter:
            return val
        if isinstance(val, ast.Name):
            ds = du.reaching(nid, val.id)
            if len(ds) != 1 or ds[0].value is None or ds[0].sel:
                return None
            nid, val = ds[0].node, ds[0].value
        else:
            return None
    return None


# --------------------------------------------------------------------- X3
def _paths(g: CFG, limit: int = 400) -> List[List[Tuple[int, str]]]:
    out: List[List[Tuple[int, str]]] = []

    def dfs(nid, path, seen):
        if len(out) >= limit:
            return
        if nid == g.exit:
            out.append(path)
            return
        for (b, l) in g.succ[nid]:
            if (nid, b) in seen or l == "e":
                continue
            dfs(b, path + [(b, l)], seen | {(nid, b)})
    dfs(g.entry, [(g.entry, "n")], frozenset())
    return out


def _none_assumption(g: CFG, path, param: str) -> Optional[bool]:
    """True: this path assumes param is None; False: is not None; None: untested."""
    res = None
    for i in range(len(path) - 1):
        nid, _ = path[i]
        n = g.nodes[nid]
        lab = path[i + 1][1]
        if n.kind == "test" and isinstance(n.ast, ast.Compare) and len(n.ast.ops) == 1 \
                and dotted(n.ast.left) == param and isinstance(n.ast.comparators[0], ast.Constant) \
                and n.ast.comparators[0].value is None and lab in ("t", "f"):
            is_none = (lab == "t") == isinstance(n.ast.ops[0], ast.Is)
            res = is_none
    return res


def x3(prog: Program, chk: Check) -> None:
    chk.rule("X3", "None round trip: after set_initial_tensor(None) the getter's source is None; "
             "after set_initial_tensor(x) it is a value derived from x - for every process "
             "tensor class that stores it in memory; getters return the stored field", floor=3)
    for cq in (f"{PT}:SimpleProcessTensor",):
        ci = prog.cls(cq)
        su = ci.methods.get("set_initial_tensor")
        gu = ci.methods.get("get_initial_tensor")
        if su is None or gu is None:
            raise AnalysisError(f"X3: {cq} lost set/get_initial_tensor")
        rets = [x for x in walk_local(gu.node) if isinstance(x, ast.Return)]
        field = dotted(rets[0].value) if len(rets) == 1 else None
        chk.add("X3", gu, f"return {norm(rets[0].value) if rets else ''}",
                field is not None and field.startswith("self."),
                "" if field else "getter does not return a stored field")
        if not field:
            continue
        g = CFG(su.node, exc_edges=False)
        chk.saw(su, g)
        param = su.params[1]
        verdict = {True: [], False: []}
        for path in _paths(g):
            assume = _none_assumption(g, path, param)
            last = None
            for (nid, _) in path:
                n = g.nodes[nid]
                if n.kind == "stmt" and isinstance(n.ast, ast.Assign) and \
                        any(dotted(t) == field for t in n.ast.targets):
                    last = n.ast.value
            for a in ([True, False] if assume is None else [assume]):
                verdict[a].append(last)
        for assume, lasts in verdict.items():
            if not lasts:
                chk.add("X3", su, f"path `{param} is {'None' if assume else 'not None'}`", False,
                        "no such path through the setter")
                continue
            if assume:
                ok = all(l is not None and isinstance(l, ast.Constant) and l.value is None
                         for l in lasts)
                why = f"{field} = None" if ok else \
                    f"after set_initial_tensor(None) {field} is " \
                    f"{[norm(l) if l is not None else '<unchanged>' for l in lasts]}: e.g. " \
                    f"np.array(None) is a NaN scalar, not None, and compute_dynamics rejects " \
                    f"the imported object"
            else:
                ok = all(l is not None and any(isinstance(x, ast.Name) and x.id == param
                                               for x in ast.walk(l)) for l in lasts)
                why = f"{field} derived from {param}" if ok else \
                    f"after set_initial_tensor(x) {field} is " \
                    f"{[norm(l) if l is not None else '<unchanged>' for l in lasts]}: the " \
                    f"tensor is dropped"
            chk.add("X3", su, f"path `{param} is {'None' if assume else 'not None'}`", ok, why)
    # file-backed class: delegates to _set/_get_data_and_shape with the matching datasets
    fi = prog.cls(f"{PT}:FileProcessTensor")
    for grp in ("initial_tensor", "mpo_tensor", "cap_tensor"):
        su, gu = fi.methods.get(f"set_{grp}"), fi.methods.get(f"get_{grp}")
        if su is None or gu is None:
            raise AnalysisError(f"X3: FileProcessTensor lost set/get_{grp}")
        sc = [c for c in walk_local(su.node) if isinstance(c, ast.Call)
              and call_name(c) == "_set_data_and_shape"]
        gc = [c for c in walk_local(gu.node) if isinstance(c, ast.Call)
              and call_name(c) == "_get_data_and_shape"]
        if len(sc) != 1 or len(gc) != 1:
            chk.add("X3", su, f"FileProcessTensor.{grp}: delegates to _set/_get_data_and_shape",
                    False, "setter/getter no longer delegate to the paired helpers")
            continue
        ks = {k_: norm(v_) for k_, v_ in kw_of(sc[0]).items()}
        kg = {k_: norm(v_) for k_, v_ in kw_of(gc[0]).items()}
        ok = ks.get("data") == kg.get("data") and ks.get("shape") == kg.get("shape") \
            and ks.get("data", "").endswith("_data") and ks.get("shape", "").endswith("_shape") \
            and ks["data"][:-5] == ks["shape"][:-6] and grp.split("_")[0] in ks["data"]
        tens = ks.get("tensor")
        ok = ok and tens == su.params[-1]
        chk.add("X3", su, f"FileProcessTensor.{grp}: data={ks.get('data')}, shape={ks.get('shape')}",
                ok, "" if ok else f"setter uses {ks}, getter uses {kg}")


# --------------------------------------------------------------------- X4
def x4(prog: Program, chk: Check) -> None:
    chk.rule("X4", "_set/_get_data_and_shape use one index for shape and data, the shape is "
             "stored before flattening, and the None sentinel is written and recognised by the "
             "matching pair HDF5None / _is_hdf5_none", floor=5)
    su = prog.unit(f"{PT}:_set_data_and_shape")
    gu = prog.unit(f"{PT}:_get_data_and_shape")
    du = DefUse(su, CFG(su.node, exc_edges=False))
    chk.saw(su, du.cfg)
    p_step, p_data, p_shape, p_tensor = su.params
    st_shape = st_data = None
    for n in du.cfg.nodes:
        if n.kind == "stmt" and isinstance(n.ast, ast.Assign) and len(n.ast.targets) == 1 \
                and isinstance(n.ast.targets[0], ast.Subscript):
            t = n.ast.targets[0]
            if dotted(t.value) == p_shape:
                st_shape = (n, t)
            elif dotted(t.value) == p_data:
                st_data = (n, t)
    if not st_shape or not st_data:
        raise AnalysisError("X4: stores shape[step] / data[step] not found in _set_data_and_shape")
    same = norm(st_shape[1].slice) == norm(st_data[1].slice) == p_step
    chk.add("X4", su, f"{norm(st_shape[1])} / {norm(st_data[1])}", same,
            "same index" if same else "shape and data are stored at different indices")
    # shape stored from the unflattened tensor
    v = st_shape[0].ast.value
    ok = isinstance(v, ast.Attribute) and v.attr == "shape" and dotted(v.value) == p_tensor
    if ok:
        ds = du.reaching(st_shape[0].id, p_tensor)
        ok = not any(d.value is not None and isinstance(d.value, ast.Call)
                     and (method_call(d.value) or ("", ""))[1] in ("reshape", "flatten", "ravel")
                     for d in ds)
    chk.add("X4", su, f"{norm(st_shape[0].ast)}", ok,
            "shape recorded before flattening" if ok else
            "the shape is recorded after the tensor was flattened (or not from the tensor)")
    # sentinel on the None path
    sent = [n for n in du.cfg.nodes if n.kind == "stmt" and isinstance(n.ast, ast.Assign)
            and any(dotted(t) == p_tensor for t in n.ast.targets)
            and "HDF5None" in norm(n.ast.value)]
    from oqv.astutil import branch_context
    ok = bool(sent) and any(
        isinstance(t, ast.Compare) and dotted(t.left) == p_tensor and br
        and isinstance(t.ops[0], ast.Is) for (t, br) in branch_context(su.node, sent[0].ast))
    chk.add("X4", su, "None -> HDF5None sentinel", ok,
            "" if ok else "None is not replaced by the sentinel before writing")
    du2 = DefUse(gu, CFG(gu.node, exc_edges=False))
    chk.saw(gu, du2.cfg)
    g_step, g_data, g_shape = gu.params
    idxs = []
    for x in walk_local(gu.node):
        if isinstance(x, ast.Subscript) and isinstance(x.ctx, ast.Load) and \
                dotted(x.value) in (g_data, g_shape) and not isinstance(x.slice, ast.Slice):
            idxs.append((dotted(x.value), norm(x.slice)))
    ok = {k for k, _ in idxs} == {g_data, g_shape} and {i for _, i in idxs} == {g_step}
    chk.add("X4", gu, f"reads {sorted(set(idxs))}", ok,
            "same index" if ok else "shape and data are read at different indices")
    # returns None iff sentinel
    tests = [x for x in walk_local(gu.node) if isinstance(x, ast.If)
             and isinstance(x.test, ast.Call) and call_name(x.test) == "_is_hdf5_none"]
    ok = bool(tests) and any(isinstance(s, ast.Assign) and isinstance(s.value, ast.Constant)
                             and s.value.value is None for s in tests[0].body)
    chk.add("X4", gu, "sentinel -> None", ok, "" if ok else "the sentinel is not mapped back to None")
    # reshape with the stored shape
    ok = any(isinstance(c, ast.Call) and (method_call(c) or ("", ""))[1] == "reshape"
             and any(isinstance(a, ast.Name) and any(
                 d.value is not None and isinstance(d.value, ast.Subscript)
                 and dotted(d.value.value) == g_shape
                 for d in du2.reaching(du2.node_of(c), a.id)) for a in c.args)
             for c in walk_local(gu.node))
    chk.add("X4", gu, "tensor.reshape(stored shape)", ok,
            "" if ok else "the tensor is not restored with the stored shape")


# --------------------------------------------------------------------- X5
CONTRACTIONS = ("dot", "matmul", "tensordot", "einsum")


def _transform_events(u: Unit):
    g = CFG(u.node, exc_edges=False)
    ev = {}
    for n in g.nodes:
        for x in n.walk():
            if isinstance(x, ast.Call) and (dotted(x.func) or "").endswith("create_delta"):
                ev[n.id] = "DELTA"
            is_contr = (isinstance(x, ast.Call)
                        and (dotted(x.func) or "").split(".")[-1] in CONTRACTIONS) or \
                (isinstance(x, ast.BinOp) and isinstance(x.op, ast.MatMult))
            if is_contr and "_transform_in" in norm(x):
                ev[n.id] = "TIN"
            elif is_contr and "_transform_out" in norm(x):
                ev[n.id] = "TOUT"
    return g, ev


EXPECTED_TRANSFORMED = ((("T", 0), ("T", 1), ("Min", 0), ("Mout", 1)),
                        ((("Min", 1), ("T", 2)), (("Mout", 0), ("T", 3))))
RAW = ((("T", 0), ("T", 1), ("T", 2), ("T", 3)), ())


def transform_signatures(u: Unit, transformed: bool):
    """Index signatures (tensoridx.Val.signature) of what get_mpo_tensor returns on every
    feasible path with both transforms present and `transformed` as given.  The stored tensor
    is the atom T (rank 4 after the delta expansion), the transforms are Min / Mout."""
    from oqv import tensoridx as ti
    g = CFG(u.node, exc_edges=False)
    du = DefUse(u, g)
    flag = u.params[2]

    def lookup(nid, e):
        if isinstance(e, ast.Name) and e.id == flag:
            return transformed
        if isinstance(e, ast.Compare) and len(e.ops) == 1 and isinstance(e.left, ast.Name) \
                and e.left.id == flag and isinstance(e.comparators[0], ast.Constant) \
                and isinstance(e.comparators[0].value, bool):
            same = e.comparators[0].value == transformed
            return same if isinstance(e.ops[0], (ast.Is, ast.Eq)) else (not same)
        if isinstance(e, ast.Compare) and len(e.ops) == 1 \
                and dotted(e.left) in ("self._transform_in", "self._transform_out") \
                and isinstance(e.comparators[0], ast.Constant) and e.comparators[0].value is None:
            return isinstance(e.ops[0], (ast.IsNot, ast.NotEq))
        if isinstance(e, ast.Call) and call_name(e) == "_is_hdf5_none":
            return False        # premise of the rule: the tensor asked for is stored
        return ae.UNKNOWN
    feas = ae.feasible_edges(g, lookup)
    sigs = []
    # a hand-written memo (self._m[key] = value ... return self._m[key]) is transparent here;
    # that its entries are keyed completely and dropped by the setters is C03 M5 / C20 A7, A7b
    memo_attrs = {dotted(t.value) for st in walk_local(u.node) if isinstance(st, ast.Assign)
                  for t in st.targets if isinstance(t, ast.Subscript)
                  and (dotted(t.value) or "").startswith("self.")}
    from rules.c20 import slot_memos
    slot_attrs = {attr for (_, attr, _, _, _) in slot_memos(u)}
    for path in _paths(g):
        if any(not feas(path[i][0], path[i + 1][0], path[i + 1][1]) for i in range(len(path) - 1)):
            continue
        if any(g.nodes[nid].kind == "stmt" and isinstance(g.nodes[nid].ast, ast.Raise)
               for (nid, _) in path):
            continue
        env = {}

        def atom(x):
            d = dotted(x)
            if d == "self._transform_in":
                return ti.Val.atom("Min", 2)
            if d == "self._transform_out":
                return ti.Val.atom("Mout", 2)
            if isinstance(x, ast.Name) and x.id in env:
                return env[x.id]
            if isinstance(x, ast.Call) and (dotted(x.func) or "").endswith("create_delta") \
                    and x.args:
                return ti.evaluate(x.args[0], atom)      # rank-3 -> rank-4 expansion of T
            if isinstance(x, ast.Subscript) and (dotted(x.value) or "").startswith("self._mpo_tensors"):
                return ti.Val.atom("T", 4)
            if isinstance(x, ast.Call) and isinstance(x.func, ast.Attribute) and x.func.attr == "reshape" \
                    and isinstance(x.func.value, ast.Subscript) \
                    and (dotted(x.func.value.value) or "").startswith("self._mpo_tensors"):
                return ti.Val.atom("T", 4)        # the flat data set given its stored shape
            if isinstance(x, ast.Call) and call_name(x) == "_get_data_and_shape":
                return ti.Val.atom("T", 4)
            return None
        result = "no return"
        for (nid, _) in path:
            n = g.nodes[nid]
            if n.kind != "stmt":
                continue
            if isinstance(n.ast, ast.Assign) and len(n.ast.targets) == 1 \
                    and isinstance(n.ast.targets[0], ast.Name):
                env[n.ast.targets[0].id] = ti.evaluate(n.ast.value, atom)
            if isinstance(n.ast, ast.Return) and n.ast.value is not None:
                rv = n.ast.value
                if isinstance(rv, ast.Subscript) and dotted(rv.value) in memo_attrs | slot_attrs:
                    result = "memo hit"       # served from a memo filled by a miss path
                    continue
                v = ti.evaluate(rv, atom)
                result = v.signature() if v is not None else None
        if result != "memo hit":
            sigs.append(result)
    return sigs


def _canon_locals(u: Unit, e: ast.AST) -> str:
    """Text of e with every function-local variable (assigned in u, not a parameter) written
    as `T`: the two siblings may call their working tensor differently."""
    import copy
    assigned = {y.id for st in walk_local(u.node) for y in ast.walk(st)
                if isinstance(y, ast.Name) and isinstance(y.ctx, ast.Store)}
    local = assigned - set(u.params)

    class T(ast.NodeTransformer):
        def visit_Name(self, n):
            return ast.copy_location(ast.Name(id="T" if n.id in local else n.id, ctx=n.ctx), n)
    return norm(T().visit(copy.deepcopy(e)))


def x5(prog: Program, chk: Check) -> None:
    chk.rule("X5", "both get_mpo_tensor siblings apply delta expansion, transform_in, "
             "transform_out in this order with the same operand forms; with transformed=False "
             "no transform is applied; import reads raw tensors and export writes raw tensors",
             floor=6)
    sig = {}
    for cq in ("SimpleProcessTensor", "FileProcessTensor"):
        u = prog.unit(f"{PT}:{cq}.get_mpo_tensor")
        g, ev = _transform_events(u)
        chk.saw(u, g)
        order = ["DELTA", "TIN", "TOUT"]
        ok = set(ev.values()) == set(order)
        bad = None
        for j, later in enumerate(order):
            for i in range(j):
                for a in [n for n, k in ev.items() if k == later]:
                    p = g.find_path([b for b, _ in g.succ[a]],
                                    lambda x, e=order[i]: ev.get(x) == e)
                    if p is not None:
                        bad = (later, order[i])
        chk.add("X5", u, "order DELTA -> transform_in -> transform_out", ok and bad is None,
                "" if ok and bad is None else
                (f"{bad[0]} can be followed by {bad[1]}" if bad else
                 f"events found: {sorted(set(ev.values()))}"))
        # transformed=False => no transform
        pname = u.params[2]

        def lookup(nid, e, pname=pname):
            if isinstance(e, ast.Name) and e.id == pname:
                return False
            return ae.UNKNOWN
        feas = ae.feasible_edges(g, lookup)
        p = g.find_path([g.entry], lambda x: ev.get(x) in ("TIN", "TOUT"), edge_ok=feas)
        chk.add("X5", u, f"{pname}=False applies no transform", p is None,
                "" if p is None else "a transform is applied although transformed is False")
        # what is returned, as an index contraction (spelling-independent)
        for flag_value, want, what in ((True, EXPECTED_TRANSFORMED,
                                        "M_in[k,i] T[a,b,i,j] M_out[j,l] -> [a,b,k,l]"),
                                       (False, RAW, "the stored tensor itself")):
            sigs = transform_signatures(u, flag_value)
            ok = bool(sigs) and all(sg == want for sg in sigs)
            bad_sig = next((sg for sg in sigs if sg != want), None)
            chk.add("X5", u, f"{pname}={flag_value}: returns {what}", ok,
                    f"{len(sigs)} path(s)" if ok else
                    f"a path returns {bad_sig}: the transform acts on the wrong leg / with the "
                    f"wrong orientation (or the expression is outside the index calculus)")
    for (u2, construct, ok, detail, node) in raw_discipline(prog):
        chk.add("X5", u2, construct, ok, detail, node)


def raw_discipline(prog: Program):
    """[(unit, construct, ok, detail, node)]: import reads and export writes RAW MPO tensors
    (the transforms travel separately)."""
    out = []
    im = prog.unit(f"{PT}:import_process_tensor")
    for c in walk_local(im.node):
        if isinstance(c, ast.Call) and method_call(c) and method_call(c)[1] == "get_mpo_tensor":
            tv = kw_of(c).get("transformed", c.args[1] if len(c.args) > 1 else None)
            ok = isinstance(tv, ast.Constant) and tv.value is False
            out.append((im, f"import: {norm(c)}", ok,
                        "raw tensors are copied" if ok else
                        "import copies TRANSFORMED tensors into an object that transforms again", c))
    ex = prog.unit(f"{PT}:SimpleProcessTensor.export")
    raw = not any(isinstance(c, ast.Call) and method_call(c)
                  and method_call(c)[1] == "get_mpo_tensor"
                  and not any(k.arg == "transformed" and isinstance(k.value, ast.Constant)
                              and k.value.value is False for k in c.keywords)
                  for c in walk_local(ex.node))
    out.append((ex, "export writes raw tensors", raw,
                "" if raw else "export writes transformed tensors next to the transforms", None))
    return out


# --------------------------------------------------------------------- X6
def x6(prog: Program, chk: Check) -> None:
    chk.rule("X6", "PtTempo builds the in-memory and the file-backed process tensor with the "
             "same metadata and transform expressions", floor=6)
    a = prog.unit("pt_tempo:PtTempo._init_simple_process_tensor")
    b = prog.unit("pt_tempo:PtTempo._init_file_process_tensor")
    ca, cb = _ctor_kwargs(a, "SimpleProcessTensor"), _ctor_kwargs(b, "FileProcessTensor")
    if ca is None or cb is None:
        raise AnalysisError("X6: process tensor constructions in PtTempo not found")
    da = DefUse(a, CFG(a.node, exc_edges=False))
    db = DefUse(b, CFG(b.node, exc_edges=False))
    chk.saw(a, da.cfg)
    chk.saw(b, db.cfg)

    def val(du, call, field):
        v = kw_of(call).get(field)
        if v is None:
            return None
        nid = du.node_of(call)
        defs = du.reaching(nid, v.id) if isinstance(v, ast.Name) else []
        if defs:
            return sorted(norm(expand(du, d.node, d.value)) if d.value is not None
                          else "<param>" for d in defs)
        return [norm(v)]
    for field in META:
        va, vb = val(da, ca, field), val(db, cb, field)
        chk.add("X6", b, f"{field}: {va}", va is not None and va == vb,
                "identical in both constructions" if va == vb else
                f"in-memory uses {va}, file-backed uses {vb}")


def x7(prog: Program, chk: Check) -> None:
    chk.rule("X7", "tensor data are stored in double precision complex, shapes and dimensions as "
             "integers, dt as float64; no narrowing cast on the write or read path", floor=3)
    cf = prog.unit(f"{PT}:FileProcessTensor._create_file")
    dts = {}
    for st in walk_local(cf.node):
        if isinstance(st, ast.Assign) and isinstance(st.value, ast.Call) and \
                (dotted(st.value.func) or "").endswith("vlen_dtype"):
            _du7 = DefUse(cf, CFG(cf.node, exc_edges=False))
            dts[dotted(st.targets[0])] = norm(expand(_du7, _du7.node_of(st.value), st.value.args[0]))
    # the two variable-length element types, identified by what they hold
    by_elem = {v: k for k, v in dts.items()}
    data_t, shape_t = by_elem.get("np.dtype('complex128')"), by_elem.get("np.dtype('i')")
    ok = data_t is not None and shape_t is not None and len(dts) == 2
    chk.add("X7", cf, f"variable-length types {sorted(dts.values())}", ok,
            "" if ok else "tensor data are not stored as complex128 / shapes not as integers")
    table = {}
    for c in walk_local(cf.node):
        if isinstance(c, ast.Call) and method_call(c) and method_call(c)[1] == "create_dataset":
            k = c.args[0].value if isinstance(c.args[0], ast.Constant) else "?"
            dt = next((norm(kw.value) for kw in c.keywords if kw.arg == "dtype"), "<none>")
            dt = {data_t: "<vlen complex128>", shape_t: "<vlen int>"}.get(dt, dt)
            table.setdefault(k, set()).add(dt)
    want = {"hs_dim": {"'i'"}, "dt": {"'float64'"}, "transform_in": {"'complex128'"},
            "transform_out": {"'complex128'"}, "initial_tensor_data": {"<vlen complex128>"},
            "mpo_tensors_data": {"<vlen complex128>"}, "cap_tensors_data": {"<vlen complex128>"},
            "initial_tensor_shape": {"<vlen int>"}, "mpo_tensors_shape": {"<vlen int>"},
            "cap_tensors_shape": {"<vlen int>"}}
    chk.add("X7", cf, "dataset dtypes", table == want,
            "" if table == want else f"differs for {sorted(k for k in want if table.get(k) != want[k])}")
    casts = []
    for q in (f"{PT}:_set_data_and_shape", f"{PT}:_get_data_and_shape",
              f"{PT}:FileProcessTensor.get_mpo_tensor", f"{PT}:SimpleProcessTensor.get_mpo_tensor",
              f"{PT}:SimpleProcessTensor.export", f"{PT}:import_process_tensor"):
        u = prog.unit(q)
        for c in walk_local(u.node):
            if isinstance(c, ast.Call) and isinstance(c.func, ast.Attribute) and \
                    c.func.attr in ("astype", "round", "real", "view"):
                casts.append(f"{q.split(':')[1]}: {norm(c)[:40]}")
            if isinstance(c, ast.Call) and any(k.arg == "dtype" and "64" in norm(k.value)
                                               and "complex128" not in norm(k.value)
                                               and "float64" not in norm(k.value)
                                               for k in c.keywords):
                casts.append(f"{q.split(':')[1]}: {norm(c)[:40]}")
    chk.add("X7", prog.unit(f"{PT}:_set_data_and_shape"), "no narrowing cast on the round-trip path",
            not casts, "" if not casts else f"casts: {casts}")


# --------------------------------------------------------------------- X8
def x8(prog: Program, chk: Check) -> None:
    chk.rule("X8", "reading a file back: a field becomes None exactly when ITS OWN stored value is "
             "the None sentinel - every `<field> = None` in _read_file depends only on "
             "_is_hdf5_none(<that field>), so the presence of one optional field never decides "
             "about another", floor=3)
    u = prog.unit(f"{PT}:FileProcessTensor._read_file")
    chk.saw(u)
    n = 0
    for st in walk_local(u.node):
        if not isinstance(st, ast.Assign):
            continue
        pairs = []
        for t in st.targets:
            if isinstance(t, (ast.Tuple, ast.List)) and isinstance(st.value, (ast.Tuple, ast.List)) \
                    and len(t.elts) == len(st.value.elts):
                pairs += list(zip(t.elts, st.value.elts))
            else:
                pairs.append((t, st.value))
        for (t, v) in pairs:
            if not (isinstance(v, ast.Constant) and v.value is None and dotted(t)):
                continue
            tests = [tt for (tt, br) in branch_context(u.node, st)]
            subjects = {norm(c.args[0]) for tt in tests for c in ast.walk(tt)
                        if isinstance(c, ast.Call) and call_name(c) == "_is_hdf5_none" and c.args}
            if not subjects:
                continue
            n += 1
            ok = subjects == {dotted(t)}
            chk.add("X8", u, f"{dotted(t)} = None under _is_hdf5_none({sorted(subjects)})", ok,
                    "its own sentinel" if ok else
                    f"`{dotted(t)}` is dropped depending on {sorted(subjects - {dotted(t)})}: a file "
                    f"that stores only one of the optional fields is imported without it", st)
    if n < 3:
        raise AnalysisError(f"X8: only {n} sentinel-to-None conversions found in _read_file "
                            f"(dt, transform_in, transform_out expected)")


def x9(prog: Program, chk: Check) -> None:
    chk.rule("X9", "export and import move tensors, they do not compute: what a setter of the "
             "target process tensor receives is what the source's getter / stored list held, and "
             "what the HDF5 helpers write into and read from the flat datasets is the tensor "
             "itself - value-preserving conversions only (dtype / layout conversion, copy, "
             "flatten / reshape); arithmetic on the way (a rescaling, a rounding, a cast of the "
             "values) makes the copy differ from the original", floor=8)
    from rules.valueflow import moves_keep_values
    moves_keep_values(prog, chk, "X9")


def x10(prog: Program, chk: Check) -> None:
    chk.rule("X10", "a file-backed process tensor answers every request from its file as the "
             "request asks: no getter of the process-tensor classes serves a remembered value "
             "(dict memo, lazily set attribute, single-slot 'last result' memo) that leaves an "
             "argument of the request out of its key - e.g. the `transformed` flag, which would "
             "hand out the raw tensor where the rotated one was asked for right after a raw "
             "read of the same step", floor=1)
    from rules.c20 import memo_findings
    units = [u for u in prog.units_in("process_tensor") if not isinstance(u.node, ast.Lambda)
             and u.cls is not None]
    n = 0
    for (u, node, construct, missing) in memo_findings(prog, units):
        n += 1
        chk.saw(u)
        chk.add("X10", u, construct, not missing,
                "identified by everything it depends on" if not missing else
                f"the remembered value depends on {missing}, which is not part of the key: the "
                f"imported process tensor is not used like the original", node)
    chk.add("X10", prog.module("process_tensor"), f"{len(units)} methods scanned, {n} memo idiom(s)",
            len(units) >= 40, "" if len(units) >= 40 else "the module shrank")


def swapped_arguments(prog: Program, modules: Optional[Set[str]] = None):
    """[(unit, call, parameter a, parameter b)]: calls of package callables (by signature: module
    functions, methods with one signature across the package, constructors, super().__init__)
    in which two positional arguments are plain names that are each the NAME of the other's
    parameter - `f(x, transform_out, transform_in)` for `def f(x, transform_in, transform_out)`."""
    out = []
    n_calls = 0
    for u in prog.units.values():
        if isinstance(u.node, ast.Lambda):
            continue
        if modules is not None and u.module.short not in modules:
            continue
        for c in walk_local(u.node):
            if not isinstance(c, ast.Call) or len(c.args) < 2:
                continue
            params = None
            f = c.func
            if isinstance(f, ast.Attribute) and f.attr == "__init__" and isinstance(f.value, ast.Call) \
                    and isinstance(f.value.func, ast.Name) and f.value.func.id == "super":
                ci = prog.class_of_unit(u)
                if ci is not None:
                    for b in prog.mro(ci)[1:]:
                        if "__init__" in b.methods:
                            params = b.methods["__init__"].params[1:]
                            break
            else:
                key = f.id if isinstance(f, ast.Name) else ("." + f.attr if isinstance(f, ast.Attribute) else None)
                params = prog.signatures.get(key) if key else None
            if not params:
                continue
            n_calls += 1
            names = [(i, a.id) for i, a in enumerate(c.args[:len(params)]) if isinstance(a, ast.Name)]
            for (i, ai) in names:
                for (j, aj) in names:
                    if i < j and ai == params[j] and aj == params[i]:
                        out.append((u, c, params[i], params[j]))
    return out, n_calls


def x11(prog: Program, chk: Check) -> None:
    chk.rule("X11", "every field of a process tensor reaches the constructor parameter it is named "
             "after: no call of a package callable (by signature; also super().__init__) passes "
             "two plain names in each other's positions - transform_in and transform_out "
             "exchanged on the way to the base class give a file whose two basis changes are "
             "stored under each other's keys (invisible whenever they happen to be equal)", floor=1)
    hits, n_calls = swapped_arguments(prog, {"process_tensor", "pt_tempo", "backends.pt_tempo_backend"})
    for (u, c, pa, pb) in hits:
        chk.saw(u)
        chk.add("X11", u, f"{norm(c.func)}(..): `{pb}` passed as {pa}, `{pa}` passed as {pb}", False,
                f"the arguments named {pa} and {pb} are handed over in each other's positions", c)
    chk.add("X11", prog.module("process_tensor"), f"{n_calls} calls with a known signature and two or "
            f"more positional arguments examined, {len(hits)} with exchanged names", n_calls >= 20,
            "" if n_calls >= 20 else "fewer resolvable calls than confirmed by hand")


def storage_layout(prog: Program, chk: Check, rule: str) -> None:
    chk.rule(rule, "tensors are flattened for storage and restored in the same (logical, C) index "
             "order: the process-tensor module flattens / reshapes nothing in memory order ('K', "
             "'A') or Fortran order - the reader rebuilds with reshape(shape), so a tensor handed "
             "over as a transposed / Fortran-ordered view would come back with its entries "
             "permuted under the right shape", floor=1)
    from rules.c20 import layout_orders
    hits = layout_orders(prog, modules={"process_tensor"})
    for (u, c, order) in hits:
        chk.saw(u)
        chk.add(rule, u, f"{norm(c)[:60]}", False,
                f"order={order!r}: the flat data no longer follow the index order the reader "
                f"assumes; a non-contiguous tensor is stored scrambled", c)
    n = sum(1 for u in prog.units_in("process_tensor") for c in walk_local(u.node)
            if isinstance(c, ast.Call) and (dotted(c.func) or "").split(".")[-1]
            in ("ravel", "flatten", "reshape"))
    chk.add(rule, prog.module("process_tensor"), f"{n} flatten / reshape calls in the process-tensor "
            f"module, {len(hits)} with a layout-dependent order", True,
            "all in logical (C) order" if not hits else "reported above")
    if n < 1:
        raise AnalysisError(f"{rule}: the process-tensor module no longer flattens / restores its tensors")


def read_only_getters(prog: Program, chk: Check, rule: str) -> None:
    chk.rule(rule, "reading a process tensor does not change it: the attributes its setters own "
             "(the lists / data sets of MPO, cap, lambda and initial tensors) are never written "
             "by a get_* method or a property - a getter that writes the tensor it returns back "
             "into the store applies the basis transforms again at the next read", floor=4)
    n = 0
    for cq in ("process_tensor:SimpleProcessTensor", "process_tensor:FileProcessTensor",
               "process_tensor:TrivialProcessTensor"):
        if cq not in prog.classes:
            continue
        ci = prog.cls(cq)
        owned = set()
        for name, mu in ci.methods.items():
            if not name.startswith("set_"):
                continue
            for st in walk_local(mu.node):
                tgts = st.targets if isinstance(st, ast.Assign) else \
                    ([st.target] if isinstance(st, ast.AugAssign) else [])
                if isinstance(st, ast.Assign) and (isinstance(st.value, ast.Constant) or (
                        isinstance(st.value, (ast.Tuple, ast.List)) and st.value.elts
                        and all(isinstance(e_, ast.Constant) for e_ in st.value.elts))):
                    tgts = []         # resetting a memo / flag: not the store of the tensors
                for t in tgts:
                    base = t
                    while isinstance(base, ast.Subscript):
                        base = base.value
                    if isinstance(base, ast.Attribute) and isinstance(base.value, ast.Name) \
                            and base.value.id == "self":
                        owned.add(base.attr)
                if isinstance(st, ast.Call) and isinstance(st.func, ast.Name) \
                        and st.func.id.startswith("_set"):
                    # helper that writes into the data sets it is handed
                    for a in list(st.args) + [k.value for k in st.keywords]:
                        if isinstance(a, ast.Attribute) and isinstance(a.value, ast.Name) and a.value.id == "self":
                            owned.add(a.attr)
        if not owned:
            continue
        for name, mu in ci.methods.items():
            deco = [norm(d) for d in mu.node.decorator_list] if hasattr(mu.node, "decorator_list") else []
            getter = name.startswith("get_") or "property" in deco
            if not getter:
                continue
            n += 1
            chk.saw(mu)
            bad = []
            for st in walk_local(mu.node):
                tgts = st.targets if isinstance(st, ast.Assign) else \
                    ([st.target] if isinstance(st, ast.AugAssign) else [])
                for t in tgts:
                    base = t
                    while isinstance(base, ast.Subscript):
                        base = base.value
                    if isinstance(base, ast.Attribute) and isinstance(base.value, ast.Name) \
                            and base.value.id == "self" and base.attr in owned:
                        bad.append(st)
                if isinstance(st, ast.Call) and isinstance(st.func, ast.Attribute) \
                        and st.func.attr in ("append", "insert", "pop", "resize", "clear", "extend", "remove") \
                        and isinstance(st.func.value, ast.Attribute) \
                        and isinstance(st.func.value.value, ast.Name) and st.func.value.value.id == "self" \
                        and st.func.value.attr in owned:
                    bad.append(st)
            chk.add(rule, mu, f"{name}: no write to {sorted(owned)[:4]}", not bad,
                    "" if not bad else f"the getter writes the store: {norm(bad[0])[:60]}",
                    bad[0] if bad else None)
    if n < 4:
        raise AnalysisError(f"{rule}: only {n} getters of the process-tensor classes found (floor 4)")


def x13(prog: Program, chk: Check) -> None:
    read_only_getters(prog, chk, "X13")


def x12(prog: Program, chk: Check) -> None:
    storage_layout(prog, chk, "X12")


def run(prog: Program, chk: Check) -> None:
    chk.explanation = (
        "Decides the structural clauses of C16: writer/reader key-table agreement (X1), field "
        "coverage and pairing of export and import (X2), None round trip of the initial tensor "
        "(path-sensitive nullness over all setter paths, X3), shape/data pairing and sentinel "
        "(X4), raw-vs-transformed discipline and sibling agreement of get_mpo_tensor (X5), "
        "agreement of the two PtTempo constructions (X6).")
    chk.not_decided = ("Bitwise equality of tensor data through HDF5 (library behaviour) and "
                       "identical downstream numerical results.")
    chk.assumptions = ["h5py: create_dataset(key, ...) / file[key] address the same object",
                       "np.array(None) is a NaN scalar, not None"]
    chk.call(x1, prog, chk)
    chk.call(x2, prog, chk)
    chk.call(x3, prog, chk)
    chk.call(x4, prog, chk)
    chk.call(x5, prog, chk)
    chk.call(x6, prog, chk)
    chk.call(x7, prog, chk)
    chk.call(x8, prog, chk)
    chk.call(x9, prog, chk)
    chk.call(x10, prog, chk)
    chk.call(x11, prog, chk)
    chk.call(x12, prog, chk)
    chk.call(x13, prog, chk)
