"""C11 - Gibbs state: idempotent compute (K1), normalised by construction
(K2), imaginary-time slice and label forms (K3)."""
from __future__ import annotations

import ast
from typing import List, Optional, Set, Tuple

from oqv.astutil import call_name, method_call
from oqv.cfg import CFG
from oqv.dataflow import DefUse, form_at
from oqv.forms import Poly, eval_form
from oqv.model import AnalysisError, Program, Unit, dotted, norm, walk_local, kw_of
from oqv.report import Check
from rules import c14


def run(prog: Program, chk: Check) -> None:
    chk.explanation = (
        "Decides three clauses of C11: K1 repeating GibbsTempo.compute() takes only the steps "
        "still missing (guarded stepping, shared with C14 T1); K2 get_state() returns "
        "X / X.trace() of the last recorded state on every path, so unit trace holds by "
        "construction, and gibbs_tempo_compute returns get_state(); K3 the imaginary-time slice "
        "is 1/(T*n_steps), labels are step*dt, and the label offset used by the front end equals "
        "the offset between the back end's step counter and its data list, so the last state is "
        "labelled n_steps*dt = 1/T; K4 Matsubara coefficients on the imaginary-time grid; K5 "
        "every factor of the imaginary-time path is the untransposed half-step propagator.")
    chk.not_decided = ("Equality with the reduced thermal state at finite coupling and the "
                       "weak-coupling limit. K5 decides the orientation of the result only through "
                       "the transposition parity of the propagator factors.")
    # ---------------------------------------------------------------- K1
    chk.rule("K1", "GibbsTempo.compute: the number of further steps depends on the back end's "
             "current step and on n_steps", floor=1)
    q = "tempo:GibbsTempo.compute"
    u = prog.unit(q)
    du = DefUse(u, CFG(u.node, exc_edges=False))
    chk.saw(u, du.cfg)
    step_calls, targets = c14.FRONT_ENDS[q]
    sites = [c for c in walk_local(u.node) if isinstance(c, ast.Call)
             and dotted(c.func) in step_calls]
    if not sites:
        raise AnalysisError("K1: no stepping call in GibbsTempo.compute")
    for c in sites:
        ok, why = c14._guarded(prog, u, du, c, du.node_of(c), set(targets))
        chk.add("K1", u, f"{norm(c.func)}()", ok, why, c)

    # ---------------------------------------------------------------- K2
    chk.rule("K2", "get_state returns X / X.trace() with X the last recorded state on every "
             "path; gibbs_tempo_compute returns get_state()", floor=2)
    gs = prog.unit("tempo:GibbsTempo.get_state")
    du2 = DefUse(gs, CFG(gs.node, exc_edges=False))
    chk.saw(gs, du2.cfg)
    rets = [n for n in du2.cfg.nodes if n.kind == "stmt" and isinstance(n.ast, ast.Return)]
    if not rets:
        raise AnalysisError("K2: get_state has no return")
    for rn in rets:
        ok, why = _normalised(du2, rn.id, rn.ast.value)
        chk.add("K2", gs, f"return {norm(rn.ast.value)}", ok, why, rn.ast)
    gc = prog.unit("tempo:gibbs_tempo_compute")
    du3 = DefUse(gc, CFG(gc.node, exc_edges=False))
    for rn in [n for n in du3.cfg.nodes if n.kind == "stmt" and isinstance(n.ast, ast.Return)]:
        v = rn.ast.value
        ok = isinstance(v, ast.Call) and isinstance(v.func, ast.Attribute) and v.func.attr == "get_state"
        if ok:
            ds = du3.reaching(rn.id, dotted(v.func.value) or "")
            ok = bool(ds) and all(isinstance(d.value, ast.Call) and call_name(d.value) == "GibbsTempo"
                                  for d in ds)
        chk.add("K2", gc, f"return {norm(v)}", ok,
                "" if ok else "the shortcut does not return the normalised get_state()", rn.ast)

    # ---------------------------------------------------------------- K3
    chk.rule("K3", "time_step_length = 1/(T*n_steps); _time(step) = step*dt; label offset of "
             "new states = offset between back-end step counter and data list; loop bound "
             "n_steps - offset - step", floor=4)
    tsl = prog.unit("tempo:GibbsParameters.time_step_length")
    r = [x for x in walk_local(tsl.node) if isinstance(x, ast.Return)][0]

    def res(x):
        d = dotted(x)
        if d == "temperature":
            return Poly.sym("T")
        if d in ("self._n_steps", "self.n_steps"):
            return Poly.sym("N")
        return None
    f = eval_form(r.value, res)
    want = Poly.const(1).div(Poly.sym("T") * Poly.sym("N"))
    chk.add("K3", tsl, f"return {norm(r.value)}", f == want,
            f"form {f}" if f == want else f"imaginary-time slice has form {f}, expected 1/(T*N)", r)
    tm = prog.unit("tempo:GibbsTempo._time")
    r = [x for x in walk_local(tm.node) if isinstance(x, ast.Return)][0]

    def res2(x):
        d = dotted(x)
        if d == "step":
            return Poly.sym("STEP")
        if d == "self._dt":
            return Poly.sym("DT")
        return None
    f = eval_form(r.value, res2)
    chk.add("K3", tm, f"return {norm(r.value)}", f == Poly.sym("STEP") * Poly.sym("DT"),
            f"form {f}", r)
    # offset between TIBaseBackend._step and len(data)-1
    be = prog.cls("backends.tempo_backend:TIBaseBackend")
    init, ini, cs = be.methods["__init__"], be.methods["initialise"], be.methods["compute_step"]

    def n_appends(unit):
        return sum(1 for c in walk_local(unit.node) if isinstance(c, ast.Call)
                   and method_call(c) == ("self.data", "append"))
    len0 = None
    for st in walk_local(init.node):
        if isinstance(st, ast.Assign) and any(dotted(t) == "self.data" for t in st.targets) \
                and isinstance(st.value, ast.List):
            len0 = len(st.value.elts)
    step0 = None
    for st in walk_local(ini.node):
        if isinstance(st, ast.Assign) and any(dotted(t) == "self._step" for t in st.targets) \
                and isinstance(st.value, ast.Constant) and isinstance(st.value.value, int):
            step0 = st.value.value
    inc = [st for st in walk_local(cs.node) if isinstance(st, ast.AugAssign)
           and dotted(st.target) == "self._step" and isinstance(st.op, ast.Add)
           and isinstance(st.value, ast.Constant) and st.value.value == 1]
    if len0 is None or step0 is None:
        raise AnalysisError("K3: TIBaseBackend data/step initialisation not recognised")
    ok_step = len(inc) == 1 and n_appends(cs) == 1
    chk.add("K3", cs, "one data entry per step increment", ok_step,
            "" if ok_step else "compute_step does not append exactly one state per step")
    offset = (len0 + n_appends(ini) - 1) - step0     # index of last data entry minus step
    # front end: label of new states
    adds = []
    for c in walk_local(u.node):
        if isinstance(c, ast.Call) and method_call(c) == ("self._dynamics", "add"):
            t = c.args[0]
            if isinstance(t, ast.Name):
                dt_ = du.unique_value(du.node_of(c), t.id)
                if dt_ is not None and dt_.value is not None and not dt_.sel:
                    t = dt_.value
            if isinstance(t, ast.Call) and method_call(t) == ("self", "_time"):
                adds.append((c, t.args[0]))
    found_loop_label = False
    for (c, a) in adds:
        nid = du.node_of(c)

        def res3(x):
            if isinstance(x, ast.Name):
                ds = du.reaching(nid, x.id)
                if ds and all(d.value is not None and isinstance(d.value, ast.Call)
                              and dotted(d.value.func) in step_calls
                              and d.sel and d.sel[0] == ("idx", 0) for d in ds):
                    return Poly.sym("STEP")
                if ds and all(d.sel and d.sel[0] == ("iter",) and isinstance(d.value, ast.Call)
                              and dotted(d.value.func) == "enumerate" and ("idx", 0) in d.sel
                              for d in ds):
                    return Poly.sym("INDEX")
            return None
        f = eval_form(a, res3)
        if f == Poly.sym("INDEX"):
            chk.add("K3", u, f"initial entries labelled _time({norm(a)})", True,
                    "data index used as step", c)
        else:
            found_loop_label = True
            want = Poly.sym("STEP") + Poly.const(offset)
            chk.add("K3", u, f"new state labelled _time({norm(a)})", f == want,
                    f"offset {offset} = index of last data entry - back-end step" if f == want else
                    f"label form {f}, but the back end's data index is STEP + {offset}", c)
    if not found_loop_label:
        raise AnalysisError("K3: label of newly computed states not found in GibbsTempo.compute")
    # loop bound: N - offset - STEP  (so that the last label is N*dt = 1/T)
    for c in sites:
        loop = None
        for x in walk_local(u.node):
            if isinstance(x, ast.For) and any(y is c for y in ast.walk(x)):
                loop = x
        if loop is None or not (isinstance(loop.iter, ast.Call) and dotted(loop.iter.func) == "range"):
            continue
        nid = du.node_of(loop.iter)

        def res4(x):
            d = dotted(x)
            if d in ("self._parameters.n_steps", "self._backend_instance.max_step"):
                return Poly.sym("N")
            if d in c14.STEP_SOURCES:
                return Poly.sym("STEP")
            if isinstance(x, ast.Call) and dotted(x.func) == "max" and len(x.args) == 2:
                for i in (0, 1):
                    if isinstance(x.args[i], ast.Constant) and x.args[i].value == 0:
                        return form_at(du, nid, x.args[1 - i], res4)
            return None
        f = form_at(du, nid, loop.iter.args[0], res4)
        want = Poly.sym("N") - Poly.const(offset) - Poly.sym("STEP")
        chk.add("K3", u, f"range({norm(loop.iter.args[0])})", f == want,
                f"bound {f}: final label (STEP+{offset})*dt = N*dt = 1/T" if f == want else
                f"bound {f}, expected {want}: the last state would not be at 1/T", loop)
    chk.call(k4, prog, chk)
    chk.call(k5, prog, chk)
    chk.call(k6, prog, chk)
    chk.call(k7, prog, chk)
    chk.call(k8, prog, chk)
    chk.call(k9, prog, chk)
    chk.call(k10, prog, chk)
    chk.call(k11, prog, chk)


def k4(prog: Program, chk: Check) -> None:
    chk.rule("K4", "the Gibbs coefficients are Matsubara (imaginary-time) 2D integrals over cells of "
             "the imaginary-time slice; the slice comes from the bath temperature; the free "
             "propagator is exp(-H dt/2) (imaginary time step -i dt)", floor=4)
    u = prog.unit("tempo:GibbsTempo._prepare_backend")
    # the callable handed to the back end as `coefficients`: a closure, a bound method or a lambda
    co = []
    be_calls = [c for c in walk_local(u.node) if isinstance(c, ast.Call) and call_name(c) == "TIBaseBackend"]
    if len(be_calls) == 1:
        from oqv.astutil import bind_args
        be = prog.cls("backends.tempo_backend:TIBaseBackend")
        arg = bind_args(be_calls[0], [p for p in be.methods["__init__"].params if p != "self"]).get("coefficients")
        if isinstance(arg, ast.Name):
            co = [v for v in prog.nested_units(u) if v.name == arg.id]
        elif isinstance(arg, ast.Attribute) and isinstance(arg.value, ast.Name) and arg.value.id == "self":
            ci = prog.class_of_unit(u)
            mu = prog.find_method(ci, arg.attr) if ci is not None else None
            co = [mu] if mu is not None else []
        elif isinstance(arg, ast.Lambda):
            co = [v for v in prog.nested_units(u) if v.node is arg]
    if not co:
        raise AnalysisError("K4: the coefficients callable handed to TIBaseBackend was not found")
    calls = [c for c in walk_local(co[0].node) if isinstance(c, ast.Call)
             and isinstance(c.func, ast.Attribute) and c.func.attr == "correlation_2d_integral"]
    if len(calls) != 1:
        raise AnalysisError("K4: correlation_2d_integral call in coeffs not found")
    c = calls[0]
    kw = kw_of(c)
    ok = isinstance(kw.get("matsubara"), ast.Constant) and kw["matsubara"].value is True
    chk.add("K4", co[0], f"correlation_2d_integral(.., matsubara={norm(kw['matsubara']) if 'matsubara' in kw else '<missing>'})",
            ok, "" if ok else "real-time instead of imaginary-time integrals", c)
    ok = len(c.args) >= 2 and norm(c.args[0]) == "self._dt" and norm(c.args[1]) in ("k * self._dt", "self._dt * k")
    chk.add("K4", co[0], f"cell (delta={norm(c.args[0])}, time_1={norm(c.args[1])})", ok,
            "" if ok else "the coefficient cells are not the grid of the imaginary-time slice", c)
    init = prog.unit("tempo:GibbsTempo.__init__")
    srcs = {dotted(st.targets[0]): norm(st.value) for st in walk_local(init.node)
            if isinstance(st, ast.Assign) and dotted(st.targets[0])}
    ok = srcs.get("self._dt") == "self._parameters.time_step_length(self._temperature)" and \
        srcs.get("self._temperature") == "self._correlations.temperature" and \
        srcs.get("self._correlations") == "self._bath.correlations"
    chk.add("K4", init, f"self._dt = {srcs.get('self._dt')}", ok,
            "slice from the bath temperature" if ok else
            "the imaginary-time slice is not derived from the bath's temperature")
    pc = [x for x in walk_local(u.node) if isinstance(x, ast.Call) and
          isinstance(x.func, ast.Attribute) and x.func.attr == "get_unitary_propagators"]
    ok = False
    if len(pc) == 1 and pc[0].args:
        def leaf(x):
            if isinstance(x, ast.Constant) and isinstance(x.value, complex) and x.value.real == 0:
                return Poly.sym("I") * Poly.const(int(x.value.imag))
            if dotted(x) == "self._dt":
                return Poly.sym("DT")
            return None
        du_k4 = DefUse(u, CFG(u.node, exc_edges=False))
        f = form_at(du_k4, du_k4.node_of(pc[0]), pc[0].args[0], leaf)
        ok = f == -(Poly.sym("I") * Poly.sym("DT"))
    chk.add("K4", u, f"get_unitary_propagators({norm(pc[0].args[0]) if pc else '?'}, ..)", ok,
            "imaginary time step -i*dt" if ok else "the free propagator is not exp(-H dt/2)")


# --------------------------------------------------------------------- K5
def _is_transpose(x: ast.AST) -> Optional[ast.AST]:
    """Operand if x is a matrix transpose (x.T, x.transpose(), np.transpose(x),
    np.swapaxes(x, 0, 1)), else None."""
    if isinstance(x, ast.Attribute) and x.attr == "T":
        return x.value
    if isinstance(x, ast.Call):
        fn = dotted(x.func) or ""
        if isinstance(x.func, ast.Attribute) and x.func.attr == "transpose" and not x.args \
                and fn.split(".")[0] not in ("np", "numpy"):
            return x.func.value
        if fn in ("np.transpose", "numpy.transpose", "transpose") and len(x.args) == 1:
            return x.args[0]
        if fn in ("np.swapaxes", "numpy.swapaxes", "swapaxes") and len(x.args) == 3 \
                and [getattr(a, "value", None) for a in x.args[1:]] in ([0, 1], [1, 0]):
            return x.args[0]
    return None


def occurrence_parities(root: ast.AST, is_target) -> List[Tuple[ast.AST, int]]:
    """(occurrence, number of transposes enclosing it inside root) for every node accepted
    by is_target."""
    out = []

    def rec(x, par):
        if is_target(x):
            out.append((x, par))
            return
        op = _is_transpose(x)
        if op is not None:
            rec(op, par + 1)
            # remaining children of a call (axes arguments) carry no matrix
            return
        for ch in ast.iter_child_nodes(x):
            rec(ch, par)
    rec(root, 0)
    return out


PROP_USERS = ("_influence_tensor", "initialise", "readout")


def propagator_parities(prog: Program):
    """Transposition parity of the half-step propagator inside TIBaseBackend:
    (parity at storage, [(unit, statement, occurrence, parity at use)])."""
    be = prog.cls("backends.tempo_backend:TIBaseBackend")
    init = be.methods["__init__"]
    if "propagator" not in init.params:
        raise AnalysisError("K5: TIBaseBackend.__init__ lost its propagator argument")
    store = [st for st in walk_local(init.node) if isinstance(st, ast.Assign)
             and any(dotted(t) == "self._prop" for t in st.targets)]
    if len(store) != 1:
        raise AnalysisError("K5: TIBaseBackend no longer stores the propagator once as self._prop")
    occ = occurrence_parities(store[0].value,
                              lambda x: isinstance(x, ast.Name) and x.id == "propagator")
    if len(occ) != 1:
        raise AnalysisError("K5: self._prop is not the propagator argument (possibly transposed)")
    p0 = occ[0][1]
    uses = []
    for name, mu in be.methods.items():
        if name == "__init__":
            continue
        aliases = {}
        stmts = [st for st in walk_local(mu.node) if isinstance(st, ast.stmt)
                 and not isinstance(st, (ast.FunctionDef, ast.If, ast.For, ast.While, ast.With,
                                         ast.Try))]
        for st in stmts:
            if isinstance(st, ast.Assign) and len(st.targets) == 1 \
                    and isinstance(st.targets[0], ast.Name):
                o = occurrence_parities(st.value, lambda x: dotted(x) == "self._prop")
                # plain alias: prop = self._prop / prop = self._prop.T
                inner = st.value
                k = 0
                while _is_transpose(inner) is not None:
                    inner = _is_transpose(inner)
                    k += 1
                n_assign = sum(1 for s2 in stmts if isinstance(s2, (ast.Assign, ast.AugAssign))
                               and any(isinstance(y, ast.Name) and y.id == st.targets[0].id
                                       and isinstance(y.ctx, ast.Store) for y in ast.walk(s2)))
                if dotted(inner) == "self._prop" and n_assign == 1:
                    aliases[st.targets[0].id] = k
                    continue
        # a product of propagators held in a local of its own (`full = dot(P, P)` ... `full.T`):
        # the local is read as the expression it stands for
        import copy as _copy
        from oqv.canon import _Subst
        temps = {}
        for st in stmts:
            if isinstance(st, ast.Assign) and len(st.targets) == 1 \
                    and isinstance(st.targets[0], ast.Name) and st.targets[0].id not in aliases:
                nm = st.targets[0].id
                n_assign = sum(1 for s2 in stmts if isinstance(s2, (ast.Assign, ast.AugAssign))
                               and any(isinstance(y, ast.Name) and y.id == nm
                                       and isinstance(y.ctx, ast.Store) for y in ast.walk(s2)))
                n_use = sum(1 for y in ast.walk(mu.node) if isinstance(y, ast.Name) and y.id == nm
                            and isinstance(y.ctx, ast.Load))
                if n_assign == 1 and n_use == 1 and isinstance(st.value, ast.Call) \
                        and (dotted(st.value.func) or "").split(".")[-1] in ("dot", "matmul") \
                        and any(dotted(y) == "self._prop" or (isinstance(y, ast.Name) and y.id in aliases)
                                for y in ast.walk(st.value)):
                    temps[nm] = st
        for st in stmts:
            if isinstance(st, ast.Assign) and len(st.targets) == 1 \
                    and isinstance(st.targets[0], ast.Name) and \
                    (st.targets[0].id in aliases or st.targets[0].id in temps):
                continue

            def tgt(x):
                return dotted(x) == "self._prop" or (
                    isinstance(x, ast.Name) and isinstance(x.ctx, ast.Load) and x.id in aliases)
            root = st.value if isinstance(st, (ast.Assign, ast.Return, ast.Expr, ast.AugAssign)) \
                else st
            if root is None:
                continue
            if temps and any(isinstance(y, ast.Name) and y.id in temps for y in ast.walk(root)):
                root = _Subst({k: v.value for k, v in temps.items()}).visit(_copy.deepcopy(root))
                ast.fix_missing_locations(root)
            for (x, par) in occurrence_parities(root, tgt):
                extra = aliases.get(x.id, 0) if isinstance(x, ast.Name) else 0
                uses.append((mu, st, x, par + extra))
    bad = sorted({mu.name for (mu, _, _, _) in uses} - set(PROP_USERS))
    if bad:
        raise AnalysisError(f"K5: the propagator is now also used in {bad}; the use-site table "
                            f"(_influence_tensor, initialise, readout) must be re-confirmed")
    if len(uses) < 4 or {mu.name for (mu, _, _, _) in uses} != set(PROP_USERS):
        raise AnalysisError(f"K5: expected propagator uses in {PROP_USERS}, found "
                            f"{sorted({mu.name for (mu, _, _, _) in uses})} ({len(uses)} uses)")
    return p0, uses


def caller_parity(prog: Program) -> Tuple[int, ast.AST, Unit]:
    u = prog.unit("tempo:GibbsTempo._prepare_backend")
    calls = [c for c in walk_local(u.node) if isinstance(c, ast.Call)
             and call_name(c) == "TIBaseBackend"]
    if len(calls) != 1:
        raise AnalysisError("K5: GibbsTempo._prepare_backend no longer builds one TIBaseBackend")
    be = prog.cls("backends.tempo_backend:TIBaseBackend")
    from oqv.astutil import bind_args
    b = bind_args(calls[0], [p for p in be.methods["__init__"].params if p != "self"])
    e = b.get("propagator")
    if e is None:
        raise AnalysisError("K5: TIBaseBackend(...) is built without a propagator")
    env = {}
    for st in walk_local(u.node):
        if isinstance(st, ast.Assign) and len(st.targets) == 1 and isinstance(st.targets[0], ast.Name):
            env.setdefault(st.targets[0].id, []).append(st.value)
    par, depth = 0, 0
    while depth < 10:
        depth += 1
        op = _is_transpose(e)
        if op is not None:
            par, e = par + 1, op
            continue
        if isinstance(e, ast.Subscript):
            e = e.value
            continue
        if isinstance(e, ast.Name) and len(env.get(e.id, [])) == 1:
            e = env[e.id][0]
            continue
        if isinstance(e, ast.Call) and isinstance(e.func, ast.Name) and len(env.get(e.func.id, [])) == 1:
            e = env[e.func.id][0]
            continue
        break
    if not (isinstance(e, ast.Call) and isinstance(e.func, ast.Attribute)
            and e.func.attr == "get_unitary_propagators"):
        raise AnalysisError(f"K5: the propagator handed to TIBaseBackend does not come from "
                            f"get_unitary_propagators (`{norm(e)[:60]}`)")
    return par, calls[0], u


def k5(prog: Program, chk: Check) -> None:
    chk.rule("K5", "orientation of the thermal state: every factor of the imaginary-time path "
             "is the half-step propagator exp(-H dt/2) itself - the transposes applied where "
             "GibbsTempo hands it over, where TIBaseBackend stores it and where it is used "
             "(_influence_tensor, initialise, readout) add up to an even number at every use. "
             "At zero coupling the read-out is the ordered product of that one matrix, so an odd "
             "total returns (exp(-H/T)/Z)^T, which differs for every Hamiltonian with complex "
             "entries", floor=4)
    pc, call, cu = caller_parity(prog)
    p0, uses = propagator_parities(prog)
    chk.saw(cu)
    for (mu, st, x, par) in uses:
        total = pc + p0 + par
        chk.add("K5", mu, f"{norm(st)[:70]}", total % 2 == 0,
                f"transposes: {pc} at GibbsTempo._prepare_backend + {p0} at storage + {par} at "
                f"this use = {total}" + ("" if total % 2 == 0 else
                                         ": this factor of the path is exp(-H dt/2)^T"), x)



# --------------------------------------------------------------------- K6
def k6(prog: Program, chk: Check) -> None:
    chk.rule("K6", "the imaginary-time coefficients are computed for matsubara=True and not "
             "served from a slot a real-time evaluation may have filled: every function of "
             "bath_correlations with a `matsubara` argument that keeps a hand-written memo keys "
             "it by that argument (functools caches key by all arguments)", floor=3)
    from rules.c20 import _a7_unit
    n = 0
    for u in prog.units_in("bath_correlations"):
        if isinstance(u.node, ast.Lambda) or "matsubara" not in u.params:
            continue
        n += 1
        memos = _a7_unit(u)
        if not memos:
            chk.add("K6", u, "no hand-written memo", True,
                    "values are recomputed or cached by functools on the full argument tuple")
        for (st, attr, key_expr, covered, missing) in memos:
            ok = "matsubara" not in missing
            chk.add("K6", u, f"memo {attr}[{norm(key_expr)}]", ok,
                    f"keyed / validated by {covered}" if ok else
                    "the Matsubara flag is not part of the key: after a real-time evaluation on "
                    "the same grid GibbsTempo is served real-time kernels", st)
    if n < 3:
        raise AnalysisError(f"K6: only {n} functions with a matsubara argument left (floor 3)")



# --------------------------------------------------------------------- K7
def k7(prog: Program, chk: Check) -> None:
    chk.rule("K7", "levels with equal coupling eigenvalue are summed together, not dropped: the "
             "matrix TIBaseBackend._unique returns next to the representatives marks every member "
             "of a class - it is built from an equality test between the class label of each "
             "element and each representative", floor=1)
    u = prog.unit("backends.tempo_backend:TIBaseBackend._unique")
    du = DefUse(u, CFG(u.node, exc_edges=False))
    chk.saw(u, du.cfg)
    rets = [r for r in walk_local(u.node) if isinstance(r, ast.Return)
            and isinstance(r.value, ast.Tuple) and len(r.value.elts) == 2]
    if len(rets) != 1:
        raise AnalysisError("K7: _unique no longer returns (representatives, matrix)")
    reps_e, mat_e = rets[0].value.elts
    nid = du.node_of(rets[0])

    def closure(e, at, depth=0):
        out = [e]
        if depth > 6:
            return out
        for y in ast.walk(e):
            if isinstance(y, ast.Name) and isinstance(y.ctx, ast.Load):
                for d in du.reaching(at, y.id):
                    if d.value is not None and d.node != at:
                        out += closure(d.value, d.node, depth + 1)
        return out
    exprs = closure(mat_e, nid)
    # label list: one class label per element (a comprehension / array over all values)
    cmp_ok = False
    for e in exprs:
        for c in ast.walk(e):
            if isinstance(c, ast.Compare) and len(c.ops) == 1 and isinstance(c.ops[0], ast.Eq):
                cmp_ok = True
    dep_reps = any(isinstance(y, ast.Name) and any(
        d.value is not None and ("set(" in norm(d.value) or "unique" in norm(d.value))
        for d in du.defs if d.name == y.id) for e in exprs for y in ast.walk(e))
    ok = cmp_ok and dep_reps
    chk.add("K7", u, f"membership matrix: {norm(exprs[1] if len(exprs) > 1 else mat_e)[:70]}", ok,
            "labels compared with representatives" if ok else
            "the matrix is not built from an equality test over all elements: only the first "
            "level of each class is kept, the others get zero rows and columns in the Gibbs "
            "state (wrong even at zero coupling)", rets[0])



def _normalised(du: DefUse, nid: int, v: ast.AST):
    # follow a plain local name
    for _ in range(3):
        if isinstance(v, ast.Name):
            d = du.unique_value(nid, v.id)
            if d is None or d.value is None or d.sel:
                return False, "returned value has no unique definition"
            nid, v = d.node, d.value
        else:
            break
    if not (isinstance(v, ast.BinOp) and isinstance(v.op, ast.Div)):
        return False, f"`{norm(v)}` is not a quotient X / X.trace()"
    num, den = v.left, v.right
    tr = None
    if isinstance(den, ast.Call) and isinstance(den.func, ast.Attribute) and den.func.attr == "trace":
        tr = den.func.value
    elif isinstance(den, ast.Call) and (dotted(den.func) or "").endswith("trace") and den.args:
        tr = den.args[0]
    if tr is None:
        return False, f"denominator `{norm(den)}` is not a trace"
    if norm(tr) != norm(num):
        return False, "numerator and traced matrix differ"
    if isinstance(num, ast.Name):
        dn = du.reaching(nid, num.id)
        if len(dn) != 1 or dn[0].value is None:
            return False, "numerator has no unique definition"
        src = norm(dn[0].value)
        last = src.endswith("[-1]") and "states" in src
        return last, (f"X = {src}" if last else f"X = {src} is not the last recorded state")
    return True, f"X = {norm(num)}"


def k8(prog: Program, chk: Check) -> None:
    chk.rule("K8", "the imaginary-time coefficients are second differences of eta_function with "
             "tau = -i*tau_M, tau_M up to 1/T: the thermal eta kernel beyond its overflow guard "
             "keeps every term that is not bounded by exp(-w/T) on the imaginary-time axis, where "
             "exp(+i*w*tau) is as large as exp(w/T) (a dropped term there makes the Gibbs state "
             "of a low-temperature bath wrong)", floor=1)
    from rules.c12 import guard_limits
    guard_limits(prog, chk, "K8", quals=("CustomSD.eta_function",))


WILD = "any"      # a literal zero compares with any scale


def _scale_degree(du, nid, e: ast.AST, sv_names: Set[str], depth: int = 0):
    """Degree of homogeneity of e in the singular values (they have degree 1, the requested
    precision and constants degree 0, a literal 0 any degree); None if e mixes scales."""
    from oqv.dataflow import expand
    if depth > 8:
        return None
    if isinstance(e, ast.Constant):
        if isinstance(e.value, (int, float)) and not isinstance(e.value, bool) and e.value == 0:
            return WILD
        return 0
    if isinstance(e, ast.Name):
        if e.id in sv_names:
            return 1
        ds = [d for d in du.reaching(nid, e.id) if d.value is not None and not d.sel]
        if ds and all(d.node != nid for d in ds):
            degs = {_scale_degree(du, d.node, d.value, sv_names, depth + 1) for d in ds}
            return degs.pop() if len(degs) == 1 else None
        return 0                            # a parameter (the precision) or a global constant
    if isinstance(e, ast.Subscript):
        return _scale_degree(du, nid, e.value, sv_names, depth + 1)
    if isinstance(e, ast.Attribute):
        return 0
    if isinstance(e, ast.UnaryOp):
        return _scale_degree(du, nid, e.operand, sv_names, depth + 1)
    if isinstance(e, ast.BinOp):
        a = _scale_degree(du, nid, e.left, sv_names, depth + 1)
        b = _scale_degree(du, nid, e.right, sv_names, depth + 1)
        if a is None or b is None:
            return None
        if isinstance(e.op, ast.Mult):
            return WILD if WILD in (a, b) else a + b
        if isinstance(e.op, ast.Div):
            return WILD if a == WILD else (None if b == WILD else a - b)
        if isinstance(e.op, (ast.Add, ast.Sub)):
            if a == WILD:
                return b
            if b == WILD:
                return a
            return a if a == b else None
        if isinstance(e.op, ast.Pow) and isinstance(e.right, ast.Constant) and \
                isinstance(e.right.value, (int, float)) and a != WILD:
            return a * e.right.value
        return None
    if isinstance(e, ast.Call):
        fn = (dotted(e.func) or "").split(".")[-1]
        if fn in ("amax", "max", "amin", "min", "sum", "norm", "abs", "absolute", "sqrt", "cumsum",
                  "maximum", "minimum", "sort", "array", "asarray", "real", "float"):
            degs = [_scale_degree(du, nid, a, sv_names, depth + 1) for a in e.args]
            degs = [d for d in degs]
            if any(d is None for d in degs) or not degs:
                return None
            real = {d for d in degs if d != WILD}
            if len(real) > 1:
                return None                 # max(precision * s[0], eps): two scales
            d = real.pop() if real else WILD
            return d / 2 if (fn == "sqrt" and d != WILD) else d
        if fn == "finfo" or fn == "len":
            return 0
        return 0 if not any(isinstance(x, ast.Name) and x.id in sv_names for x in ast.walk(e)) else None
    return None


def k9(prog: Program, chk: Check) -> None:
    chk.rule("K9", "the Gibbs back end truncates relative to the largest singular value and to "
             "nothing else: every comparison that decides which singular values are kept is "
             "homogeneous in them (s / max(s) < precision, s < precision * s[0]) - the imaginary-"
             "time MPS is not normalised, its scale falls like exp(-tau * E_min), so an absolute "
             "floor (machine epsilon, a fixed threshold) discards everything but the largest "
             "value once all levels lie well above zero and the state is no longer invariant "
             "under a constant shift of the Hamiltonian", floor=1)
    from oqv.cfg import CFG as _CFG
    from oqv.dataflow import DefUse as _DU
    u = prog.unit("backends.tempo_backend:TIBaseBackend._scipy_svd")
    du = _DU(u, _CFG(u.node, exc_edges=False))
    chk.saw(u, du.cfg)
    # the singular values: position 1 of what an svd call returns
    sv_names = {d.name for d in du.defs if d.value is not None and isinstance(d.value, ast.Call)
                and (dotted(d.value.func) or "").split(".")[-1] == "svd"
                and any(s_ == ("idx", 1) for s_ in d.sel)}
    def _svd_call(v):
        return isinstance(v, ast.Call) and (dotted(v.func) or "").split(".")[-1] == "svd"
    # ... also when the triple is first held in a local (`factors = svd(..)` on both branches of
    # the try, then `u, s, v = factors`)
    for d in du.defs:
        if d.value is not None and isinstance(d.value, ast.Name) and \
                any(s_ == ("idx", 1) for s_ in d.sel):
            src = [dd for dd in du.reaching(d.node, d.value.id)]
            if src and all(dd.value is not None and not dd.sel and _svd_call(dd.value) for dd in src):
                sv_names.add(d.name)
    if not sv_names:
        raise AnalysisError("K9: no `u, s, v = svd(...)` in TIBaseBackend._scipy_svd")
    n = 0
    for nd in du.cfg.nodes:
        if nd.copy_of:
            continue
        for x in nd.walk():
            if not (isinstance(x, ast.Compare) and len(x.ops) == 1):
                continue
            sides = [x.left, x.comparators[0]]
            ds = [_scale_degree(du, nd.id, s_, sv_names) for s_ in sides]
            from oqv.dataflow import expand as _expand
            mentions = any(isinstance(y, ast.Name) and y.id in sv_names
                           for s_ in sides for y in ast.walk(_expand(du, nd.id, s_, depth=6,
                                                                      stop_names=sv_names)))
            if not mentions:
                continue
            n += 1
            ok = None not in ds and (WILD in ds or ds[0] == ds[1])
            chk.add("K9", u, f"{norm(x)[:70]}", ok,
                    f"both sides scale like s^{ds[0] if ds[0] != WILD else ds[1]}" if ok else
                    "the two sides scale differently with the singular values (an absolute "
                    "quantity is compared with, or mixed into, a threshold relative to the "
                    "largest singular value)", x)
    if n < 1:
        raise AnalysisError("K9: no comparison of singular values with a threshold found")


def k11(prog: Program, chk: Check) -> None:
    chk.rule("K11", "the imaginary-time path keeps its whole memory: GibbsTempo builds the back end "
             "without a memory length of its own (max_mps_length absent, None or the number of "
             "steps itself) and never sets kmax afterwards - the Matsubara correlations are "
             "periodic, C(tau) = C(beta - tau), so the longest-range coefficients are as large as "
             "the shortest-range ones and a memory cut (valid in real time) drops part of the "
             "reorganisation shift: the state then depends on the number of steps", floor=2)
    u = prog.unit("tempo:GibbsTempo._prepare_backend")
    du = DefUse(u, CFG(u.node, exc_edges=False))
    chk.saw(u, du.cfg)
    calls = [c for c in walk_local(u.node) if isinstance(c, ast.Call) and call_name(c) == "TIBaseBackend"]
    if len(calls) != 1:
        raise AnalysisError("K11: GibbsTempo._prepare_backend no longer builds one TIBaseBackend")
    from oqv.astutil import bind_args
    from oqv.dataflow import origin_text
    be = prog.cls("backends.tempo_backend:TIBaseBackend")
    b = bind_args(calls[0], [p for p in be.methods["__init__"].params if p != "self"])
    nid = du.node_of(calls[0])
    ml, ms = b.get("max_mps_length"), b.get("max_step")
    ok = ml is None or (isinstance(ml, ast.Constant) and ml.value is None) or \
        (ms is not None and origin_text(du, nid, ml) == origin_text(du, nid, ms))
    chk.add("K11", u, f"TIBaseBackend(max_step={norm(ms) if ms is not None else '<default>'}, "
            f"max_mps_length={norm(ml) if ml is not None else '<default>'})", ok,
            "memory length = number of steps" if ok else
            f"the memory of the imaginary-time path is cut at `{origin_text(du, nid, ml)}`", calls[0])
    ci = prog.cls("tempo:GibbsTempo")
    setters = [st for mu in ci.methods.values() for st in walk_local(mu.node)
               if isinstance(st, (ast.Assign, ast.AugAssign))
               for t in (st.targets if isinstance(st, ast.Assign) else [st.target])
               if isinstance(t, ast.Attribute) and t.attr in ("kmax", "_kmax")]
    chk.add("K11", prog.unit("tempo:GibbsTempo.__init__"), "GibbsTempo never sets the back end's kmax",
            not setters, "" if not setters else f"memory length changed afterwards: {norm(setters[0])[:50]}")
    init = be.methods["__init__"]
    st_ = [st for st in walk_local(init.node) if isinstance(st, ast.Assign)
           and any(dotted(t) == "self._kmax" for t in st.targets)]
    if not st_:
        raise AnalysisError("K11: TIBaseBackend.__init__ no longer sets self._kmax")
    from oqv.astutil import branch_context
    ok = False
    if len(st_) == 1 and isinstance(st_[0].value, ast.IfExp):
        v = st_[0].value
        ok = norm(v.body) == "max_step" and norm(v.orelse) == "max_mps_length" \
            and norm(v.test) in ("max_mps_length is None", "max_mps_length == None")
    elif len(st_) == 2:
        # the same choice as an if statement (the model splits conditional expressions)
        by_val = {norm(x.value): x for x in st_}
        if set(by_val) == {"max_step", "max_mps_length"}:
            ctx = branch_context(init.node, by_val["max_step"])
            ok = bool(ctx) and norm(ctx[-1][0]) in ("max_mps_length is None", "max_mps_length == None") \
                and ctx[-1][1] is True
            if not ok and ctx:
                ok = norm(ctx[-1][0]) in ("max_mps_length is not None", "max_mps_length != None") \
                    and ctx[-1][1] is False
    chk.add("K11", init, f"self._kmax <- {sorted(norm(x.value)[:30] for x in st_)}", ok,
            "defaults to the number of steps" if ok else
            "the default memory length of the back end is no longer the number of steps", st_[0])


SPECTRAL_POSITIVE = """
import numpy as np
from scipy.linalg import eigh
def f_wrong(h, t):
    energies, states = eigh(h)
    return (states * np.exp(-1j * energies * t)) @ states.T
def f_right(h, t):
    w, v = np.linalg.eigh(h)
    return (v * np.exp(-1j * w * t)) @ v.conj().T
"""


def spectral_reconstructions(units):
    """[(unit, node, eigenvector name, ok)] for every use of the bare transpose of the
    eigenvector matrix of a Hermitian / general eigensolver (`w, v = eigh(H)` ... `v.T`):
    a function of H is V f(E) V^dagger - with the plain transpose it is right only for real
    symmetric H (real eigenvectors)."""
    from oqv.cfg import CFG as _CFG
    from oqv.dataflow import DefUse as _DU
    from rules.c05 import adjoint_base
    out = []
    for u in units:
        if isinstance(u.node, ast.Lambda):
            continue
        if not any(isinstance(c, ast.Call) and (dotted(c.func) or "").split(".")[-1] in ("eigh", "eig")
                   for c in walk_local(u.node)):
            continue
        du = _DU(u, _CFG(u.node, exc_edges=False))
        vec_names = {d.name for d in du.defs if isinstance(d.value, ast.Call)
                     and (dotted(d.value.func) or "").split(".")[-1] in ("eigh", "eig")
                     and any(s_ == ("idx", 1) for s_ in d.sel)}
        if not vec_names:
            continue
        parents = {}
        for p_ in ast.walk(u.node):
            for c_ in ast.iter_child_nodes(p_):
                parents[id(c_)] = p_
        for x in walk_local(u.node):
            if not (isinstance(x, ast.Attribute) and x.attr == "T" and isinstance(x.value, ast.Name)
                    and x.value.id in vec_names):
                continue
            # climb while the expression is still a conjugation / transposition chain
            top = x
            while True:
                par = parents.get(id(top))
                if isinstance(par, ast.Attribute) and par.attr in ("conj", "conjugate", "T", "H"):
                    top = par
                elif isinstance(par, ast.Call) and par.func is top:
                    top = par
                elif isinstance(par, ast.Call) and (dotted(par.func) or "").split(".")[-1] in \
                        ("conj", "conjugate") and par.args and par.args[0] is top:
                    top = par
                else:
                    break
            out.append((u, x, x.value.id, adjoint_base(top) is not None))
        # v.conj().T etc. are fine and need no entry; count them for the evidence
        for x in walk_local(u.node):
            if isinstance(x, ast.Attribute) and x.attr == "T" and not isinstance(x.value, ast.Name):
                base = adjoint_base(x)
                if isinstance(base, ast.Name) and base.id in vec_names:
                    out.append((u, x, base.id, True))
    return out


def k10(prog: Program, chk: Check) -> None:
    chk.rule("K10", "a function of a Hermitian matrix that is rebuilt from its spectrum uses the "
             "adjoint of the eigenvector matrix: wherever `w, v = eigh(H)` is followed by a "
             "transpose of v, it is the conjugate transpose (V f(E) V^dagger) - the plain `v.T` "
             "gives the right matrix only for real symmetric H, so a Hamiltonian with complex "
             "entries (a sigma_y term) gets a half-step propagator that is not exp(-H dtau/2) and "
             "the Gibbs state is wrong even at zero coupling. Expected count of bare transposes "
             "is zero: a built-in example with one wrong and one right reconstruction is judged "
             "on every run", floor=1)
    import types
    tree = ast.parse(SPECTRAL_POSITIVE)
    fake = []
    for f in tree.body:
        if isinstance(f, ast.FunctionDef):
            fu = types.SimpleNamespace(node=f, qual=f"positive:{f.name}", params=[a.arg for a in f.args.args],
                                       body=f.body, module=types.SimpleNamespace(short="positive"),
                                       parent=None, cls=None, name=f.name)
            fake.append(fu)
    try:
        got = sorted((u.qual, ok) for (u, _, _, ok) in spectral_reconstructions(fake))
    except Exception as e:       # the fake units lack something the analysis needs
        raise AnalysisError(f"K10: built-in example could not be analysed ({type(e).__name__}: {e})")
    if got != [("positive:f_right", True), ("positive:f_wrong", False)]:
        raise AnalysisError(f"K10: the built-in example is judged {got} - the rule no longer "
                            f"recognises the idiom")
    units = [u for u in prog.units.values() if u.module.short in ("system", "bath", "tempo", "operators",
                                                                  "backends.tempo_backend")]
    n = 0
    for (u, node, name, ok) in spectral_reconstructions(units):
        n += 1
        chk.saw(u)
        chk.add("K10", u, f"transpose of the eigenvector matrix `{name}`", ok,
                "conjugate transpose" if ok else
                f"`{name}.T` without conjugation: the reconstruction V f(E) V^T equals f(H) only "
                f"when the eigenvectors are real", node)
    chk.add("K10", prog.module("system"), f"{n} transposes of eigenvector matrices in the system / "
            f"bath / tempo modules; built-in example judged as expected", True, "")
