"""C11 - Gibbs state: idempotent compute (K1), normalised by construction
(K2), imaginary-time slice and label forms (K3)."""
from __future__ import annotations

import ast
from typing import Optional

from oqv.astutil import call_name, method_call
from oqv.cfg import CFG
from oqv.dataflow import DefUse, form_at
from oqv.forms import Poly, eval_form
from oqv.model import AnalysisError, Program, dotted, norm, walk_local
from oqv.report import Check
from rules import c14


def run(prog: Program, chk: Check) -> None:
    chk.explanation = (
        "Decides three clauses of C11: K1 repeating GibbsTempo.compute() takes only the steps "
        "still missing (guarded stepping, shared with C14 T1); K2 get_state() returns "
        "X / X.trace() of the last recorded state on every path, so unit trace holds by "
        "construction, and gibbs_tempo_compute returns get_state(); K3 the imaginary-time slice "
        "is 1/(T*n_steps), labels are step*dt, and the label offset used by the front end equals "
        "the offset between the back end's step counter and its data list, so the last state is "
        "labelled n_steps*dt = 1/T.")
    chk.not_decided = ("Equality with the reduced thermal state, the weak-coupling limit and the "
                       "orientation (transpose) of the result for complex Hamiltonians.")
    # ---------------------------------------------------------------- K1
    chk.rule("K1", "GibbsTempo.compute: the number of further steps depends on the back end's "
             "current step and on n_steps", floor=1)
    q = "tempo:GibbsTempo.compute"
    u = prog.unit(q)
    du = DefUse(u, CFG(u.node, exc_edges=False))
    chk.saw(u, du.cfg)
    step_calls, targets = c14.FRONT_ENDS[q]
    sites = [c for c in walk_local(u.node) if isinstance(c, ast.Call)
             and dotted(c.func) in step_calls]
    if not sites:
        raise AnalysisError("K1: no stepping call in GibbsTempo.compute")
    for c in sites:
        ok, why = c14._guarded(prog, u, du, c, du.node_of(c), set(targets))
        chk.add("K1", u, f"{norm(c.func)}()", ok, why, c)

    # ---------------------------------------------------------------- K2
    chk.rule("K2", "get_state returns X / X.trace() with X the last recorded state on every "
             "path; gibbs_tempo_compute returns get_state()", floor=2)
    gs = prog.unit("tempo:GibbsTempo.get_state")
    du2 = DefUse(gs, CFG(gs.node, exc_edges=False))
    chk.saw(gs, du2.cfg)
    rets = [n for n in du2.cfg.nodes if n.kind == "stmt" and isinstance(n.ast, ast.Return)]
    if not rets:
        raise AnalysisError("K2: get_state has no return")
    for rn in rets:
        ok, why = _normalised(du2, rn.id, rn.ast.value)
        chk.add("K2", gs, f"return {norm(rn.ast.value)}", ok, why, rn.ast)
    gc = prog.unit("tempo:gibbs_tempo_compute")
    du3 = DefUse(gc, CFG(gc.node, exc_edges=False))
    for rn in [n for n in du3.cfg.nodes if n.kind == "stmt" and isinstance(n.ast, ast.Return)]:
        v = rn.ast.value
        ok = isinstance(v, ast.Call) and isinstance(v.func, ast.Attribute) and v.func.attr == "get_state"
        if ok:
            ds = du3.reaching(rn.id, dotted(v.func.value) or "")
            ok = bool(ds) and all(isinstance(d.value, ast.Call) and call_name(d.value) == "GibbsTempo"
                                  for d in ds)
        chk.add("K2", gc, f"return {norm(v)}", ok,
                "" if ok else "the shortcut does not return the normalised get_state()", rn.ast)

    # ---------------------------------------------------------------- K3
    chk.rule("K3", "time_step_length = 1/(T*n_steps); _time(step) = step*dt; label offset of "
             "new states = offset between back-end step counter and data list; loop bound "
             "n_steps - offset - step", floor=4)
    tsl = prog.unit("tempo:GibbsParameters.time_step_length")
    r = [x for x in walk_local(tsl.node) if isinstance(x, ast.Return)][0]

    def res(x):
        d = dotted(x)
        if d == "temperature":
            return Poly.sym("T")
        if d in ("self._n_steps", "self.n_steps"):
            return Poly.sym("N")
        return None
    f = eval_form(r.value, res)
    want = Poly.const(1).div(Poly.sym("T") * Poly.sym("N"))
    chk.add("K3", tsl, f"return {norm(r.value)}", f == want,
            f"form {f}" if f == want else f"imaginary-time slice has form {f}, expected 1/(T*N)", r)
    tm = prog.unit("tempo:GibbsTempo._time")
    r = [x for x in walk_local(tm.node) if isinstance(x, ast.Return)][0]

    def res2(x):
        d = dotted(x)
        if d == "step":
            return Poly.sym("STEP")
        if d == "self._dt":
            return Poly.sym("DT")
        return None
    f = eval_form(r.value, res2)
    chk.add("K3", tm, f"return {norm(r.value)}", f == Poly.sym("STEP") * Poly.sym("DT"),
            f"form {f}", r)
    # offset between TIBaseBackend._step and len(data)-1
    be = prog.cls("backends.tempo_backend:TIBaseBackend")
    init, ini, cs = be.methods["__init__"], be.methods["initialise"], be.methods["compute_step"]

    def n_appends(unit):
        return sum(1 for c in walk_local(unit.node) if isinstance(c, ast.Call)
                   and method_call(c) == ("self.data", "append"))
    len0 = None
    for st in walk_local(init.node):
        if isinstance(st, ast.Assign) and any(dotted(t) == "self.data" for t in st.targets) \
                and isinstance(st.value, ast.List):
            len0 = len(st.value.elts)
    step0 = None
    for st in walk_local(ini.node):
        if isinstance(st, ast.Assign) and any(dotted(t) == "self._step" for t in st.targets) \
                and isinstance(st.value, ast.Constant) and isinstance(st.value.value, int):
            step0 = st.value.value
    inc = [st for st in walk_local(cs.node) if isinstance(st, ast.AugAssign)
           and dotted(st.target) == "self._step" and isinstance(st.op, ast.Add)
           and isinstance(st.value, ast.Constant) and st.value.value == 1]
    if len0 is None or step0 is None:
        raise AnalysisError("K3: TIBaseBackend data/step initialisation not recognised")
    ok_step = len(inc) == 1 and n_appends(cs) == 1
    chk.add("K3", cs, "one data entry per step increment", ok_step,
            "" if ok_step else "compute_step does not append exactly one state per step")
    offset = (len0 + n_appends(ini) - 1) - step0     # index of last data entry minus step
    # front end: label of new states
    adds = []
    for c in walk_local(u.node):
        if isinstance(c, ast.Call) and method_call(c) == ("self._dynamics", "add"):
            t = c.args[0]
            if isinstance(t, ast.Call) and method_call(t) == ("self", "_time"):
                adds.append((c, t.args[0]))
    found_loop_label = False
    for (c, a) in adds:
        nid = du.node_of(c)

        def res3(x):
            if isinstance(x, ast.Name):
                ds = du.reaching(nid, x.id)
                if ds and all(d.value is not None and isinstance(d.value, ast.Call)
                              and dotted(d.value.func) in step_calls
                              and d.sel and d.sel[0] == ("idx", 0) for d in ds):
                    return Poly.sym("STEP")
                if ds and all(d.sel and d.sel[0] == ("iter",) and isinstance(d.value, ast.Call)
                              and dotted(d.value.func) == "enumerate" and ("idx", 0) in d.sel
                              for d in ds):
                    return Poly.sym("INDEX")
            return None
        f = eval_form(a, res3)
        if f == Poly.sym("INDEX"):
            chk.add("K3", u, f"initial entries labelled _time({norm(a)})", True,
                    "data index used as step", c)
        else:
            found_loop_label = True
            want = Poly.sym("STEP") + Poly.const(offset)
            chk.add("K3", u, f"new state labelled _time({norm(a)})", f == want,
                    f"offset {offset} = index of last data entry - back-end step" if f == want else
                    f"label form {f}, but the back end's data index is STEP + {offset}", c)
    if not found_loop_label:
        raise AnalysisError("K3: label of newly computed states not found in GibbsTempo.compute")
    # loop bound: N - offset - STEP  (so that the last label is N*dt = 1/T)
    for c in sites:
        loop = None
        for x in walk_local(u.node):
            if isinstance(x, ast.For) and any(y is c for y in ast.walk(x)):
                loop = x
        if loop is None or not (isinstance(loop.iter, ast.Call) and dotted(loop.iter.func) == "range"):
            continue
        nid = du.node_of(loop.iter)

        def res4(x):
            d = dotted(x)
            if d in ("self._parameters.n_steps", "self._backend_instance.max_step"):
                return Poly.sym("N")
            if d in c14.STEP_SOURCES:
                return Poly.sym("STEP")
            if isinstance(x, ast.Call) and dotted(x.func) == "max" and len(x.args) == 2:
                for i in (0, 1):
                    if isinstance(x.args[i], ast.Constant) and x.args[i].value == 0:
                        return form_at(du, nid, x.args[1 - i], res4)
            return None
        f = form_at(du, nid, loop.iter.args[0], res4)
        want = Poly.sym("N") - Poly.const(offset) - Poly.sym("STEP")
        chk.add("K3", u, f"range({norm(loop.iter.args[0])})", f == want,
                f"bound {f}: final label (STEP+{offset})*dt = N*dt = 1/T" if f == want else
                f"bound {f}, expected {want}: the last state would not be at 1/T", loop)
    k4(prog, chk)


def k4(prog: Program, chk: Check) -> None:
    chk.rule("K4", "the Gibbs coefficients are Matsubara (imaginary-time) 2D integrals over cells of "
             "the imaginary-time slice; the slice comes from the bath temperature; the free "
             "propagator is exp(-H dt/2) (imaginary time step -i dt)", floor=4)
    u = prog.unit("tempo:GibbsTempo._prepare_backend")
    co = [v for v in prog.nested_units(u) if v.name == "coeffs"]
    if not co:
        raise AnalysisError("K4: coeffs closure vanished")
    calls = [c for c in walk_local(co[0].node) if isinstance(c, ast.Call)
             and isinstance(c.func, ast.Attribute) and c.func.attr == "correlation_2d_integral"]
    if len(calls) != 1:
        raise AnalysisError("K4: correlation_2d_integral call in coeffs not found")
    c = calls[0]
    kw = {k.arg: k.value for k in c.keywords}
    ok = isinstance(kw.get("matsubara"), ast.Constant) and kw["matsubara"].value is True
    chk.add("K4", co[0], f"correlation_2d_integral(.., matsubara={norm(kw['matsubara']) if 'matsubara' in kw else '<missing>'})",
            ok, "" if ok else "real-time instead of imaginary-time integrals", c)
    ok = len(c.args) >= 2 and norm(c.args[0]) == "self._dt" and norm(c.args[1]) in ("k * self._dt", "self._dt * k")
    chk.add("K4", co[0], f"cell (delta={norm(c.args[0])}, time_1={norm(c.args[1])})", ok,
            "" if ok else "the coefficient cells are not the grid of the imaginary-time slice", c)
    init = prog.unit("tempo:GibbsTempo.__init__")
    srcs = {dotted(st.targets[0]): norm(st.value) for st in walk_local(init.node)
            if isinstance(st, ast.Assign) and dotted(st.targets[0])}
    ok = srcs.get("self._dt") == "self._parameters.time_step_length(self._temperature)" and \
        srcs.get("self._temperature") == "self._correlations.temperature" and \
        srcs.get("self._correlations") == "self._bath.correlations"
    chk.add("K4", init, f"self._dt = {srcs.get('self._dt')}", ok,
            "slice from the bath temperature" if ok else
            "the imaginary-time slice is not derived from the bath's temperature")
    pc = [x for x in walk_local(u.node) if isinstance(x, ast.Call) and
          isinstance(x.func, ast.Attribute) and x.func.attr == "get_unitary_propagators"]
    ok = False
    if len(pc) == 1 and pc[0].args:
        def leaf(x):
            if isinstance(x, ast.Constant) and isinstance(x.value, complex) and x.value.real == 0:
                return Poly.sym("I") * Poly.const(int(x.value.imag))
            if dotted(x) == "self._dt":
                return Poly.sym("DT")
            return None
        f = eval_form(pc[0].args[0], leaf)
        ok = f == -(Poly.sym("I") * Poly.sym("DT"))
    chk.add("K4", u, f"get_unitary_propagators({norm(pc[0].args[0]) if pc else '?'}, ..)", ok,
            "imaginary time step -i*dt" if ok else "the free propagator is not exp(-H dt/2)")


def _normalised(du: DefUse, nid: int, v: ast.AST):
    # follow a plain local name
    for _ in range(3):
        if isinstance(v, ast.Name):
            d = du.unique_value(nid, v.id)
            if d is None or d.value is None or d.sel:
                return False, "returned value has no unique definition"
            nid, v = d.node, d.value
        else:
            break
    if not (isinstance(v, ast.BinOp) and isinstance(v.op, ast.Div)):
        return False, f"`{norm(v)}` is not a quotient X / X.trace()"
    num, den = v.left, v.right
    tr = None
    if isinstance(den, ast.Call) and isinstance(den.func, ast.Attribute) and den.func.attr == "trace":
        tr = den.func.value
    elif isinstance(den, ast.Call) and (dotted(den.func) or "").endswith("trace") and den.args:
        tr = den.args[0]
    if tr is None:
        return False, f"denominator `{norm(den)}` is not a trace"
    if norm(tr) != norm(num):
        return False, "numerator and traced matrix differ"
    if isinstance(num, ast.Name):
        dn = du.reaching(nid, num.id)
        if len(dn) != 1 or dn[0].value is None:
            return False, "numerator has no unique definition"
        src = norm(dn[0].value)
        last = src.endswith("[-1]") and "states" in src
        return last, (f"X = {src}" if last else f"X = {src} is not the last recorded state")
    return True, f"X = {norm(num)}"
