"""C02 - TEMPO and PT-TEMPO + compute_dynamics are wired to the same inputs
at the same step indices (S1 influence arguments, S2 propagator/step
alignment, S3 role-typed plumbing, S4 dkmax provenance)."""
from __future__ import annotations

import ast
from typing import Dict, List, Optional, Set, Tuple

from oqv import rolebind, roles
from oqv.astutil import branch_context, call_name, method_call
from oqv.cfg import CFG
from oqv.dataflow import DefUse
from oqv.forms import Poly
from oqv.model import AnalysisError, Program, Unit, dotted, norm, walk_local, kw_of
from oqv.report import Check
from rules.c09 import Tags

STEP = Poly.sym("STEP")
ONE = Poly.const(1)


# --------------------------------------------------------------------- S1
def _canon(prog: Program, u: Unit, e: ast.AST, depth=0) -> str:
    """Canonical origin of an argument: self attributes are followed to their
    (unique) source in the class; the bath object is written BATH."""
    d = dotted(e)
    if d is None:
        return norm(e)
    if d.startswith("self.") and d.count(".") == 1 and depth < 3:
        ci = prog.class_of_unit(u)
        srcs = prog.attr_sources(ci, d[5:]) if ci else []
        # follow only attribute-to-attribute copies (self._correlations = self._bath.correlations);
        # an attribute that stores a constructor argument is terminal
        vals = {(_canon(prog, su, v, depth + 1) if idx is None else f"{norm(v)}[{idx}]")
                for (su, st, v, idx) in srcs}
        if len(vals) == 1 and all(isinstance(v, ast.Attribute) and idx is None
                                  for (_, _, v, idx) in srcs):
            d = vals.pop()
    for bath in ("self._bath", "bath"):
        if d == bath or d.startswith(bath + "."):
            d = "BATH" + d[len(bath):]
    return d


def s1(prog: Program, chk: Check) -> None:
    chk.rule("S1", "every call of influence_matrix binds dk to the function's own dk, "
             "parameters to the object's TempoParameters, correlations / coupling_acomm / "
             "coupling_comm to the same bath, and deg_positions to the [north, west] pair "
             "selected by the unique flag", floor=15)
    sites = []
    im_params = [p for p in prog.unit("tempo:influence_matrix").params]
    for u in prog.units.values():
        body = [u.node.body] if isinstance(u.node, ast.Lambda) else [u.node]
        for b in body:
            for c in (ast.walk(b) if isinstance(u.node, ast.Lambda) else walk_local(b)):
                if isinstance(c, ast.Call) and call_name(c) == "influence_matrix":
                    sites.append((u, c))
    if len(sites) < 3:
        raise AnalysisError(f"S1: only {len(sites)} influence_matrix call sites (floor 3)")
    want = {"parameters": "self._parameters", "correlations": "BATH.correlations",
            "coupling_acomm": "BATH.coupling_acomm", "coupling_comm": "BATH.coupling_comm"}
    for (u, c) in sites:
        chk.saw(u)
        # arguments by parameter name, however they are passed
        kw = {im_params[i]: a for i, a in enumerate(c.args) if i < len(im_params)}
        kw.update(kw_of(c))
        dk = kw.get("dk")
        own_params = u.params if not isinstance(u.node, ast.Lambda) else \
            [a.arg for a in u.node.args.args]
        ok = isinstance(dk, ast.Name) and dk.id == "dk" and "dk" in own_params
        why = "" if ok else "the time-step distance is not passed through unchanged"
        if ok:
            # ... and the name still holds the caller's value: no rebinding on any path
            rebinds = [x for x in walk_local(u.node)
                       if isinstance(x, (ast.Assign, ast.AugAssign, ast.AnnAssign, ast.NamedExpr,
                                         ast.For))
                       and any(isinstance(y, ast.Name) and y.id == "dk"
                               and isinstance(y.ctx, ast.Store) for y in ast.walk(x))]
            def _same(x):
                # dk = int(dk) and the like keep the value
                if not isinstance(x, ast.Assign) or len(x.targets) != 1:
                    return False
                from oqv.forms import eval_form
                f = eval_form(x.value, lambda y: Poly.sym("DK") if isinstance(y, ast.Name)
                              and y.id == "dk" else (
                                  eval_form(y.args[0], lambda z: Poly.sym("DK")
                                            if isinstance(z, ast.Name) and z.id == "dk" else None)
                                  if isinstance(y, ast.Call) and dotted(y.func) == "int"
                                  and len(y.args) == 1 else None))
                return f == Poly.sym("DK")
            rebinds = [x for x in rebinds if not _same(x)]
            if rebinds:
                ok = False
                why = (f"dk is rebound before the call (`{norm(rebinds[0])[:60]}`): this method "
                       f"asks for a different separation than its sibling does at the same step")
        chk.add("S1", u, f"influence_matrix(dk={norm(dk) if dk is not None else '?'})", ok,
                why, c)
        for p, w in want.items():
            got = _canon(prog, u, kw[p]) if p in kw else "<missing>"
            if got.startswith("BATH._"):
                got = "BATH." + got[6:]
            chk.add("S1", u, f"{p} <- {got}", got == w,
                    "" if got == w else f"expected {w}: this method would use a different "
                                        f"input than its sibling", c)
        dp = kw.get("deg_positions")
        ok = False
        why = "deg_positions missing"
        if isinstance(dp, ast.Name):
            # defs live in the enclosing function for the mean-field closure
            owner = u
            defs = []
            while owner is not None and not defs:
                for st in walk_local(owner.node):
                    if isinstance(st, ast.Assign) and dotted(st.targets[0]) == dp.id:
                        ctx = [br for (t, br) in branch_context(owner.node, st)
                               if dotted(t) == "self._unique"]
                        defs.append((st.value, ctx))
                if defs:
                    # `x = None` followed by `if self._unique: x = [...]` (no else) selects
                    # like if / else does: the default counts as the other branch
                    body = list(owner.node.body)
                    for k_, (v_, ctx_) in enumerate(defs):
                        if ctx_ == [] and isinstance(v_, ast.Constant) and v_.value is None:
                            at = next((i for i, b in enumerate(body) if isinstance(b, ast.Assign)
                                       and b.value is v_), None)
                            later = [i for i, b in enumerate(body) if isinstance(b, ast.If)
                                     and dotted(b.test) == "self._unique" and not b.orelse
                                     and any(isinstance(y, ast.Assign) and dotted(y.targets[0]) == dp.id
                                             for y in b.body)]
                            if at is not None and later and at < later[0] and not any(
                                    isinstance(y, ast.Assign) and dotted(y.targets[0]) == dp.id
                                    for b in body[at + 1:later[0]] for y in ast.walk(b)):
                                defs[k_] = (v_, [False])
                owner = owner.parent
            # a selector method that returns the pair: look at what it returns
            expanded = []
            for (v, ctx) in defs:
                mc_ = method_call(v) if isinstance(v, ast.Call) else None
                ci_ = prog.class_of_unit(u)
                helper = prog.find_method(ci_, mc_[1]) if (mc_ and mc_[0] == "self" and ci_) else None
                if helper is None:
                    expanded.append((v, ctx))
                    continue
                for r in [x for x in walk_local(helper.node) if isinstance(x, ast.Return)
                          and x.value is not None]:
                    if isinstance(r.value, ast.Name):
                        for st in walk_local(helper.node):
                            if isinstance(st, ast.Assign) and dotted(st.targets[0]) == r.value.id:
                                expanded.append((st.value, ctx + [
                                    br for (t, br) in branch_context(helper.node, st)
                                    if dotted(t) == "self._unique"]))
                    else:
                        expanded.append((r.value, ctx + [
                            br for (t, br) in branch_context(helper.node, r)
                            if dotted(t) == "self._unique"]))
            defs = expanded
            pairs = [(v, ctx) for (v, ctx) in defs if isinstance(v, ast.List) and len(v.elts) == 2]
            nones = [(v, ctx) for (v, ctx) in defs if isinstance(v, ast.Constant) and v.value is None]
            ok = len(pairs) == 1 and len(nones) == 1 and pairs[0][1] == [True] \
                and nones[0][1] == [False]
            why = "[north, west] under unique, None otherwise" if ok else \
                "deg_positions is not selected by the unique flag"
        chk.add("S1", u, f"deg_positions <- {norm(dp) if dp is not None else '?'}", ok, why, c)


def _callable_kind(du: DefUse, nid: int, f: ast.AST, nested: Dict[str, ast.AST]) -> Optional[str]:
    """'propagators' / 'controls' for a local callable, judged by what it was made from
    (system.get_propagators(...), a closure around control.get_controls(...)); the local's
    own name only counts when it has no definition in this function (comprehension variable)."""
    if not isinstance(f, ast.Name):
        return None
    if f.id in nested:
        inner = nested[f.id]
        if any(isinstance(c, ast.Call) and isinstance(c.func, ast.Attribute)
               and c.func.attr == "get_controls" for c in ast.walk(inner)):
            return "controls"
        return None
    ds = [d for d in du.reaching(nid, f.id) if d.value is not None]
    kinds = set()
    for d in ds:
        v = d.value
        if isinstance(v, ast.Call) and isinstance(v.func, ast.Attribute) \
                and v.func.attr in ("get_propagators", "get_unitary_propagators") and not d.sel:
            kinds.add("propagators")
        else:
            kinds.add(None)
    if kinds == {"propagators"}:
        return "propagators"
    if not ds and f.id == "propagators":
        return "propagators"
    if not ds:
        # a comprehension variable running over a list of closures made earlier
        from rules.c18 import _listcomp_elt_kind
        for x in du.cfg.nodes[nid].walk():
            if isinstance(x, ast.ListComp) and any(isinstance(g.target, ast.Name) and g.target.id == f.id
                                                   for g in x.generators):
                k = _listcomp_elt_kind(du, nid, x)
                if k:
                    return k
    return None



# --------------------------------------------------------------------- S2
def s2(prog: Program, chk: Check) -> None:
    chk.rule("S2", "in every stepper the index handed to the system's propagators equals the "
             "index of the state being propagated from, and the process-tensor MPO / cap indices "
             "of the same step agree with it", floor=8)
    # back ends: propagators(k) and compute_system_step(k+1)
    for q in ("backends.tempo_backend:TempoBackend.compute_step",
              "backends.tempo_backend:MeanFieldTempoBackend.compute_step"):
        u = prog.unit(q)
        t = Tags(prog, u)
        chk.saw(u, t.g)
        pidx, sidx, commit = None, None, None
        for n in t.g.nodes:
            for c in n.calls():
                fn = dotted(c.func) or ""
                if fn == "self._propagators" or (isinstance(c.func, ast.Name)
                                                 and c.func.id == "propagators"):
                    pidx = t.form(c.args[0], n.id)
                if fn.endswith("compute_system_step"):
                    sidx = t.form(c.args[0], n.id)
            if n.kind == "stmt" and isinstance(n.ast, ast.Assign) and \
                    any(dotted(x) == "self._step" for x in n.ast.targets):
                commit = t.form(n.ast.value, n.id)
            if n.kind == "stmt" and isinstance(n.ast, ast.AugAssign) and \
                    dotted(n.ast.target) == "self._step" and isinstance(n.ast.op, ast.Add) \
                    and isinstance(n.ast.value, ast.Constant):
                commit = STEP + Poly.const(n.ast.value.value)
        ok = pidx == STEP and sidx == STEP + ONE and commit == STEP + ONE
        chk.add("S2", u, f"propagators({pidx}) -> compute_system_step({sidx}) -> step := {commit}",
                ok, "" if ok else
                "the propagator of step k must produce the state of step k+1 and the counter "
                "must be set to k+1")
    # process-tensor contraction loops
    for q in ("system_dynamics:compute_dynamics", "system_dynamics:compute_dynamics_with_field",
              "gradient:compute_gradient_and_dynamics"):
        u = prog.unit(q)
        t = Tags(prog, u)
        chk.saw(u, t.g)
        loop = [n for n in t.g.nodes if n.kind == "iter" and isinstance(n.ast.iter, ast.Call)
                and dotted(n.ast.iter.func) == "range" and len(n.ast.iter.args) == 1
                and t.form(n.ast.iter.args[0], n.id) in (Poly.sym("N"), Poly.sym("N") + ONE)]
        if not loop:
            raise AnalysisError(f"S2: stepping loop of {q} not found")
        body = t.g.reachable([b for b, l in t.g.succ[loop[0].id] if l == "it"],
                             edge_ok=lambda a, b, l: l != "loop" and b != loop[0].id)
        body_in_loop = {n for n in body
                        if t.g.find_path([n], lambda x: x == loop[0].id,
                                         edge_ok=lambda a, b, l: True) is not None}
        found = {}
        nested = {x.name: x for x in u.node.body if isinstance(x, ast.FunctionDef)}
        for nid in sorted(body_in_loop):
            for c in t.g.nodes[nid].calls():
                fn = call_name(c) or ""
                kind = _callable_kind(t.du, nid, c.func, nested)
                if kind == "propagators" and c.args:
                    found.setdefault("propagators", set()).add(repr(t.form(c.args[0], nid)))
                if fn == "_get_pt_mpos":
                    found.setdefault("_get_pt_mpos", set()).add(repr(t.form(c.args[1], nid)))
                if fn == "_get_caps":
                    found.setdefault("_get_caps", set()).add(repr(t.form(c.args[1], nid)))
                if kind == "controls" and c.args:
                    found.setdefault("controls", set()).add(repr(t.form(c.args[0], nid)))
                if isinstance(c.func, ast.Attribute) and c.func.attr == "get_controls" and c.args:
                    # the control object asked directly instead of through a closure
                    found.setdefault("controls", set()).add(repr(t.form(c.args[0], nid)))
        need = {"propagators", "_get_pt_mpos", "_get_caps", "controls"}
        ok = need <= set(found) and all(v == {repr(STEP)} for v in found.values())
        chk.add("S2", u, "loop indices " + ", ".join(f"{k}({sorted(v)[0] if v else '?'})"
                                                     for k, v in sorted(found.items())),
                ok, "" if ok else
                "propagators, process-tensor MPOs, caps and controls of one step are not all "
                "taken at the loop's step index")
    # PT-TEBD: MPO index = step before the increment, caps at the current step
    u = prog.unit("backends.pt_tebd_backend:PtTebdBackend.apply_process_tensors")
    c = [x for x in walk_local(u.node) if isinstance(x, ast.Call)
         and isinstance(x.func, ast.Attribute) and x.func.attr == "get_mpo_tensor"]
    ok = len(c) == 1 and norm(c[0].args[0]) in ("step - 1", "step-1")
    chk.add("S2", u, f"get_mpo_tensor({norm(c[0].args[0]) if c else '?'})", ok,
            "called after the counter was incremented: MPO of the step just left" if ok else
            "the chain uses the MPO tensor of a different step than compute_dynamics")
    u = prog.unit("backends.pt_tebd_backend:PtTebdBackend._compute_bath_trace_gammas")
    c = [x for x in walk_local(u.node) if isinstance(x, ast.Call)
         and isinstance(x.func, ast.Attribute) and x.func.attr == "get_cap_tensor"]
    ok = len(c) == 1 and norm(c[0].args[0]) == "step"
    chk.add("S2", u, f"get_cap_tensor({norm(c[0].args[0]) if c else '?'})", ok)
    u = prog.unit("pt_tebd:PtTebd.compute_step")
    calls = [x for x in walk_local(u.node) if isinstance(x, ast.Call) and method_call(x)
             and method_call(x)[1] == "apply_process_tensors"]
    g = CFG(u.node, exc_edges=False)
    inc = [n.id for n in g.nodes if n.kind == "stmt" and isinstance(n.ast, ast.AugAssign)
           and dotted(n.ast.target) == "self._step"]
    app = [n.id for n in g.nodes if any(x is calls[0] for x in n.walk())] if calls else []
    ok = bool(inc and app) and g.find_path([g.entry], lambda x: x in app,
                                           blocked=lambda x: x in inc) is None
    chk.add("S2", u, "apply_process_tensors(self.step) after the step increment", ok)


# --------------------------------------------------------------------- S3 / S4
def s3(prog: Program, chk: Check) -> None:
    chk.rule("S3", "role-typed arguments (DT, START, END, EPSREL, SUBDIV, DKMAX) are bound to "
             "parameters of the same role at every package call", floor=20)
    n = rolebind.check(prog, chk, "S3",
                       wanted={"DT", "START", "END", "EPSREL", "SUBDIV", "DKMAX"},
                       require_forward=set())
    if n < 20:
        raise AnalysisError(f"S3: only {n} role-typed call sites (floor 20)")


def s4(prog: Program, chk: Check) -> None:
    chk.rule("S4", "the memory length handed to both back ends originates from "
             "parameters.dkmax (PT-TEMPO substitutes the number of steps for None); both read "
             "epsrel from the same parameters object", floor=4)
    for q, ctor in (("tempo:Tempo._prepare_backend", "TempoBackend"),
                    ("pt_tempo:PtTempo._init_pt_tempo_backend", "PtTempoBackend"),
                    ("tempo:MeanFieldTempo._prepare_backend", "MeanFieldTempoBackend")):
        u = prog.unit(q)
        du = DefUse(u, CFG(u.node, exc_edges=False))
        chk.saw(u, du.cfg)
        c = [x for x in walk_local(u.node) if isinstance(x, ast.Call) and call_name(x) == ctor]
        if len(c) != 1:
            raise AnalysisError(f"S4: constructor call {ctor} not found in {q}")
        callee = prog.find_method(prog.resolve_class_name(u.module, ctor), "__init__")
        bound = rolebind._bind(callee, c[0]) or {}
        nid = du.node_of(c[0])
        for p in ("dkmax", "epsrel"):
            a = bound.get(p)
            srcs = set()
            if isinstance(a, ast.Name):
                for d in du.reaching(nid, a.id):
                    srcs.add(norm(d.value) if d.value is not None else "<param>")
            elif a is not None:
                srcs.add(norm(a))
            allowed = {f"self._parameters.{p}"}
            if p == "dkmax" and ctor == "PtTempoBackend":
                allowed.add("self._num_steps")
            ok = bool(srcs) and srcs <= allowed and f"self._parameters.{p}" in srcs
            chk.add("S4", u, f"{ctor}({p} <- {sorted(srcs)})", ok,
                    "" if ok else f"expected the value to come from self._parameters.{p}", c[0])


def s5(prog: Program, chk: Check) -> None:
    chk.rule("S5", "TEMPO and PT-TEMPO build their dk=0 tensors from the reduced influence in "
             "the same way: every axis indexed by the map that sized it and the basis axis by "
             "the plain basis index, so every basis element is filled in both back ends "
             "(necessary for equal results with unique=True on degenerate spectra)", floor=3)
    from rules.c06 import backend_scatters
    backend_scatters(prog, chk, "S5")


def s6(prog: Program, chk: Check) -> None:
    """Both methods rotate into the coupling eigenbasis with the same adjoint pairs."""
    from rules.c05 import e2
    e2(prog, chk, rule="S6")


def s7(prog: Program, chk: Check) -> None:
    chk.rule("S7", "both methods get their system propagators from System.get_propagators with "
             "their own (dt, start_time, tolerances): no memo in the system classes (dict, lazily "
             "set attribute, closure container - also one kept on self by the closure that "
             "get_propagators hands out) leaves out of its key anything the stored propagators "
             "were computed from; Tempo keeps its closure from construction to compute(), so a "
             "memo shared between closures would serve it another grid's propagators", floor=1)
    from rules.c20 import memo_findings
    units = [u for u in prog.units_in("system") if not isinstance(u.node, ast.Lambda)]
    n = 0
    for (u, node, construct, missing) in memo_findings(prog, units):
        n += 1
        chk.saw(u)
        chk.add("S7", u, construct, not missing,
                "identified by everything it depends on" if not missing else
                f"the stored value depends on {missing}, which is not part of the key: a "
                f"propagator closure made earlier (Tempo keeps one) is served values computed "
                f"for another time grid", node)
    chk.add("S7", prog.module("system"), f"{len(units)} functions of system.py scanned, {n} memo "
            f"idiom(s)", len(units) >= 40, "" if len(units) >= 40 else "the module shrank")


def numeric_option_tests(prog: Program):
    """[(unit, test node, parameter)] for truthiness tests (`if p:`, `x if p else y`, `not p`,
    `p and ..`) of a parameter that holds a number: annotated int / float, or handed to
    int() / float() in the same function.  Zero is a number; `is None` is the test for
    'not given'."""
    out = []
    for u in prog.units.values():
        if isinstance(u.node, ast.Lambda):
            continue
        a = u.node.args
        numeric = set()
        for x in list(a.args) + list(a.kwonlyargs):
            ann = norm(x.annotation) if x.annotation is not None else ""
            if ("int" in ann or "float" in ann) and "bool" not in ann and "ndarray" not in ann:
                numeric.add(x.arg)
        for c in walk_local(u.node):
            if isinstance(c, ast.Call) and isinstance(c.func, ast.Name) and c.func.id in ("int", "float") \
                    and len(c.args) == 1 and isinstance(c.args[0], ast.Name) and c.args[0].id in u.params:
                numeric.add(c.args[0].id)
        if not numeric:
            continue
        # a parameter that is re-bound before the test is judged by its new value: skip those
        rebound = {t.id for st in walk_local(u.node) if isinstance(st, ast.Assign)
                   for t in st.targets if isinstance(t, ast.Name)}
        for x in walk_local(u.node):
            tests = []
            if isinstance(x, (ast.If, ast.IfExp, ast.While)):
                tests.append(x.test)
            elif isinstance(x, ast.Assert):
                tests.append(x.test)
            for t in tests:
                stack = [t]
                while stack:
                    y = stack.pop()
                    if isinstance(y, ast.UnaryOp) and isinstance(y.op, ast.Not):
                        stack.append(y.operand)
                    elif isinstance(y, ast.BoolOp):
                        stack.extend(y.values)
                    elif isinstance(y, ast.Name) and y.id in numeric and y.id not in rebound:
                        # `conv(p) if p else 0` gives 0 for p = 0 either way: harmless
                        if isinstance(x, ast.IfExp) and x.test is y \
                                and isinstance(x.orelse, ast.Constant) \
                                and isinstance(x.orelse.value, (int, float)) \
                                and not isinstance(x.orelse.value, bool) and x.orelse.value == 0:
                            b = x.body
                            while isinstance(b, ast.Call) and isinstance(b.func, ast.Name) \
                                    and b.func.id in ("int", "float", "complex") and len(b.args) == 1:
                                b = b.args[0]
                            if isinstance(b, ast.Name) and b.id == y.id:
                                continue
                        # the same as an if statement:  if p: x = conv(p)  else: x = 0
                        if isinstance(x, ast.If) and x.test is y and len(x.body) == 1 \
                                and len(x.orelse) == 1 and isinstance(x.body[0], ast.Assign) \
                                and isinstance(x.orelse[0], ast.Assign) \
                                and [norm(t_) for t_ in x.body[0].targets] == \
                                [norm(t_) for t_ in x.orelse[0].targets] \
                                and isinstance(x.orelse[0].value, ast.Constant) \
                                and isinstance(x.orelse[0].value.value, (int, float)) \
                                and not isinstance(x.orelse[0].value.value, bool) \
                                and x.orelse[0].value.value == 0:
                            b = x.body[0].value
                            while isinstance(b, ast.Call) and isinstance(b.func, ast.Name) \
                                    and b.func.id in ("int", "float", "complex") and len(b.args) == 1:
                                b = b.args[0]
                            if isinstance(b, ast.Name) and b.id == y.id:
                                continue
                        out.append((u, x, y.id))
    return out


# options for which None is a setting of its own, not "use the default"
NONE_IS_A_MODE = {"subdiv_limit": "None = sample the Liouvillian at the quarter points instead of "
                                  "integrating it over the half steps"}


def none_mode_replacements(prog: Program):
    """[(unit, statement, parameter)]: on the branch where such an option is None, a name or
    attribute that carries the option is bound to something else than None."""
    out, seen_params = [], 0
    for u in prog.units.values():
        if isinstance(u.node, ast.Lambda):
            continue
        for p_ in [x for x in u.params if x in NONE_IS_A_MODE]:
            seen_params += 1
            for st in walk_local(u.node):
                if not isinstance(st, ast.Assign):
                    continue
                carries = [t for t in st.targets
                           if p_ in ((dotted(t) or "").split(".")[-1])]
                if not carries:
                    continue
                none_branch = False
                for (t, br) in branch_context(u.node, st):
                    core, neg = t, False
                    while isinstance(core, ast.UnaryOp) and isinstance(core.op, ast.Not):
                        core, neg = core.operand, not neg
                    if isinstance(core, ast.Compare) and len(core.ops) == 1 \
                            and isinstance(core.left, ast.Name) and core.left.id == p_ \
                            and isinstance(core.comparators[0], ast.Constant) \
                            and core.comparators[0].value is None:
                        is_none = isinstance(core.ops[0], (ast.Is, ast.Eq)) != neg
                        if is_none == br:
                            none_branch = True
                if none_branch and not (isinstance(st.value, ast.Constant) and st.value.value is None) \
                        and not (isinstance(st.value, ast.Name) and st.value.id == p_):
                    out.append((u, st, p_))
    return out, seen_params


def none_mode_rule(prog: Program, chk: Check, rule: str) -> None:
    chk.rule(rule, "an option for which None is a setting of its own (subdiv_limit = None: sample "
             "the Liouvillian instead of integrating it) reaches the system's propagators as "
             "given: nowhere is the None case replaced by a default - otherwise one method "
             "integrates where the other samples, and time-dependent systems evolve differently",
             floor=1)
    hits, n = none_mode_replacements(prog)
    for (u, st, p_) in hits:
        chk.saw(u)
        chk.add(rule, u, f"`{p_}` is None -> {norm(st)[:60]}", False,
                f"{NONE_IS_A_MODE[p_]}; here the None case is turned into another value", st)
    chk.add(rule, prog.module("system_dynamics"), f"{n} functions take such an option, "
            f"{len(hits)} replace its None", True, "")
    if n < 8:
        raise AnalysisError(f"{rule}: only {n} functions with a None-is-a-mode option found (floor 8)")


def s9(prog: Program, chk: Check) -> None:
    none_mode_rule(prog, chk, "S9")


def s8(prog: Program, chk: Check) -> None:
    chk.rule("S8", "both methods are run with the parameters the caller gave: a numeric option "
             "(subdiv_limit, dkmax, tolerances, step counts) is tested for 'not given' with "
             "`is None`, never for truthiness - 0 is a legitimate value (subdiv_limit = 0: one "
             "quadrature panel) and a truthiness test silently turns it into the default, so "
             "TEMPO (which reads the parsed parameters) and compute_dynamics (which gets the "
             "caller's value) integrate the system Liouvillian differently", floor=1)
    hits = numeric_option_tests(prog)
    for (u, node, pname) in hits:
        chk.saw(u)
        chk.add("S8", u, f"truthiness test of numeric parameter `{pname}`: {norm(node)[:60]}", False,
                f"`{pname}` holds a number: the value 0 takes the 'not given' branch", node)
    n_num = 0
    for u in prog.units.values():
        if not isinstance(u.node, ast.Lambda):
            n_num += sum(1 for x in list(u.node.args.args) + list(u.node.args.kwonlyargs)
                         if x.annotation is not None and ("int" in norm(x.annotation)
                                                          or "float" in norm(x.annotation)))
    chk.add("S8", prog.module("tempo"), f"{n_num} numeric parameters in the package, {len(hits)} "
            f"tested for truthiness", n_num >= 60,
            "" if n_num >= 60 else "fewer annotated numeric parameters than confirmed by hand")


def run(prog: Program, chk: Check) -> None:
    chk.explanation = (
        "Decides that TEMPO and PT-TEMPO + compute_dynamics are wired to the same inputs at the "
        "same step indices: S1 sibling agreement of the influence_matrix bindings by canonical "
        "def-use origin; S2 propagator / MPO / cap / control indices of one step as step-offset "
        "forms in all steppers; S3 role-typed argument binding at every package call; S4 "
        "provenance of the memory length and truncation tolerance.")
    chk.not_decided = ("Numerical agreement of the two contractions, the prefix property of the "
                       "caps and tightening with the tolerance.")
    chk.assumptions = ["role vocabulary (oqv/roles.py, oqv/rolebind.py)"]
    chk.call(s1, prog, chk)
    chk.call(s2, prog, chk)
    chk.call(s3, prog, chk)
    chk.call(s4, prog, chk)
    chk.call(s5, prog, chk)
    chk.call(s6, prog, chk)
    chk.call(s7, prog, chk)
    chk.call(s8, prog, chk)
    chk.call(s9, prog, chk)
    from rules.c16 import read_only_getters
    chk.call(read_only_getters, prog, chk, "S10")
