"""Shared rule: data containers store the values they are given.

An object whose job is to hold tensors / states handed to it (the augmented MPS of PT-TEBD,
the dynamics containers, the in-memory process tensor) must keep them *as given*: between the
argument and the stored object only value-preserving conversions may act - dtype / layout
conversion (np.array, astype, ascontiguousarray), copies, reshapes, taking the diagonal of a
diagonal matrix, selecting elements, scalar casts - and defaults for missing inputs.
Arithmetic on the way (a rescaling, a normalisation "by convention", a sign flip, a clip)
changes what later computations start from: a chain state saved with get_augmented_mps() and
handed back to the constructor must continue exactly where it stopped.

The analysis walks the reaching definitions of every stored value back to the parameters and
reports the first definition that is not in the value-preserving family.
"""
from __future__ import annotations

import ast
from typing import Dict, List, Optional, Set, Tuple

from oqv.cfg import CFG
from oqv.dataflow import DefUse
from oqv.model import AnalysisError, Program, Unit, dotted, norm, walk_local
from oqv.report import Check

PRESERVING_FUNCS = {"array", "asarray", "asanyarray", "ascontiguousarray", "asfortranarray", "copy",
                    "deepcopy", "diagonal", "diag", "reshape", "ravel", "squeeze", "expand_dims",
                    "atleast_1d", "atleast_2d", "complex", "float", "int", "complex128", "float64",
                    "list", "tuple"}
PRESERVING_METHODS = {"astype", "copy", "reshape", "ravel", "flatten", "squeeze", "diagonal", "view"}
DEFAULT_FUNCS = {"ones", "zeros", "identity", "eye", "empty", "full"}
CONTAINER_BUILDERS = {"zip", "enumerate", "list", "tuple", "reversed"}


class Verdict:
    def __init__(self, ok: Optional[bool], why: str = "", node: Optional[ast.AST] = None):
        self.ok, self.why, self.node = ok, why, node


_STORED_MODE = [False]

CHANGING_FUNCS = {"round", "around", "round_", "rint", "floor", "ceil", "trunc", "clip", "abs",
                  "absolute", "fabs", "real", "imag", "conj", "conjugate", "transpose", "swapaxes",
                  "moveaxis", "nan_to_num", "sqrt", "exp", "log", "negative", "sign", "tril", "triu",
                  "flip", "sort", "float32", "complex64", "float16"}


def _depends_on_params(du: DefUse, nid: int, e: ast.AST, params: Set[str], depth: int = 0) -> bool:
    if depth > 8:
        return True
    if _STORED_MODE[0]:
        for x in ast.walk(e):
            if isinstance(x, ast.Attribute) and (dotted(x) or "").startswith("self."):
                return True
            if isinstance(x, ast.Call) and isinstance(x.func, ast.Attribute) \
                    and x.func.attr in SOURCE_GETTERS:
                return True
    for x in ast.walk(e):
        if isinstance(x, ast.Name) and isinstance(x.ctx, ast.Load):
            if x.id in params and any("param" in [s[0] for s in d.sel] for d in du.reaching(nid, x.id)):
                return True
            for d in du.reaching(nid, x.id):
                if d.value is not None and d.node != nid and \
                        _depends_on_params(du, d.node, d.value, params, depth + 1):
                    return True
    return False


SOURCE_GETTERS = ("get_mpo_tensor", "get_cap_tensor", "get_initial_tensor", "get_lam_tensor")


def preserved(u: Unit, du: DefUse, nid: int, e: ast.AST, params: Set[str],
              seen: Optional[Set[int]] = None, depth: int = 0, stored_ok: bool = False) -> Verdict:
    """Is the value of e (at node nid) one of the arguments, passed through value-preserving
    conversions only (or a default that does not depend on the arguments)?"""
    seen = seen if seen is not None else set()
    _STORED_MODE[0] = stored_ok
    if depth > 10:
        return Verdict(None, "definition chain too long")
    if isinstance(e, ast.Constant):
        return Verdict(True)
    if isinstance(e, ast.Name):
        ds = du.reaching(nid, e.id)
        if not ds:
            if u.parent is None:
                return Verdict(True)       # module-level constant: does not depend on the arguments
            return Verdict(None, f"`{e.id}` has no definition here")
        for d in ds:
            if d.id in seen:
                continue
            seen.add(d.id)
            kinds = [s[0] for s in d.sel]
            if "param" in kinds:
                continue
            if d.value is None:
                return Verdict(None, f"`{e.id}` bound without a value")
            if "aug" in kinds:
                return Verdict(False, f"`{norm(d.stmt) if d.stmt is not None else e.id}` changes the "
                               f"value in place", d.stmt)
            v = preserved(u, du, d.node, d.value, params, seen, depth + 1, stored_ok)
            if v.ok is not True:
                if v.node is None and d.stmt is not None:
                    v.node = d.stmt
                return v
        return Verdict(True)
    if isinstance(e, (ast.Subscript, ast.Starred)):
        return preserved(u, du, nid, e.value, params, seen, depth + 1, stored_ok)
    if isinstance(e, (ast.Tuple, ast.List)):
        for x in e.elts:
            v = preserved(u, du, nid, x, params, seen, depth + 1, stored_ok)
            if v.ok is not True:
                return v
        return Verdict(True)
    if isinstance(e, ast.IfExp):
        for x in (e.body, e.orelse):
            v = preserved(u, du, nid, x, params, seen, depth + 1, stored_ok)
            if v.ok is not True:
                return v
        return Verdict(True)
    if isinstance(e, ast.Attribute):
        if e.attr in ("real", "imag", "T"):
            return Verdict(False, f"`{norm(e)}` keeps only a part / another arrangement of the value", e)
        if stored_ok and (dotted(e) or "").startswith("self."):
            return Verdict(True)
        return Verdict(None, f"`{norm(e)}`")
    if isinstance(e, ast.Call):
        fn = (dotted(e.func) or "")
        last = fn.split(".")[-1] if fn else (e.func.attr if isinstance(e.func, ast.Attribute) else "")
        if last in DEFAULT_FUNCS:
            return Verdict(True)
        if stored_ok and last in SOURCE_GETTERS:
            return Verdict(True)
        if last in CHANGING_FUNCS and _depends_on_params(du, nid, e, params):
            return Verdict(False, f"`{norm(e)[:60]}` changes the values", e)
        if isinstance(e.func, ast.Attribute) and dotted(e.func.value) not in ("np", "numpy") \
                and last in PRESERVING_METHODS:
            return preserved(u, du, nid, e.func.value, params, seen, depth + 1, stored_ok)
        if last in PRESERVING_FUNCS | CONTAINER_BUILDERS and e.args:
            for a in (e.args if last in CONTAINER_BUILDERS else e.args[:1]):
                v = preserved(u, du, nid, a, params, seen, depth + 1, stored_ok)
                if v.ok is not True:
                    return v
            return Verdict(True)
        if not _depends_on_params(du, nid, e, params):
            return Verdict(True)
        return Verdict(None, f"`{norm(e)[:60]}` (not a conversion this rule knows)", e)
    if isinstance(e, (ast.BinOp, ast.UnaryOp, ast.Compare, ast.BoolOp)):
        if not _depends_on_params(du, nid, e, params):
            return Verdict(True)
        return Verdict(False, f"`{norm(e)[:70]}` computes a new value from the argument", e)
    if isinstance(e, (ast.ListComp, ast.GeneratorExp)):
        return Verdict(None, "comprehension")
    return Verdict(None, type(e).__name__)


def stored_elements(u: Unit, du: DefUse, attr: str) -> List[Tuple[int, ast.AST, ast.AST]]:
    """(node, expression, statement) of every value that ends up in self.<attr>: the value
    assigned, or - when that is a local list built by append / insert - its elements."""
    out = []
    for n in du.cfg.nodes:
        if n.copy_of or n.kind != "stmt":
            continue
        st = n.ast
        if isinstance(st, ast.Assign) and any(dotted(t) == f"self.{attr}" for t in st.targets):
            v = st.value
            if isinstance(v, ast.Name):
                lists = [d for d in du.reaching(n.id, v.id)
                         if isinstance(d.value, ast.List) and not d.value.elts and not d.sel]
                if lists:
                    for m in du.cfg.nodes:
                        if m.copy_of:
                            continue
                        for c in m.calls():
                            if isinstance(c.func, ast.Attribute) and c.func.attr in ("append", "insert") \
                                    and dotted(c.func.value) == v.id and c.args:
                                out.append((m.id, c.args[-1], m.ast))
                    continue
            out.append((n.id, v, st))
        elif isinstance(st, ast.Assign) and any(
                isinstance(t, ast.Subscript) and dotted(t.value) == f"self.{attr}" for t in st.targets):
            out.append((n.id, st.value, st))
        elif isinstance(st, ast.Expr) and isinstance(st.value, ast.Call) and \
                isinstance(st.value.func, ast.Attribute) and st.value.func.attr in ("append", "insert") \
                and dotted(st.value.func.value) == f"self.{attr}" and st.value.args:
            out.append((n.id, st.value.args[-1], st))
    return out


# (function, stored attribute, parameters that carry the data)
CONTAINERS = [
    ("mps_mpo:AugmentedMPS.__init__", "_gammas", {"gammas"}),
    ("mps_mpo:AugmentedMPS.__init__", "_lambdas", {"lambdas"}),
    ("dynamics:Dynamics.add", "_states", {"state"}),
    ("dynamics:MeanFieldDynamics.add", "_fields", {"field"}),
    ("process_tensor:SimpleProcessTensor.set_initial_tensor", "_initial_tensor", {"initial_tensor"}),
    ("process_tensor:SimpleProcessTensor.set_mpo_tensor", "_mpo_tensors", {"tensor"}),
    ("process_tensor:SimpleProcessTensor.set_cap_tensor", "_cap_tensors", {"tensor"}),
]


def _through_helpers(prog: Program, u: Unit, du: DefUse, nid: int, e: ast.AST, params: Set[str]):
    """A stored value made by a module-level parsing helper (`_parse_state(state, ..)`): judge
    the helper's returned value with the helper's parameters as the data."""
    if isinstance(e, ast.Name):
        for d in du.reaching(nid, e.id):
            v = d.value
            if isinstance(v, ast.Call) and isinstance(v.func, ast.Name):
                q = f"{u.module.short}:{v.func.id}"
                if q in prog.units:
                    h = prog.units[q]
                    hdu = DefUse(h, CFG(h.node, exc_edges=False))
                    idx = [s[1] for s in d.sel if s[0] == "idx"]
                    for r in [x for x in walk_local(h.node) if isinstance(x, ast.Return) and x.value is not None]:
                        rv = r.value
                        if idx and isinstance(rv, ast.Tuple) and idx[0] < len(rv.elts):
                            rv = rv.elts[idx[0]]
                        yield h, hdu, hdu.node_of(r), rv, set(h.params)
                    return
    yield u, du, nid, e, params


def containers_keep_values(prog: Program, chk: Check, rule: str, which: Optional[Set[str]] = None,
                           floor: int = 2) -> None:
    n = 0
    for (q, attr, params) in CONTAINERS:
        cls = q.split(":")[1].split(".")[0]
        if which is not None and cls not in which:
            continue
        if not prog.has_unit(q):
            raise AnalysisError(f"{rule}: anchor vanished: {q}")
        u = prog.unit(q)
        du = DefUse(u, CFG(u.node, exc_edges=False))
        chk.saw(u, du.cfg)
        elems = stored_elements(u, du, attr)
        if not elems:
            raise AnalysisError(f"{rule}: {q} no longer stores into self.{attr}")
        for (nid, e, st) in elems:
            for (hu, hdu, hnid, he, hparams) in _through_helpers(prog, u, du, nid, e, params):
                n += 1
                v = preserved(hu, hdu, hnid, he, hparams)
                chk.add(rule, hu, f"{cls}.{attr} <- {norm(he)[:50]}", v.ok,
                        "the argument, through value-preserving conversions only" if v.ok else
                        (f"{v.why}: the container does not hold what it was given (a state saved "
                         f"and handed back continues from different numbers)" if v.ok is False
                         else f"origin not decided: {v.why}"),
                        v.node if (v.node is not None and hu is u) else (st if hu is u else None))
    if n < floor:
        raise AnalysisError(f"{rule}: only {n} stored values found")


MOVES = [("process_tensor:SimpleProcessTensor.export", 3),
         ("process_tensor:import_process_tensor", 3)]


def moves_keep_values(prog: Program, chk: Check, rule: str) -> None:
    """export / import move tensors from one process tensor to another: what a setter of the
    target receives is what a getter (or the stored list) of the source held, through
    value-preserving conversions only."""
    for (q, floor) in MOVES:
        u = prog.unit(q)
        du = DefUse(u, CFG(u.node, exc_edges=False))
        chk.saw(u, du.cfg)
        n = 0
        for nd in du.cfg.nodes:
            if nd.copy_of:
                continue
            for c in nd.calls():
                if not (isinstance(c.func, ast.Attribute) and c.func.attr.startswith("set_")
                        and c.func.attr.endswith("_tensor") and c.args):
                    continue
                n += 1
                v = preserved(u, du, nd.id, c.args[-1], set(u.params), stored_ok=True)
                chk.add(rule, u, f"{norm(c.func)}(.., {norm(c.args[-1])[:40]})", v.ok,
                        "the source's tensor, through value-preserving conversions only" if v.ok else
                        (f"{v.why}: the copy differs from the original" if v.ok is False
                         else f"origin not decided: {v.why}"), v.node or c)
        if n < floor:
            raise AnalysisError(f"{rule}: {q} hands only {n} tensors to setters (confirmed by hand: {floor})")

    # the HDF5 helpers: what is written into / read from the flat dataset is the tensor itself
    for (q, kind) in (("process_tensor:_set_data_and_shape", "store"),
                      ("process_tensor:_get_data_and_shape", "return")):
        u = prog.unit(q)
        du = DefUse(u, CFG(u.node, exc_edges=False))
        chk.saw(u, du.cfg)
        n = 0
        for nd in du.cfg.nodes:
            if nd.copy_of or nd.kind != "stmt":
                continue
            st = nd.ast
            if kind == "store" and isinstance(st, ast.Assign) and any(
                    isinstance(t, ast.Subscript) and dotted(t.value) == "data" for t in st.targets):
                e = st.value
            elif kind == "return" and isinstance(st, ast.Return) and st.value is not None:
                e = st.value
            else:
                continue
            n += 1
            v = preserved(u, du, nd.id, e, set(u.params))
            chk.add(rule, u, f"{'data[step] <- ' if kind == 'store' else 'return '}{norm(e)[:40]}", v.ok,
                    "the tensor, flattened / reshaped only" if v.ok else
                    (f"{v.why}: the file does not hold / return the tensor it was given"
                     if v.ok is False else f"origin not decided: {v.why}"), v.node or st)
        if n < 1:
            raise AnalysisError(f"{rule}: {q} no longer {'stores into data' if kind == 'store' else 'returns a tensor'}")
