"""C06 - degeneracy reduction never changes results: role consistency of the
NORTH / WEST degeneracy maps from producer to every consumer (R1) and the
grouping key of _row_degeneracy (R2)."""
from __future__ import annotations

import ast
from typing import Dict, FrozenSet, List, Optional, Set, Tuple

from oqv.astutil import branch_context, call_name, method_call
from oqv.cfg import CFG
from oqv.dataflow import DefUse, names_loaded
from oqv.model import AnalysisError, Program, Unit, dotted, norm, walk_local, kw_of
from oqv.report import Check

NORTH, WEST = "NORTH", "WEST"
PAIR_NAMES = {"deg_positions", "tmp_deg_positions", "degeneracy_maps", "_degeneracy_maps"}


class Roles:
    def __init__(self, u: Unit):
        self.u = u
        self.du = DefUse(u, CFG(u.node, exc_edges=False))

    def is_pair(self, e: ast.AST, nid: int, depth=0) -> bool:
        d = dotted(e)
        if d and d.split(".")[-1] in PAIR_NAMES:
            return True
        if isinstance(e, (ast.List, ast.Tuple)) and len(e.elts) == 2:
            return self.role(e.elts[0], nid) == {NORTH} and self.role(e.elts[1], nid) == {WEST}
        if isinstance(e, ast.Name) and depth < 4:
            ds = [x for x in self.du.reaching(nid, e.id) if x.value is not None]
            return bool(ds) and all(self.is_pair(x.value, x.node, depth + 1) or
                                    (isinstance(x.value, ast.Constant) and x.value.value is None)
                                    for x in ds) and any(not isinstance(x.value, ast.Constant) for x in ds)
        return False

    def _select(self, v: ast.AST, nid: int, k: int, depth: int = 0):
        """element k of the tuple / list display that `v` stands for -> [(element, node)]"""
        if isinstance(v, (ast.Tuple, ast.List)):
            if k < len(v.elts) and not any(isinstance(x, ast.Starred) for x in v.elts):
                return [(v.elts[k], nid)]
            return None
        if isinstance(v, (ast.ListComp, ast.GeneratorExp)) and len(v.generators) == 1 and depth < 3:
            # [f(m) for m in (a, b)]: element k is f(element k of the iterable)
            g = v.generators[0]
            if not g.ifs and isinstance(g.target, ast.Name):
                got = self._select(g.iter, nid, k, depth + 1)
                if got:
                    import copy as _copy
                    from oqv.canon import _Subst
                    out = []
                    for (elt, at) in got:
                        e2 = _Subst({g.target.id: elt}).visit(_copy.deepcopy(v.elt))
                        ast.fix_missing_locations(e2)
                        out.append((e2, at))
                    return out
            return None
        if isinstance(v, ast.Name) and depth < 3:
            out = []
            for df in self.du.reaching(nid, v.id):
                if df.value is None or df.sel:
                    return None
                if isinstance(df.value, ast.Constant) and df.value.value is None:
                    continue
                got = self._select(df.value, df.node, k, depth + 1)
                if not got:
                    return None
                out += got
            return out
        return None

    def role(self, e: ast.AST, nid: int, depth: int = 0) -> FrozenSet[str]:
        if depth > 8 or e is None:
            return frozenset()
        d = dotted(e)
        if d and "." in d:          # attributes / properties only: locals get their role by def-use
            last = d.split(".")[-1]
            if "north" in last and "degeneracy_map" in last:
                return frozenset({NORTH})
            if "west" in last and "degeneracy_map" in last:
                return frozenset({WEST})
        if isinstance(e, ast.Name):
            out: Set[str] = set()
            for df in self.du.reaching(nid, e.id):
                if df.value is None:
                    continue
                if df.sel and df.sel[0][0] == "idx" and len(df.sel) == 1:
                    # unpacking a tuple display (possibly held in a local): the element's role
                    picked = self._select(df.value, df.node, df.sel[0][1])
                    if picked:
                        for (elt, at) in picked:
                            out |= self.role(elt, at, depth + 1)
                        continue
                if df.sel and df.sel[0][0] == "idx" and self.is_pair(df.value, df.node):
                    out.add(NORTH if df.sel[0][1] == 0 else WEST)
                    continue
                if df.sel and df.sel[0][0] in ("iter",):
                    continue
                if df.node == nid:
                    continue
                out |= self.role(df.value, df.node, depth + 1)
            return frozenset(out)
        if isinstance(e, ast.Subscript):
            if isinstance(e.slice, ast.Constant) and isinstance(e.slice.value, int) \
                    and self.is_pair(e.value, nid):
                return frozenset({NORTH if e.slice.value == 0 else WEST})
            return self.role(e.value, nid, depth + 1)
        if isinstance(e, ast.Constant):
            return frozenset()
        out = set()
        for ch in ast.iter_child_nodes(e):
            if isinstance(ch, ast.expr) or isinstance(ch, ast.comprehension):
                if isinstance(ch, ast.comprehension):
                    out |= self.role(ch.iter, nid, depth + 1)
                    for c in ch.ifs:
                        out |= self.role(c, nid, depth + 1)
                else:
                    out |= self.role(ch, nid, depth + 1)
        return frozenset(out)


def _is_pair_or_list_of_pairs(P: "Roles", a: ast.AST, nid: int, depth: int = 0) -> bool:
    """a is [north, west], a list (comprehension) of such pairs, or None on the non-unique path."""
    if isinstance(a, ast.ListComp):
        return _is_pair_or_list_of_pairs(P, a.elt, nid, depth + 1)
    if isinstance(a, (ast.List, ast.Tuple)) and len(a.elts) == 2:
        return P.role(a.elts[0], nid) == {NORTH} and P.role(a.elts[1], nid) == {WEST}
    if isinstance(a, ast.Name) and depth < 4:
        ds = [x for x in P.du.reaching(nid, a.id) if x.value is not None]
        def is_none(v):
            return (isinstance(v, ast.Constant) and v.value is None) or \
                (isinstance(v, ast.ListComp) and is_none(v.elt))
        real = [x for x in ds if not is_none(x.value)]
        return bool(real) and all(_is_pair_or_list_of_pairs(P, x.value, x.node, depth + 1)
                                  for x in real)
    return False


# np.where(mask)[0][0] and its spellings: positions at which a one-argument mask holds
_FIRST_MATCH = ("where", "nonzero", "flatnonzero", "argwhere")


def _fmt(r) -> str:
    return "/".join(sorted(r)) if r else "none"


def r1(prog: Program, chk: Check) -> None:
    chk.rule("R1", "role consistency of the degeneracy maps: NORTH = classes of (commutator, "
             "anticommutator), WEST = classes of the commutator; [north, west] order at every "
             "pair construction and destructuring; representatives, sum vectors, scatter axes "
             "and the reduced influence are indexed/sized by the map of the matching role",
             floor=30)
    # ---- producers
    bi = prog.unit("bath:Bath.__init__")
    chk.saw(bi)
    for st in walk_local(bi.node):
        if isinstance(st, ast.Assign) and isinstance(st.value, ast.Call) \
                and call_name(st.value) == "_row_degeneracy":
            t = dotted(st.targets[0]) or ""
            # key columns by what they are made from (commutator / anticommutator eigenvalues),
            # through locals and the attributes they are stored in
            du_b = DefUse(bi, CFG(bi.node, exc_edges=False))
            stored = {dotted(s_.targets[0]): s_.value for s_ in walk_local(bi.node)
                      if isinstance(s_, ast.Assign) and (dotted(s_.targets[0]) or "").startswith("self.")}

            def made_from(e, at, depth=0):
                for c_ in ast.walk(e):
                    if isinstance(c_, ast.Call) and call_name(c_) in ("commutator", "acommutator"):
                        return "coupling_comm" if call_name(c_) == "commutator" else "coupling_acomm"
                if depth > 4:
                    return None
                if isinstance(e, ast.Name):
                    d_ = du_b.unique_value(at, e.id)
                    if d_ is not None and d_.value is not None and not d_.sel:
                        return made_from(d_.value, d_.node, depth + 1)
                if isinstance(e, ast.Attribute) and dotted(e) in stored:
                    return made_from(stored[dotted(e)], at, depth + 1)
                if isinstance(e, (ast.Attribute, ast.Call, ast.Subscript)):
                    inner = e.value if isinstance(e, (ast.Attribute, ast.Subscript)) else e.func
                    return made_from(inner, at, depth + 1)
                return None
            elts_ = st.value.args[0].elts if isinstance(st.value.args[0], (ast.List, ast.Tuple)) else [st.value.args[0]]
            keys = sorted({k for k in (made_from(x, du_b.node_of(st)) for x in elts_) if k})
            want = ["coupling_acomm", "coupling_comm"] if "north" in t else ["coupling_comm"]
            chk.add("R1", bi, f"{t} = _row_degeneracy({keys})", keys == want,
                    "" if keys == want else f"expected key columns {want}", st)
    ba = prog.cls("bath:Bath")
    for pname in ("north_degeneracy_map", "west_degeneracy_map"):
        pu = ba.methods.get(pname)
        if pu is None:
            raise AnalysisError(f"R1: Bath.{pname} vanished")
        r = [x for x in walk_local(pu.node) if isinstance(x, ast.Return)][0]
        ok = f"self._{pname}" in norm(r.value)
        chk.add("R1", pu, f"return {norm(r.value)}", ok,
                "" if ok else "the property returns the other map", r)

    # ---- selectors and front-end wiring (found by content, wherever they live)
    front_mods = ("tempo", "pt_tempo")
    roles_of: Dict[str, Roles] = {}

    def R_(unit: Unit) -> Roles:
        if unit.qual not in roles_of:
            roles_of[unit.qual] = Roles(unit)
        return roles_of[unit.qual]

    # (1) representative arrays: np.where(M == i)[0][0] for i in range(max(M2)+1)
    selectors = 0
    for su in [u for m_ in front_mods for u in prog.units_in(m_) if not isinstance(u.node, ast.Lambda)]:
        lcs = [lc for lc in walk_local(su.node) if isinstance(lc, ast.ListComp) and any(
            isinstance(c, ast.Call) and (dotted(c.func) or "").split(".")[-1] in _FIRST_MATCH
            for c in ast.walk(lc.elt))]
        if not lcs:
            continue
        selectors += 1
        R = R_(su)
        chk.saw(su, R.du.cfg)
        for lc in lcs:
            nid = R.du.node_of(lc)
            wh = [c for c in ast.walk(lc.elt) if isinstance(c, ast.Call)
                  and (dotted(c.func) or "").split(".")[-1] in _FIRST_MATCH]
            r_in = R.role(wh[0], nid)
            r_bound = R.role(lc.generators[0].iter, nid)
            ok = len(r_in) == 1 and r_in == r_bound
            chk.add("R1", su, f"representatives: where({_fmt(r_in)} == i) for i in "
                    f"range(max({_fmt(r_bound)})+1)", ok,
                    "" if ok else "the class count and the searched map belong to different "
                                  "degeneracy maps", lc)
        if len(lcs) != 2:
            raise AnalysisError(f"R1: expected 2 representative selections in {su.qual}, "
                                f"found {len(lcs)}")
    if selectors < 3:
        raise AnalysisError(f"R1: only {selectors} functions select class representatives "
                            f"(Tempo, PtTempo, MeanFieldTempo confirmed by hand)")

    # (2) the pair handed to influence_matrix(deg_positions) - whatever the local is called,
    #     however it is passed, wherever it was made
    im_params = prog.unit("tempo:influence_matrix").params

    def pair_values(unit: Unit, at: ast.AST, e: ast.AST, depth: int = 0):
        """(unit, node id, value expression) candidates of a deg_positions argument."""
        if depth > 4:
            return
        if isinstance(e, ast.Name):
            owner = unit if not isinstance(unit.node, ast.Lambda) else unit.parent
            while owner is not None:
                Ro = R_(owner)
                nid = Ro.du.node_of(at) if owner is unit else None
                defs = [df for df in (Ro.du.reaching(nid, e.id) if nid is not None else
                                      [d for d in Ro.du.defs if d.name == e.id])
                        if df.value is not None]
                if defs:
                    for df in defs:
                        yield from pair_values(owner, Ro.du.cfg.nodes[df.node].ast, df.value, depth + 1)
                    return
                owner = owner.parent
            return
        mc = method_call(e) if isinstance(e, ast.Call) else None
        if mc and mc[0] == "self":
            ci_ = prog.class_of_unit(unit)
            helper = prog.find_method(ci_, mc[1]) if ci_ else None
            if helper is not None:
                for r in [x for x in walk_local(helper.node) if isinstance(x, ast.Return)
                          and x.value is not None]:
                    yield from pair_values(helper, r, r.value, depth + 1)
                return
        owner = unit if not isinstance(unit.node, ast.Lambda) else unit.parent
        yield owner, R_(owner).du.node_of(at), e

    pair_sites = 0
    for u in prog.units.values():
        if u.module.short not in front_mods:
            continue
        calls = [c for c in (ast.walk(u.node.body) if isinstance(u.node, ast.Lambda)
                             else walk_local(u.node))
                 if isinstance(c, ast.Call) and call_name(c) == "influence_matrix"]
        for c in calls:
            bound = {im_params[i_]: a for i_, a in enumerate(c.args) if i_ < len(im_params)}
            bound.update({kw_.arg: kw_.value for kw_ in c.keywords if kw_.arg})
            dp = bound.get("deg_positions")
            if dp is None:
                continue
            anchor_unit = u if not isinstance(u.node, ast.Lambda) else u.parent
            at = c
            if isinstance(u.node, ast.Lambda):
                # the statement of the enclosing function that holds the lambda
                at = next((st for st in walk_local(anchor_unit.node) if isinstance(st, ast.stmt)
                           and any(x is u.node for x in ast.walk(st))), c)
            for (vu, vn, v) in pair_values(u if not isinstance(u.node, ast.Lambda) else anchor_unit,
                                           at, dp):
                if isinstance(v, ast.Constant) and v.value is None:
                    continue
                pair_sites += 1
                if isinstance(v, (ast.List, ast.Tuple)) and len(v.elts) == 2:
                    ra, rb = R_(vu).role(v.elts[0], vn), R_(vu).role(v.elts[1], vn)
                    ok = ra == {NORTH} and rb == {WEST}
                    chk.add("R1", vu, f"deg_positions = [{_fmt(ra)}, {_fmt(rb)}]", ok,
                            "" if ok else "the pair is not [north, west]", v)
                else:
                    chk.add("R1", vu, f"deg_positions = {norm(v)[:50]}", False,
                            "not a [north, west] pair of representative arrays", v)
    if pair_sites < 3:
        raise AnalysisError(f"R1: only {pair_sites} deg_positions pairs reach influence_matrix "
                            f"(Tempo, PtTempo, MeanFieldTempo confirmed by hand)")

    # (3) binding to the back-end constructors: the parameter names carry the roles
    n_ctor = 0
    for pu in [u for m_ in front_mods for u in prog.units_in(m_) if not isinstance(u.node, ast.Lambda)]:
        if not any(isinstance(c, ast.Call) and call_name(c) in (
                "TempoBackend", "PtTempoBackend", "MeanFieldTempoBackend") for c in walk_local(pu.node)):
            continue
        P = R_(pu)
        chk.saw(pu, P.du.cfg)
        for c in walk_local(pu.node):
            if isinstance(c, ast.Call) and call_name(c) in ("TempoBackend", "PtTempoBackend",
                                                            "MeanFieldTempoBackend"):
                callee = prog.find_method(prog.resolve_class_name(pu.module, call_name(c)),
                                          "__init__")
                params = callee.params[1:]
                bound = {}
                for i, a in enumerate(c.args):
                    bound[params[i]] = a
                for k in c.keywords:
                    bound[k.arg] = k.value
                nid = P.du.node_of(c)
                for p, a in bound.items():
                    if p.startswith("sum_north") or p.startswith("sum_west"):
                        n_ctor += 1
                        want = {NORTH} if "north" in p else {WEST}
                        r = P.role(a, nid)
                        chk.add("R1", pu, f"{call_name(c)}({p} sized by {_fmt(r)})", r == want,
                                "" if r == want else
                                f"the summing vector handed over as `{p}` has the length of the "
                                f"{_fmt(r)} class set", c)
                    if p.startswith("degeneracy_maps"):
                        n_ctor += 1
                        ok = _is_pair_or_list_of_pairs(P, a, nid)
                        chk.add("R1", pu, f"{call_name(c)}({p} = [north, west] pair(s))", ok,
                                "" if ok else "the pair is not [north, west]", c)
    if n_ctor < 9:
        raise AnalysisError(f"R1: the back-end constructors receive only {n_ctor} summing vectors / "
                            f"degeneracy maps (9 confirmed by hand)")

    # ---- influence_matrix
    im = prog.unit("tempo:influence_matrix")
    R = Roles(im)
    chk.saw(im, R.du.cfg)

    def op_deps(e: ast.AST, nid: int, depth: int = 0) -> Set[str]:
        """which of op_m / op_p (commutator / anticommutator eigenvalues) e depends on"""
        out = set()
        for n in names_loaded(e):
            for df in R.du.reaching(nid, n):
                if df.value is not None and dotted(df.value) in ("coupling_comm",):
                    out.add("comm")
                elif df.value is not None and dotted(df.value) in ("coupling_acomm",):
                    out.add("acomm")
                elif df.value is not None and depth < 4 and df.node != nid:
                    out |= op_deps(df.value, df.node, depth + 1)     # through temporaries
            if n == "coupling_comm":
                out.add("comm")
            if n == "coupling_acomm":
                out.add("acomm")
        return out
    found = 0
    # the influence under construction is the variable the function returns
    ret_names = {r.value.id for r in walk_local(im.node) if isinstance(r, ast.Return)
                 and isinstance(r.value, ast.Name)}
    if len(ret_names) != 1:
        raise AnalysisError("R1: influence_matrix no longer returns one local variable")
    infl_name = ret_names.pop()
    for st in walk_local(im.node):
        if isinstance(st, ast.Return) and st.value is not None and not isinstance(st.value, ast.Name) \
                and any(isinstance(x, ast.Subscript) for x in ast.walk(st.value)) \
                and any(isinstance(x, ast.Name) and x.id == infl_name for x in ast.walk(st.value)):
            pass          # the reduced influence returned directly (guard-clause style)
        elif not (isinstance(st, ast.Assign) and dotted(st.targets[0]) == infl_name):
            continue
        else:
            ctx = [br for (t, br) in branch_context(im.node, st)
                   if isinstance(t, ast.Compare) and dotted(t.left) == "deg_positions"]
            if ctx != [True]:
                continue
        nid = R.du.node_of(st.value)
        v = st.value
        found += 1
        # dk == 0 : np.diag(infl)[X]
        if isinstance(v, ast.Subscript) and isinstance(v.value, ast.Call):
            r = R.role(v.slice, nid)
            chk.add("R1", im, f"dk=0: diagonal influence reduced by {_fmt(r)} representatives",
                    r == {NORTH}, "" if r == {NORTH} else
                    "the dk=0 influence depends on commutator AND anticommutator eigenvalues: it "
                    "must be reduced with the NORTH map", st)
            continue
        # (infl[A].T)[B].T
        idxs = [x for x in ast.walk(v) if isinstance(x, ast.Subscript)]
        if len(idxs) != 2:
            raise AnalysisError(f"R1: reduction expression `{norm(v)}` not recognised")
        outer_sub = [x for x in idxs if any(y is not x and isinstance(y, ast.Subscript)
                                            for y in ast.walk(x))][0]
        inner_sub = [x for x in idxs if x is not outer_sub][0]
        # transposes between inner and outer decide the axis
        r_axis0 = R.role(inner_sub.slice, nid)
        r_axis1 = R.role(outer_sub.slice, nid)
        transposed_between = isinstance(outer_sub.value, ast.Attribute) and outer_sub.value.attr == "T"
        if not transposed_between:
            r_axis1 = frozenset({"<same axis>"})
        # what do the axes of outer(A, B) depend on?
        outer_calls = []
        for df in R.du.reaching(nid, infl_name):
            if df.value is not None:
                outer_calls += [c for c in ast.walk(df.value) if isinstance(c, ast.Call)
                                and (dotted(c.func) or "").split(".")[-1] == "outer"]
        if len(outer_calls) != 1:
            raise AnalysisError("R1: np.outer(...) of influence_matrix not found")
        oc = outer_calls[0]
        oc_nid = R.du.node_of(oc)
        depA, depB = op_deps(oc.args[0], oc_nid), op_deps(oc.args[1], oc_nid)
        needA = {NORTH} if depA == {"comm", "acomm"} else ({WEST} if depA == {"comm"} else set())
        needB = {NORTH} if depB == {"comm", "acomm"} else ({WEST} if depB == {"comm"} else set())
        chk.add("R1", im, f"dk>0: axis 0 (depends on {sorted(depA)}) reduced by {_fmt(r_axis0)}",
                set(r_axis0) == needA and bool(needA),
                "" if set(r_axis0) == needA else f"axis 0 needs the {_fmt(needA)} representatives", st)
        chk.add("R1", im, f"dk>0: axis 1 (depends on {sorted(depB)}) reduced by {_fmt(r_axis1)}",
                set(r_axis1) == needB and bool(needB),
                "" if set(r_axis1) == needB else f"axis 1 needs the {_fmt(needB)} representatives", st)
    if found != 2:
        raise AnalysisError(f"R1: expected 2 reductions in influence_matrix, found {found}")

    backend_scatters(prog, chk, "R1")


def backend_scatters(prog: Program, chk: Check, rule: str = "R1") -> None:
    """Both back ends scatter the reduced dk=0 influence into their zero-initialised tensors:
    every axis is indexed by the map that sized it, the basis axis by the plain basis index
    (every basis element is filled, not one representative per class)."""
    # ---- back-end scatters
    for q in ("backends.tempo_backend:BaseTempoBackend.initialize_mps_mpo",
              "backends.pt_tempo_backend:PtTempoBackend.initialize"):
        u = prog.unit(q)
        R = Roles(u)
        chk.saw(u, R.du.cfg)
        zeros_shapes: Dict[str, List[FrozenSet[str]]] = {}
        for st in walk_local(u.node):
            if isinstance(st, ast.Assign) and isinstance(st.value, ast.Call) \
                    and (dotted(st.value.func) or "").split(".")[-1] == "zeros" \
                    and isinstance(st.value.args[0], ast.Tuple):
                nid = R.du.node_of(st.value)
                zeros_shapes[dotted(st.targets[0])] = [R.role(e, nid) for e in st.value.args[0].elts]
        n_sc = 0
        for st in walk_local(u.node):
            if isinstance(st, ast.AugAssign) and isinstance(st.target, ast.Subscript):
                tgt0 = st.target
            elif isinstance(st, ast.Assign) and isinstance(st.targets[0], ast.Subscript):
                tgt0 = st.targets[0]
            else:
                continue
            chain = []
            cur = tgt0
            while isinstance(cur, ast.Subscript):
                # a[i][j] and a[i, j] address the same axes
                sl = cur.slice
                chain.append(list(sl.elts) if isinstance(sl, ast.Tuple) else [sl])
                cur = cur.value
            base = dotted(cur)
            if base not in zeros_shapes:
                continue
            chain = [x for grp in reversed(chain) for x in grp]
            nid = R.du.node_of(st.value)
            n_sc += 1
            shape = zeros_shapes[base]
            bad = []
            for ax, sl in enumerate(chain):
                if isinstance(sl, ast.Slice) and sl.lower is None and sl.upper is None:
                    continue                  # the whole axis
                r_idx = R.role(sl, nid)
                r_sz = shape[ax] if ax < len(shape) else frozenset()
                if r_idx != r_sz:
                    bad.append(f"axis {ax}: sized by {_fmt(r_sz)}, indexed by {_fmt(r_idx)}")
            chk.add(rule, u, f"scatter into {base}: axes "
                    f"{[_fmt(R.role(sl, nid)) for sl in chain]} vs sizes {[_fmt(s) for s in shape]}",
                    not bad, "" if not bad else "; ".join(bad), st)
            # the reduced dk=0 influence is indexed by NORTH
            def from_influence(name, at, depth=0):
                for df in R.du.reaching(at, name):
                    if df.value is None:
                        continue
                    if any(isinstance(y, ast.Call) and dotted(y.func) == "self._influence"
                           for y in ast.walk(df.value)):
                        return True
                    if depth < 4 and any(
                            isinstance(y, ast.Name) and isinstance(y.ctx, ast.Load)
                            and from_influence(y.id, df.node, depth + 1)
                            for y in ast.walk(df.value)):
                        return True
                return False
            src = [x for x in ast.walk(st.value) if isinstance(x, ast.Subscript)
                   and isinstance(x.value, ast.Name) and from_influence(x.value.id, nid)]
            for x in src:
                r = R.role(x.slice, nid)
                chk.add(rule, u, f"reduced influence read at {_fmt(r)} class index", r == {NORTH},
                        "" if r == {NORTH} else "the reduced dk=0 influence is indexed with the "
                                                "wrong map", st)
        if n_sc < 1:
            raise AnalysisError(f"{rule}: scatter loop not found in {q}")
        # destructuring order
        for st in walk_local(u.node):
            if isinstance(st, ast.Assign) and isinstance(st.targets[0], ast.Tuple) \
                    and dotted(st.value) and dotted(st.value).split(".")[-1] in PAIR_NAMES:
                names = [dotted(e) or "" for e in st.targets[0].elts]
                chk.add(rule, u, f"{names} = {norm(st.value)}", len(names) == 2, "", st)




def r2(prog: Program, chk: Check) -> None:
    chk.rule("R2", "_row_degeneracy groups indices by the full key tuple: np.unique over the "
             "rows of the TRANSPOSED rounded key matrix with return_inverse, result [1]", floor=1)
    u = prog.unit("bath:_row_degeneracy")
    du = DefUse(u, CFG(u.node, exc_edges=False))
    chk.saw(u, du.cfg)
    # second accepted family: pairwise comparison of the full rows with an ABSOLUTE tolerance
    closes = [c for c in walk_local(u.node) if isinstance(c, ast.Call)
              and (dotted(c.func) or "").split(".")[-1] in ("isclose", "allclose")]
    if closes:
        for c in closes:
            kw = kw_of(c)
            rtol = kw.get("rtol", c.args[2] if len(c.args) > 2 else None)
            rtol0 = isinstance(rtol, ast.Constant) and rtol.value == 0
            whole_rows = (dotted(c.func) or "").endswith("allclose") or any(
                isinstance(x, ast.Call) and isinstance(x.func, ast.Attribute)
                and x.func.attr == "all" and any(y is c for y in ast.walk(x.func.value))
                for x in walk_local(u.node))
            ok = rtol0 and whole_rows
            chk.add("R2", u, norm(c)[:80], ok,
                    "rows compared as a whole with an absolute tolerance" if ok else
                    ("the comparison keeps numpy's default RELATIVE tolerance (1e-5): index pairs "
                     "whose key rows agree to a relative 1e-5 - levels on a large common offset, "
                     "nearly degenerate levels - are merged into one class" if not rtol0 else
                     "rows are not compared as a whole (all key columns)"), c)
        return
    calls = [c for c in walk_local(u.node) if isinstance(c, ast.Call)
             and (dotted(c.func) or "").split(".")[-1] == "unique"]
    if len(calls) != 1:
        raise AnalysisError("R2: np.unique call vanished")
    c = calls[0]
    kw = kw_of(c)
    ok_axis = isinstance(kw.get("axis"), ast.Constant) and kw["axis"].value == 0
    ok_inv = isinstance(kw.get("return_inverse"), ast.Constant) and kw["return_inverse"].value is True
    from oqv.dataflow import expand as _expand
    a0 = _expand(du, du.node_of(c), c.args[0], depth=4)       # temporaries written out

    def _transposed(e, depth=0):
        """one transposition on the way from the key list to the argument (round(X.T) and
        round(X).T are the same matrix)"""
        if isinstance(e, ast.Attribute) and e.attr == "T":
            return True
        if isinstance(e, ast.Call) and (dotted(e.func) or "").endswith("transpose"):
            return True
        if isinstance(e, ast.Call) and isinstance(e.func, ast.Attribute) \
                and e.func.attr in ("round", "around", "round_") and depth < 2:
            # np.round(X, ..) or X.round(..)
            inner = e.args[0] if isinstance(e.func.value, ast.Name) and e.func.value.id in ("np", "numpy") \
                and e.args else e.func.value
            return _transposed(inner, depth + 1)
        return False
    ok_T = _transposed(a0)
    rounded = any(isinstance(x, ast.Call) and isinstance(x.func, (ast.Attribute, ast.Name))
                  and (x.func.attr if isinstance(x.func, ast.Attribute) else x.func.id)
                  in ("round", "around", "round_") for x in ast.walk(a0))
    sub_ok = any(isinstance(x, ast.Subscript) and x.value is c and isinstance(x.slice, ast.Constant)
                 and x.slice.value == 1 for x in walk_local(u.node))
    if not sub_ok:
        # `_, inverse = np.unique(...)`: position 1 of the result, and that is what is returned
        picked = {d.name for d in du.defs if d.value is c and d.sel == (("idx", 1),)}
        rets = [r for r in walk_local(u.node) if isinstance(r, ast.Return) and r.value is not None]
        sub_ok = bool(picked) and bool(rets) and all(
            isinstance(r.value, ast.Name) and r.value.id in picked
            and all(dd.value is c for dd in du.reaching(du.node_of(r), r.value.id)) for r in rets)
    ok = ok_axis and ok_inv and ok_T and rounded and sub_ok
    chk.add("R2", u, norm(c), ok,
            "rows of the transposed (index x key) matrix are grouped" if ok else
            f"axis0={ok_axis}, return_inverse={ok_inv}, transposed={ok_T}, rounded={rounded}, "
            f"[1]={sub_ok}: indices are not grouped by their full key tuple", c)


def r3(prog: Program, chk: Check) -> None:
    chk.rule("R3", "degeneracy reduction does not touch the basis rotation: with and without it "
             "the dk=0 tensor is rotated by one np.dot with self._super_u_dagg (as it is) and one "
             "with self._super_u (transposed); the two superoperators are used nowhere else in "
             "initialize_mps_mpo", floor=2)
    from rules.c05 import rotation_per_case
    rotation_per_case(prog, chk, "R3")


def r4(prog: Program, chk: Check) -> None:
    chk.rule("R4", "each influence function reduces its matrices with the degeneracy positions of its own bath: no closure that outlives a loop iteration (kept in a list, handed to a back end) reads a variable that the loop rebinds - it would see the value of the last iteration, i.e. every species of a mean-field computation would use the positions of the last bath while its back end holds its own maps (a default argument, a factory function or functools.partial binds "
             "the value when the closure is made; a closure consumed within the iteration is fine). "
             "Expected count on a correct tree is zero: a built-in example with two defective and "
             "two accepted closures is judged on every run", floor=1)
    from rules import latebinding
    latebinding.self_check("R4")
    n = latebinding.late_binding(prog, chk, "R4", modules={'backends.pt_tempo_backend', 'backends.tempo_backend', 'pt_tempo', 'tempo'})
    chk.add("R4", prog.module("tempo"), f"{n} closures created in loops / comprehensions examined; "
            f"built-in example judged as expected", True, "")


def r5(prog: Program, chk: Check) -> None:
    chk.rule("R5", "the vectors that close the reduced legs (sum_north / sum_west handed to the "
             "back ends) are vectors of ones in both the reduced and the full case: the dk = 0 "
             "tensor already sends every basis index to exactly one class, so closing a class "
             "leg with its multiplicity (bincount of the map) counts the degenerate indices "
             "twice", floor=6)
    n = 0
    for pu in [u for m_ in ("tempo", "pt_tempo") for u in prog.units_in(m_)
               if not isinstance(u.node, ast.Lambda)]:
        calls = [c for c in walk_local(pu.node) if isinstance(c, ast.Call) and call_name(c) in (
            "TempoBackend", "PtTempoBackend", "MeanFieldTempoBackend")]
        if not calls:
            continue
        P = Roles(pu)
        chk.saw(pu, P.du.cfg)

        def ones(e, nid, depth=0) -> Optional[bool]:
            """True: a vector (or list of vectors) of ones; False: something else; None: unknown"""
            if isinstance(e, ast.Call) and (dotted(e.func) or "").split(".")[-1] in ("ones", "ones_like"):
                return True
            if isinstance(e, ast.Call) and isinstance(e.func, ast.Attribute) \
                    and e.func.attr in ("astype", "copy") and depth < 6:
                return ones(e.func.value, nid, depth + 1)        # ones(..).astype(float)
            if isinstance(e, ast.Call) and (dotted(e.func) or "").split(".")[-1] in ("array", "asarray") \
                    and depth < 6:
                return ones(e.args[0], nid, depth + 1) if e.args else None
            if isinstance(e, (ast.ListComp, ast.GeneratorExp)) and depth < 6:
                return ones(e.elt, nid, depth + 1)
            if isinstance(e, (ast.List, ast.Tuple)) and e.elts and depth < 6:
                rs = [ones(x, nid, depth + 1) for x in e.elts]
                return False if False in rs else (None if None in rs else True)
            if isinstance(e, ast.Name) and depth < 6:
                ds = [d for d in P.du.reaching(nid, e.id) if d.value is not None]
                if not ds:
                    return None
                rs = []
                for d in ds:
                    if d.sel and d.sel[0][0] == "idx" and len(d.sel) == 1:
                        picked = P._select(d.value, d.node, d.sel[0][1])
                        if picked:
                            rs += [ones(x, at, depth + 1) for (x, at) in picked]
                        elif isinstance(d.value, (ast.ListComp, ast.GeneratorExp)):
                            rs.append(ones(d.value.elt, d.node, depth + 1))
                        else:
                            rs.append(None)
                    elif d.sel and d.sel[0][0] == "iter":
                        rs.append(ones(d.value, d.node, depth + 1))
                    elif d.sel:
                        rs.append(None)
                    else:
                        rs.append(ones(d.value, d.node, depth + 1))
                return False if False in rs else (None if None in rs else True)
            if isinstance(e, ast.Call):
                return False            # built by some other function (bincount, full, zeros, ...)
            return None
        for c in calls:
            callee = prog.find_method(prog.resolve_class_name(pu.module, call_name(c)), "__init__")
            params = callee.params[1:]
            bound = {params[i]: a for i, a in enumerate(c.args) if i < len(params)}
            bound.update({k.arg: k.value for k in c.keywords if k.arg})
            nid = P.du.node_of(c)
            for p_, a in bound.items():
                if not (p_.startswith("sum_north") or p_.startswith("sum_west")):
                    continue
                n += 1
                r = ones(a, nid)
                chk.add("R5", pu, f"{call_name(c)}({p_} = {norm(a)[:40]})",
                        True if r is True else (False if r is False else None),
                        "vector(s) of ones on every path" if r is True else
                        ("the closing vector is not a vector of ones on some path: classes are "
                         "weighted, degenerate indices are counted more than once" if r is False
                         else "origin of the closing vector not decided"), c)
    if n < 6:
        raise AnalysisError(f"R5: only {n} sum_north / sum_west arguments found at the back-end "
                            f"constructors (6 confirmed by hand)")


def run(prog: Program, chk: Check) -> None:
    chk.explanation = (
        "Decides role consistency of the two degeneracy maps: provenance tags NORTH (classes of "
        "(commutator, anticommutator) eigenvalue pairs) and WEST (classes of commutator "
        "eigenvalues) are attached where Bath creates the maps and followed by def-use through "
        "representative selection, [north, west] pair construction and destructuring, "
        "sum-vector sizing, the reduction in influence_matrix (axis dependence sets are "
        "computed from the operands of np.outer) and both back-end scatter loops (axis size "
        "role = axis index role).")
    chk.not_decided = ("Numerical equality of reduced and full runs; the choice of "
                       "representative within a class (every member is valid).")
    chk.assumptions = ["numpy fancy indexing a[idx] selects along axis 0; np.outer(A, B)[i, j] = "
                       "A[i]*B[j]"]
    chk.call(r1, prog, chk)
    chk.call(r2, prog, chk)
    chk.call(r3, prog, chk)
    chk.call(r4, prog, chk)
    chk.call(r5, prog, chk)
