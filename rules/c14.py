"""C14 - splitting or repeating compute calls never changes the result.

T1 guarded stepping, T2 idempotent getters, T3 commit-last (failure
atomicity w.r.t. user callables), T4 restart export coverage.
"""
from __future__ import annotations

import ast
from typing import Dict, List, Optional, Set, Tuple

from oqv.astutil import branch_context, call_name, method_call
from oqv.cfg import CFG
from oqv.dataflow import DefUse, depends_on
from oqv.forms import Poly, eval_form
from oqv.model import AnalysisError, Program, Unit, dotted, norm, walk_local
from oqv.report import Check

# ------------------------------------------------------------------ tables
FRONT_ENDS = {
    # compute method            : (names of stepping calls, target sources)
    "tempo:Tempo.compute": ({"self._backend_instance.compute_step"}, {"end_time"}),
    "tempo:MeanFieldTempo.compute": ({"self._backend_instance.compute_step"}, {"end_time"}),
    "tempo:GibbsTempo.compute": ({"self._backend_instance.compute_step"},
                                 {"self._parameters.n_steps", "self._backend_instance.max_step"}),
    "pt_tempo:PtTempo.compute": ({"self._backend_instance.compute_step"},
                                 {"self._backend_instance.num_steps", "self._num_steps"}),
    "pt_tebd:PtTebd.compute": ({"self.compute_step"}, {"end_step"}),
}
STEP_SOURCES = {"self._backend_instance.step", "self.step", "self._step",
                "self._backend_instance._step"}

# attributes that hold user-supplied callables (constructor parameter stored as is;
# the chain that shows user code is reachable is given for each)
FOREIGN_ATTRS = {
    "backends.tempo_backend:TempoBackend": {
        "_propagators": "Tempo._prepare_backend passes system.get_propagators(...): the closure "
                        "evaluates the user's hamiltonian/gammas/lindblad operators",
    },
    "backends.tempo_backend:BaseTempoBackend": {
        "_influence": "Tempo._influence -> influence_matrix -> correlations."
                      "correlation_2d_integral -> user correlation/j function",
    },
    "backends.tempo_backend:MeanFieldTempoBackend": {
        "_compute_field": "MeanFieldTempo._compute_field -> user field_eom",
        "_compute_field_derivative": "MeanFieldTempo._compute_field_derivative -> user field_eom",
        "_propagators_list": "list of closures of TimeDependentSystemWithField.get_propagators "
                             "-> user hamiltonian(t, field)",
    },
    "backends.pt_tempo_backend:PtTempoBackend": {
        "_influence": "PtTempo._influence -> influence_matrix -> user correlation/j function",
    },
    "backends.tempo_backend:TIBaseBackend": {
        "_coefficients": "GibbsTempo._prepare_backend.coeffs -> correlations (user j function)",
    },
}

TRANSACTIONS = [
    "backends.tempo_backend:TempoBackend.compute_step",
    "backends.tempo_backend:TempoBackend.initialize",
    "backends.tempo_backend:MeanFieldTempoBackend.compute_step",
    "backends.tempo_backend:MeanFieldTempoBackend.initialize",
    "backends.pt_tempo_backend:PtTempoBackend.compute_step",
    "backends.pt_tempo_backend:PtTempoBackend.initialize",
    "backends.tempo_backend:TIBaseBackend.compute_step",
    "backends.tempo_backend:TIBaseBackend.initialise",
    "pt_tebd:PtTebd.compute_step",
]

# triaged candidates of T3 (function, what is written first, foreign callee) -> reason
T3_EXCEPTIONS = {
    ("PtTempoBackend.compute_step", "self._step", "self._influence"):
        "retry fails loudly: the step counter is ahead of the MPS, so get_mpo_tensor's "
        "`assert n == num_steps` rejects the result (probed at four injection points); the "
        "property allows 'fails again'",
    ("PtTempoBackend.initialize", "self._sum_north_scaled", "self._influence"):
        "idempotent write (recomputed from self._sum_north); self._step stays None until "
        "initialize has succeeded, so a retry re-initialises from scratch",
    ("TIBaseBackend.compute_step", "self._mps", "self._coefficients"):
        "_influence_tensor is memoised: within a step only the newest coefficient can reach user "
        "code and it is requested by the first _contract, before any write (holds while the "
        "number of steps stays below the cache size 2**10)",
    ("TempoBackend.initialize", "self._step", "self._influence"):
        "retry fails loudly: step is 0 but _mps/_mpo are still None and the front end has no "
        "Dynamics object, so the next compute raises (probed: AttributeError at every injection "
        "point inside initialize)",
    ("MeanFieldTempoBackend.initialize", "*", "self._influence"):
        "retry fails loudly: step is 0 but the networks are not all built and the front end has "
        "no MeanFieldDynamics object (probed: AttributeError)",
    ("BaseTempoBackend.initialize_mps_mpo", "self._initial_state", "self._influence"):
        "idempotent write (flattened copy of itself)",
    ("BaseTempoBackend.initialize_mps_mpo", "self._super_u", "self._influence"):
        "idempotent: recomputed from the unitary transform on every call",
    ("BaseTempoBackend.initialize_mps_mpo", "self._super_u_dagg", "self._influence"):
        "idempotent: recomputed from the unitary transform on every call",
    ("BaseTempoBackend.initialize_mps_mpo", "self._sum_north_na", "self._influence"):
        "idempotent: rebuilt from self._sum_north on every call",
}

MUTATORS = {"append", "extend", "insert", "pop", "remove", "clear", "sort", "reverse",
            "update", "setdefault", "popitem", "add", "discard", "fill", "resize", "put",
            "zip_up", "svd_sweep", "contract", "apply_vector", "apply_matrix", "itemset",
            "setflags"}
NON_MUTATING_WITH_COPY = {"contract"}   # NodeArray.contract(copy=True) still mutates self


def _self_store_targets(st: ast.AST) -> List[str]:
    out = []
    tgts = []
    if isinstance(st, ast.Assign):
        tgts = st.targets
    elif isinstance(st, (ast.AugAssign, ast.AnnAssign)):
        tgts = [st.target]
    elif isinstance(st, ast.Delete):
        tgts = st.targets
    for t in tgts:
        for el in (t.elts if isinstance(t, (ast.Tuple, ast.List)) else [t]):
            base = el
            while isinstance(base, (ast.Subscript, ast.Attribute)) and \
                    not (isinstance(base, ast.Attribute) and isinstance(base.value, ast.Name)):
                base = base.value
            d = dotted(base)
            if d and d.startswith("self."):
                out.append(".".join(d.split(".")[:2]))
    return out


class Effects:
    """Per-method effect summaries: F_all (user callables that may be called),
    W_all (persistent locations that may be written) and the set of
    (write, foreign call) pairs such that the write can precede the call on
    some path, each with the innermost function in which the order arises."""

    def __init__(self, prog: Program, chk: Check):
        self.prog = prog
        self.chk = chk
        self.summ: Dict[str, Dict] = {}

    def foreign_attrs_of(self, ci) -> Dict[str, str]:
        out = {}
        for c in self.prog.mro(ci):
            out.update(FOREIGN_ATTRS.get(c.qual, {}))
        return out

    def node_events(self, u: Unit, n, foreign, list_iter_names, depth):
        ev = []
        ci = self.prog.class_of_unit(u)
        calls = sorted(n.calls(), key=lambda c: (c.end_lineno or 0, c.end_col_offset or 0))
        comp_calls = set()
        for x in n.walk():
            if isinstance(x, (ast.ListComp, ast.GeneratorExp, ast.SetComp, ast.DictComp)):
                for y in ast.walk(x):
                    if isinstance(y, ast.Call):
                        comp_calls.add(id(y))
        for c in calls:
            fn = dotted(c.func)
            looped = id(c) in comp_calls
            if fn and fn.startswith("self.") and fn[5:] in foreign:
                ev.append(("F", fn, c, looped))
                continue
            if isinstance(c.func, ast.Name) and c.func.id in list_iter_names:
                ev.append(("F", f"{c.func.id} (element of self._propagators_list)", c, looped))
                continue
            mc = method_call(c)
            if mc and mc[0] == "self" and ci is not None:
                mu = self.prog.find_method(ci, mc[1])
                if mu is not None and depth < 6:
                    ev.append(("CALL", self.summary(mu, depth + 1), c, looped))
                continue
            if mc and mc[0].startswith("self.") and mc[1] in MUTATORS:
                ev.append(("W", ".".join(mc[0].split(".")[:2]), c, looped))
                continue
            if mc and mc[1] in ("compute_system_step", "initialize_mps_mpo") and mc[0] != "self":
                base = self.prog.cls("backends.tempo_backend:BaseTempoBackend")
                mu = base.methods.get(mc[1])
                if mu is not None and depth < 6:
                    s0 = self.summary(mu, depth + 1)
                    tag = " (of a system back end)"
                    s1 = {"F_all": set(s0["F_all"]),
                          "W_all": {w + tag for w in s0["W_all"]},
                          "pairs": {(w + tag, f): o for (w, f), o in s0["pairs"].items()},
                          "qual": s0["qual"]}
                    ev.append(("CALL", s1, c, looped))
        if n.kind == "stmt":
            for w in _self_store_targets(n.ast):
                ev.append(("W", w, n.ast, False))
        return ev

    def summary(self, u: Unit, depth: int = 0) -> Dict:
        if u.qual in self.summ:
            return self.summ[u.qual]
        res = {"F_all": set(), "W_all": set(), "pairs": {}, "qual": u.qual, "cfg": None}
        self.summ[u.qual] = res   # recursion guard
        ci = self.prog.class_of_unit(u)
        foreign = self.foreign_attrs_of(ci) if ci else {}
        g = CFG(u.node, exc_edges=False)
        res["cfg"] = g
        self.chk.saw(u, g)
        list_iter: Set[str] = set()
        for x in ast.walk(u.node):
            if isinstance(x, (ast.comprehension, ast.For)):
                it = x.iter
                srcs = [dotted(a) for a in (it.args if isinstance(it, ast.Call)
                                            and dotted(it.func) == "zip" else [it])]
                tg = x.target
                tgs = tg.elts if isinstance(tg, ast.Tuple) else [tg]
                for s_, t in zip(srcs, tgs):
                    if s_ and s_.startswith("self.") and s_[5:] in foreign \
                            and isinstance(t, ast.Name):
                        list_iter.add(t.id)
        events: Dict[int, List] = {}
        for n in g.nodes:
            if n.copy_of:
                continue
            e = self.node_events(u, n, foreign, list_iter, depth)
            if e:
                events[n.id] = e
        pairs: Dict[Tuple[str, str], str] = {}

        def addpair(w, f, owner):
            pairs.setdefault((w, f), owner)
        nodeW: Dict[int, Set[str]] = {}
        nodeF: Dict[int, Set[str]] = {}
        for nid, ev in events.items():
            seenW: Set[str] = set()
            W, F = set(), set()
            for (k, v, a, looped) in ev:
                if k == "F":
                    for w in seenW:
                        addpair(w, v, u.qual)
                    F.add(v)
                elif k == "W":
                    seenW.add(v)
                    W.add(v)
                else:
                    for (pw, pf), o in v["pairs"].items():
                        addpair(pw, pf, o)
                    for w in seenW:
                        for f in v["F_all"]:
                            addpair(w, f, u.qual)
                    if looped:
                        for w in v["W_all"]:
                            for f in v["F_all"]:
                                addpair(w, f, u.qual)
                    seenW |= v["W_all"]
                    W |= v["W_all"]
                    F |= v["F_all"]
            nodeW[nid], nodeF[nid] = W, F
        for wn, W in nodeW.items():
            if not W:
                continue
            reach = g.reachable([b for (b, l) in g.succ[wn]])
            for fn_, F in nodeF.items():
                if F and fn_ in reach:
                    for w in W:
                        for f in F:
                            addpair(w, f, u.qual)
        res["F_all"] = set().union(*nodeF.values()) if nodeF else set()
        res["W_all"] = set().union(*nodeW.values()) if nodeW else set()
        res["pairs"] = pairs
        return res


# --------------------------------------------------------------------- T1
def t1(prog: Program, chk: Check) -> None:
    chk.rule("T1", "every call of a back-end stepping function in a front-end compute() is "
             "control dependent on a condition that data-depends on the current step AND on "
             "the target, evaluated before the call (range(target-step), while step < target, "
             "or a guard at the top of the callee)", floor=5)
    guarded_stepping(prog, chk, "T1")


def guarded_stepping(prog: Program, chk: Check, rule: str, only: Optional[Set[str]] = None) -> None:
    for q, (step_calls, targets) in FRONT_ENDS.items():
        if only is not None and q not in only:
            continue
        u = prog.unit(q)
        du = DefUse(u, CFG(u.node, exc_edges=False))
        g = du.cfg
        chk.saw(u, g)
        sites = [c for c in walk_local(u.node) if isinstance(c, ast.Call)
                 and dotted(c.func) in step_calls]
        if not sites:
            raise AnalysisError(f"{rule}: no stepping call {sorted(step_calls)} in {q}")
        tsrc = set(targets)
        for c in sites:
            nid = du.node_of(c)
            ok, why = _guarded(prog, u, du, c, nid, tsrc)
            chk.add(rule, u, f"{norm(c.func)}()", ok, why, c)


_RET_DEPS: Dict[str, Set[str]] = {}


def _return_param_deps(prog, mu: Unit) -> Set[str]:
    """Parameters of `mu` on which its return value data-depends."""
    if mu.qual in _RET_DEPS:
        return _RET_DEPS[mu.qual]
    _RET_DEPS[mu.qual] = set(mu.params)      # recursion guard: conservative
    dm = DefUse(mu, CFG(mu.node, exc_edges=False))
    deps = set()
    for n in dm.cfg.nodes:
        if n.kind == "stmt" and isinstance(n.ast, ast.Return) and n.ast.value is not None:
            for p in mu.params:
                if depends_on(dm, n.ast.value, n.id, {p}):
                    deps.add(p)
    _RET_DEPS[mu.qual] = deps
    return deps


def _mk_call_filter(prog, u: Unit):
    ci = prog.class_of_unit(u)

    def flt(call: ast.Call):
        mc = method_call(call)
        if not (mc and mc[0] == "self" and ci is not None):
            return None
        mu = prog.find_method(ci, mc[1])
        if mu is None or any(isinstance(a, ast.Starred) for a in call.args):
            return None
        deps = _return_param_deps(prog, mu)
        params = mu.params[1:]
        out = []
        for i, a in enumerate(call.args):
            if i < len(params) and params[i] in deps:
                out.append(a)
        for k in call.keywords:
            if k.arg in deps:
                out.append(k.value)
        if "self" in deps:
            # the callee reads object state: keep the attribute reads it performs
            for x in ast.walk(mu.node):
                if isinstance(x, ast.Attribute) and isinstance(x.ctx, ast.Load) and \
                        dotted(x) and dotted(x).startswith("self.") and \
                        not any(dotted(x) == f"self.{m}" for m in ci.methods):
                    out.append(x)
        return out
    return flt


def _guarded(prog, u: Unit, du: DefUse, c: ast.Call, nid: int, tsrc: Set[str]):
    g = du.cfg
    cf = _mk_call_filter(prog, u)
    # enclosing loops, innermost first
    loops = []

    def rec(n, stack):
        if n is c:
            loops.extend(stack)
            return True
        for ch in ast.iter_child_nodes(n):
            if isinstance(n, (ast.For, ast.While)):
                if rec(ch, stack + [(n, "test" if (isinstance(n, ast.While) and ch is n.test)
                                     else ("iter" if isinstance(n, ast.For) and ch is n.iter
                                           else "body"))]):
                    return True
            elif rec(ch, stack):
                return True
        return False
    rec(u.node, [])
    for (loop, where) in reversed(loops):
        if where != "body":
            continue
        if isinstance(loop, ast.For):
            it = loop.iter
            if isinstance(it, ast.Call) and dotted(it.func) == "range":
                lnid = du.node_of(it)
                bound = it.args[-1] if len(it.args) <= 2 else it.args[1]
                # range(start, stop) runs stop - start times: either end may carry the step
                ends = list(it.args[:2])
                ds = any(depends_on(du, e_, lnid, STEP_SOURCES, call_filter=cf) for e_ in ends)
                dt_ = any(depends_on(du, e_, lnid, tsrc, call_filter=cf) for e_ in ends)
                if ds and dt_:
                    return True, f"for ... in range({norm(bound)}): bound depends on step and target"
                return False, (f"the loop bound `{norm(bound)}` does not depend on "
                               f"{'the current step' if not ds else 'the target'}: every call of "
                               f"compute() takes the same number of further steps")
        if isinstance(loop, ast.While):
            lnid = du.node_of(loop.test)
            ds = depends_on(du, loop.test, lnid, STEP_SOURCES, call_filter=cf)
            dt_ = depends_on(du, loop.test, lnid, tsrc, call_filter=cf)
            if ds and dt_:
                return True, f"while {norm(loop.test)}: test depends on step and target"
    # not guarded by a loop condition: look for a guard at the top of the callee
    fn = dotted(c.func)
    callee = None
    if fn == "self.compute_step":
        ci = prog.class_of_unit(u)
        callee = prog.find_method(ci, "compute_step")
    else:
        for cand in ("backends.pt_tempo_backend:PtTempoBackend.compute_step",
                     "backends.tempo_backend:TempoBackend.compute_step",
                     "backends.tempo_backend:MeanFieldTempoBackend.compute_step",
                     "backends.tempo_backend:TIBaseBackend.compute_step"):
            if u.qual.startswith("pt_tempo") and "pt_tempo_backend" in cand:
                callee = prog.unit(cand)
    if callee is not None:
        cg = CFG(callee.node, exc_edges=False)
        first_w = None
        for n in cg.nodes:
            if n.kind == "stmt" and _self_store_targets(n.ast):
                first_w = n
                break
        guards = [n for n in cg.nodes if n.kind == "test"
                  and any(dotted(x) in ("self._step", "self.step") for x in walk_local(n.ast))
                  and any((dotted(x) or "").endswith("num_steps") for x in walk_local(n.ast))]
        if guards and first_w is not None:
            p = cg.find_path([cg.entry], lambda x: x == first_w.id,
                             blocked=lambda x: x in {gd.id for gd in guards})
            if p is None:
                return True, "guard on (step, num_steps) at the top of the callee"
    return False, ("the stepping function is called before any completion check: a second "
                   "compute() on a finished object steps beyond the end (or raises)")


# --------------------------------------------------------------------- T5
def t5(prog: Program, chk: Check) -> None:
    chk.rule("T5", "front ends initialise their back end and their result object exactly once: "
             "every call of initialize()/initialise()/_init_dynamics() in compute() is on the "
             "true branch of `<step> is None`, and the result object is created nowhere else",
             floor=8)
    for q in FRONT_ENDS:
        u = prog.unit(q)
        for c in walk_local(u.node):
            if not isinstance(c, ast.Call):
                continue
            mc = method_call(c)
            if not mc or mc[1] not in ("initialize", "initialise", "_init_dynamics",
                                       "_init_results"):
                continue
            ctx = branch_context(u.node, c)
            ok = any(br and isinstance(t, ast.Compare) and len(t.ops) == 1
                     and isinstance(t.ops[0], ast.Is) and dotted(t.left) in STEP_SOURCES
                     and isinstance(t.comparators[0], ast.Constant)
                     and t.comparators[0].value is None for (t, br) in ctx)
            chk.add("T5", u, f"{norm(c.func)}() only when the step counter is None", ok,
                    "" if ok else "the back end / result object can be re-initialised by a later "
                                  "compute() call: earlier results are lost or recomputed", c)
    for cq in ("tempo:Tempo", "tempo:MeanFieldTempo", "tempo:GibbsTempo"):
        ci = prog.cls(cq)
        writers = sorted({mu.name for mu in ci.methods.values() for st in walk_local(mu.node)
                          if isinstance(st, ast.Assign)
                          and any(dotted(t) == "self._dynamics" for t in st.targets)})
        ok = set(writers) <= {"__init__", "_init_dynamics"}
        chk.add("T5", ci.methods["__init__"], f"{ci.name}._dynamics assigned in {writers}", ok,
                "" if ok else "the result object is replaced outside initialisation",
                function=f"{ci.name}")


# --------------------------------------------------------------------- T6
def t6(prog: Program, chk: Check) -> None:
    chk.rule("T6", "a front end records the result of every back-end step in its persistent "
             "dynamics before it asks for the next step (each step is its own transaction): no "
             "path leads from one stepping call to the next without passing _dynamics.add(...)",
             floor=3)
    for q in ("tempo:Tempo.compute", "tempo:MeanFieldTempo.compute", "tempo:GibbsTempo.compute"):
        u = prog.unit(q)
        g = CFG(u.node, exc_edges=False)
        chk.saw(u, g)
        steps = {n.id for n in g.nodes if not n.copy_of
                 and any(dotted(c.func) in FRONT_ENDS[q][0] for c in n.calls())}
        recs = {n.id for n in g.nodes
                if any(method_call(c) == ("self._dynamics", "add") for c in n.calls())}
        if not steps:
            raise AnalysisError(f"T6: stepping call vanished from {q}")
        bad = None
        for s_ in steps:
            starts = [b for (b, l) in g.succ[s_] if b not in recs]
            p = g.find_path(starts, lambda x: x in steps, blocked=lambda x: x in recs)
            if p is not None:
                bad = [s_] + p
        # the record uses the step/state returned by that very call (checked under C13 G3)
        chk.add("T6", u, "each step recorded before the next step is taken", bad is None,
                "" if bad is None else
                "results of completed steps are only held in local variables while further steps "
                "(and user callables) run: if one of them raises, the back end has advanced but "
                "the dynamics have a hole, and a repeated compute() continues silently",
                path=None if bad is None else g.describe_path(bad, u.loc)[:8])


# --------------------------------------------------------------------- T2
GETTERS = ["tempo:Tempo.get_dynamics", "tempo:MeanFieldTempo.get_dynamics",
           "tempo:GibbsTempo.get_dynamics", "tempo:GibbsTempo.get_state",
           "pt_tebd:PtTebd.get_results", "pt_tempo:PtTempo.get_process_tensor"]
EFFECTFUL_CALLS = {"compute", "compute_step", "initialize", "initialise",
                   "update_process_tensor", "compute_caps", "set_mpo_tensor", "set_cap_tensor"}


def t2(prog: Program, chk: Check) -> None:
    chk.rule("T2", "result getters have no persistent write; the one getter that may still "
             "compute does so only under a test of (step/length, target)", floor=6)
    for q in GETTERS:
        u = prog.unit(q)
        du = DefUse(u, CFG(u.node, exc_edges=False))
        chk.saw(u, du.cfg)
        bad = []
        guarded = []
        for n in du.cfg.nodes:
            if n.kind == "stmt" and _self_store_targets(n.ast):
                bad.append(f"store {norm(n.ast)[:60]}")
            for c in n.calls():
                mc = method_call(c)
                if mc and mc[0].startswith("self") and (mc[1] in EFFECTFUL_CALLS or mc[1] in MUTATORS):
                    ctx = branch_context(u.node, c)
                    ok = False
                    for (t, br) in ctx:
                        if br and (depends_on(du, t, du.node_of(t) or n.id, STEP_SOURCES)
                                   or any(isinstance(x, ast.Call) and dotted(x.func) == "len"
                                          for x in walk_local(t))) \
                                and any((dotted(x) or "").endswith("num_steps")
                                        for x in walk_local(t)):
                            ok = True
                    (guarded if ok else bad).append(f"{norm(c.func)}()")
        chk.add("T2", u, "no unguarded persistent effect", not bad,
                (f"guarded effects: {guarded}" if guarded else "pure read") if not bad else
                f"fetching the result again changes the object: {bad}")


# --------------------------------------------------------------------- T3
def t3(prog: Program, chk: Check) -> None:
    chk.rule("T3", "commit-last: in a step transaction no persistent write precedes a call of a "
             "user-supplied callable on any path (sufficient condition for: a failing user "
             "function leaves the object retryable); triaged candidates are frozen per "
             "(function, written attribute, callee)", floor=4)
    # the foreign-attribute table must still describe the code
    for cq, attrs in FOREIGN_ATTRS.items():
        ci = prog.cls(cq)
        init = ci.methods.get("__init__")
        if init is None:
            raise AnalysisError(f"T3: {cq}.__init__ vanished")
        for a in attrs:
            srcs = prog.attr_sources(ci, a, include_bases=False)
            ok = any(isinstance(v, ast.Name) and v.id in init.params for (_, _, v, _) in srcs)
            if not ok:
                raise AnalysisError(
                    f"T3: {cq}.{a} is no longer a constructor parameter stored as is - the "
                    f"foreign-callable table needs re-confirmation")
    eff = Effects(prog, chk)
    seen_keys = set()
    for q in TRANSACTIONS:
        u = prog.unit(q)
        s = eff.summary(u)
        fn = q.split(":")[1]
        if not s["pairs"]:
            chk.add("T3", u, "no write precedes a foreign call", True,
                    f"writes {sorted(s['W_all'])[:4]}, foreign calls {sorted(s['F_all'])}")
            continue
        for (w, f), owner_q in sorted(s["pairs"].items()):
            owner = prog.unit(owner_q)
            if (owner_q, w, f) in seen_keys:
                continue
            seen_keys.add((owner_q, w, f))
            ofn = owner_q.split(":")[1]
            construct = f"write {w} before foreign call {f}"
            w0 = w.replace(" (of a system back end)", "")
            reason = T3_EXCEPTIONS.get((ofn, w0, f)) or T3_EXCEPTIONS.get((ofn, "*", f))
            if reason:
                chk.add("T3", owner, construct, None, exception_reason=reason)
            else:
                chk.add("T3", owner, construct, False,
                        f"if {f} raises, {w} has already been changed: a retry continues from "
                        f"inconsistent state (reached from transaction {fn})")


# --------------------------------------------------------------------- T4
def t4(prog: Program, chk: Check) -> None:
    chk.rule("T4", "get_augmented_mps exports every gamma (n) and every inner lambda (n-1) the "
             "back end holds and hands both lists to AugmentedMPS", floor=3)
    u = prog.unit("pt_tebd:PtTebd.get_augmented_mps")
    du = DefUse(u, CFG(u.node, exc_edges=False))
    chk.saw(u, du.cfg)

    def res(x):
        if dotted(x) in ("self._t_mps.n", "self._t_mps._n"):
            return Poly.sym("N")
        return None
    want = {"get_gamma": Poly.sym("N"), "get_lambda": Poly.sym("N") - Poly.const(1)}
    found = {}
    class _L:          # a comprehension generator seen as a loop: target, iter, body = element
        def __init__(self, comp):
            g0 = comp.generators[0]
            self.target, self.iter, self.elt, self.lineno, self.col_offset = \
                g0.target, g0.iter, comp.elt, comp.lineno, comp.col_offset
    loops_ = [x for x in walk_local(u.node) if isinstance(x, ast.For)]
    comps_ = [x for x in walk_local(u.node) if isinstance(x, (ast.ListComp, ast.GeneratorExp))
              and len(x.generators) == 1 and not x.generators[0].ifs]
    for loop in loops_ + comps_:
        node_ = loop
        if not isinstance(loop, ast.For):
            loop = _L(loop)
        if isinstance(loop.iter, ast.Call) \
                and dotted(loop.iter.func) == "range" and len(loop.iter.args) == 1:
            for c in (walk_local(loop) if isinstance(loop, ast.For) else ast.walk(loop.elt)):
                mc = method_call(c) if isinstance(c, ast.Call) else None
                if mc and mc[1] in want and mc[0].startswith("self._t_mps"):
                    f = eval_form(loop.iter.args[0], res)
                    arg_is_loopvar = dotted(c.args[0]) == dotted(loop.target)
                    found[mc[1]] = True
                    chk.add("T4", u, f"for {norm(loop.target)} in range({norm(loop.iter.args[0])}): "
                            f"{mc[1]}({norm(c.args[0])})", f == want[mc[1]] and arg_is_loopvar,
                            f"bound {f}" if f == want[mc[1]] else
                            f"exports {f} tensors, the back end holds {want[mc[1]]}", node_)
    for k in want:
        if k not in found:
            raise AnalysisError(f"T4: the loop of get_augmented_mps that exports {k} was not found")
    rets = [x for x in walk_local(u.node) if isinstance(x, ast.Return)
            and isinstance(x.value, ast.Call) and call_name(x.value) == "AugmentedMPS"]
    ok = bool(rets) and len(rets[0].value.args) + len(rets[0].value.keywords) >= 2
    chk.add("T4", u, "return AugmentedMPS(gammas, lambdas)", ok,
            "" if ok else "lambdas are not handed to the exported chain state")
    gl = prog.unit("backends.pt_tebd_backend:PtTebdBackend.get_lambda")
    r = [x for x in walk_local(gl.node) if isinstance(x, ast.Return)][0]

    def res2(x):
        if isinstance(x, ast.Name) and x.id == gl.params[1]:
            return Poly.sym("SITE")
        return None
    idx = None
    for x in walk_local(r):
        if isinstance(x, ast.Subscript) and dotted(x.value) == "self._lambdas":
            idx = eval_form(x.slice, res2)
    ok = idx == Poly.sym("SITE") + Poly.const(1)
    chk.add("T4", gl, f"return {norm(r.value)}", ok,
            "inner lambda i is stored at index i+1" if ok else
            f"index form {idx}: the boundary identity is exported instead of the bond lambda")


def t7(prog: Program, chk: Check) -> None:
    chk.rule("T7", "derived state that a method recomputes only when it is missing (early return "
             "while the cached attribute is set) is reset by every method that changes what it "
             "was computed from: otherwise a read-out between two compute calls leaves a cache "
             "behind and the next step records the state of the previous one (expected count on "
             "the pinned tree: no such cache)", floor=1)
    from rules.c20 import guarded_caches
    gc, n_guards = guarded_caches(prog)
    for (gu, attr, mu, written) in gc:
        chk.saw(gu)
        chk.add("T7", gu, f"cache {attr} (guarded early return) vs "
                f"{mu.qual.split(':')[1]} writing {written}", False,
                f"{mu.qual.split(':')[1]} changes {written} without resetting {attr}: "
                f"compute(k); <read-out>; compute(T) differs from compute(T)", gu.node)
    chk.add("T7", prog.module("backends.pt_tebd_backend"),
            f"{n_guards} guarded caches found in the package", True,
            "every one is reset by all writers of its sources" if not gc else "see violations")


def t8(prog: Program, chk: Check) -> None:
    chk.rule("T8", "a front-end compute() changes the computational state only through its guarded "
             "stepping: every call in it that writes persistent state of the object or its back "
             "end (effect summaries of the callees) is control dependent on a condition over the "
             "current step and the target, or on a run-once test (`<attribute> is None`) - an "
             "operation applied after the loop 'to complete the last step' is applied again by "
             "the next compute() / restart, so splitting or repeating calls changes the result",
             floor=5)
    eff = Effects(prog, chk)
    by_name: Dict[str, List[Unit]] = {}
    for c_ in prog.classes.values():
        for mname, mu_ in c_.methods.items():
            by_name.setdefault(mname, []).append(mu_)
    memo: Dict[str, Optional[str]] = {}

    def mutation(mu: Unit, depth: int = 0) -> Optional[str]:
        """What persistent state a method changes (its own attributes, or an object held in
        one of them through a method that changes that object), or None."""
        if mu.qual in memo:
            return memo[mu.qual]
        memo[mu.qual] = None
        if depth > 5:
            return None
        out = None
        ci_ = prog.class_of_unit(mu)
        for st in walk_local(mu.node):
            if isinstance(st, ast.stmt):
                w = [t for t in _self_store_targets(st) if not t.startswith("self._dynamics")]
                if w:
                    out = out or w[0]
            if not isinstance(st, ast.Call):
                continue
            mc_ = method_call(st)
            if not mc_:
                continue
            if mc_[0] == "self" and ci_ is not None:
                m2 = prog.find_method(ci_, mc_[1])
                if m2 is not None and m2.qual != mu.qual:
                    r = mutation(m2, depth + 1)
                    if r:
                        out = out or r
            elif mc_[0].startswith("self.") and mc_[0].count(".") == 1:
                if mc_[1] in MUTATORS:
                    out = out or mc_[0]
                else:
                    for m2 in by_name.get(mc_[1], []):
                        if prog.class_of_unit(m2) is ci_:
                            continue
                        if mutation(m2, depth + 1):
                            out = out or f"{mc_[0]} (through {mc_[1]}())"
                            break
        memo[mu.qual] = out
        return out

    for q, (step_calls, targets) in FRONT_ENDS.items():
        u = prog.unit(q)
        du = DefUse(u, CFG(u.node, exc_edges=False))
        chk.saw(u, du.cfg)
        ci = prog.class_of_unit(u)
        n = 0
        for nd in du.cfg.nodes:
            if nd.copy_of:
                continue
            for c in nd.calls():
                fn = dotted(c.func) or ""
                if not fn.startswith("self."):
                    continue
                mc = method_call(c)
                what = None
                if mc and mc[0] == "self" and ci is not None:
                    mu = prog.find_method(ci, mc[1])
                    if mu is None:
                        continue
                    s_ = eff.summary(mu)
                    writes = sorted(w for w in s_["W_all"] if not w.startswith("self._dynamics")
                                    and "progress" not in w)
                    deep = mutation(mu)
                    if not writes and not deep:
                        continue
                    what = f"writes {writes[:3]}" if writes else f"changes {deep}"
                elif mc and (mc[1] in EFFECTFUL_CALLS or mc[1] in MUTATORS):
                    if mc[0].startswith("self._dynamics") or "prog" in mc[0]:
                        continue        # recording results / progress display
                    what = f"{mc[1]}() on {mc[0]}"
                else:
                    continue
                n += 1
                if fn in step_calls:
                    continue            # judged by T1
                ok, why = _guarded(prog, u, du, c, nd.id, set(targets))
                if not ok:
                    for (t, br) in branch_context(u.node, c):
                        for x in ast.walk(t):
                            if isinstance(x, ast.Compare) and len(x.ops) == 1 and \
                                    isinstance(x.comparators[0], ast.Constant) and \
                                    x.comparators[0].value is None and \
                                    (dotted(x.left) or "").startswith("self."):
                                is_none = isinstance(x.ops[0], (ast.Is, ast.Eq))
                                if is_none == br:
                                    ok, why = True, f"run once: under `{norm(t)}`"
                chk.add("T8", u, f"{norm(c.func)}(..): {what}", ok,
                        why if ok else
                        "this call changes the state of the computation on every compute() call, "
                        "whatever the current step and the target: compute(k); compute(T) and "
                        "compute(T) differ (and a repeated compute(T) changes the object)", c)
        if n < 1:
            raise AnalysisError(f"T8: no state-changing call found in {q}")


def run(prog: Program, chk: Check) -> None:
    chk.explanation = (
        "Decides continuation / idempotence guards of the five method objects (T1), idempotent "
        "getters (T2), failure atomicity of every step transaction with respect to user "
        "callables by the commit-last rule on the CFG with interprocedural effect summaries "
        "(T3), and restart export coverage (T4).")
    chk.not_decided = ("That a correctly guarded continuation is numerically identical across "
                       "the dkmax boundary (the network code is shared, equality is numeric).")
    chk.assumptions = ["foreign-callable table FOREIGN_ATTRS (verified on every run: each "
                       "attribute is a constructor parameter stored as is)",
                       "mutator-name table for NodeArray / list methods"]
    chk.extra["foreign_attrs"] = FOREIGN_ATTRS
    chk.extra["t3_exceptions"] = {" | ".join(k): v for k, v in T3_EXCEPTIONS.items()}
    chk.call(t1, prog, chk)
    chk.call(t5, prog, chk)
    chk.call(t6, prog, chk)
    chk.call(t2, prog, chk)
    chk.call(t3, prog, chk)
    chk.call(t4, prog, chk)
    chk.call(t7, prog, chk)
    chk.call(t8, prog, chk)
    from rules.c13 import restart_resets
    chk.call(restart_resets, prog, chk, "T9")
