"""C18 - control operations: composition order (O1), event order of the
steppers (O2), float-time rounding and the None convention (O3)."""
from __future__ import annotations

import ast
from typing import Dict, List, Optional, Set, Tuple

from oqv import abseval as ae
from oqv.astutil import branch_context, call_name, method_call, bind_args
from oqv.cfg import CFG
from oqv.dataflow import DefUse, Def
from oqv.forms import Poly, eval_form
from oqv.pathcond import atomic_facts as _atomic_facts, fact_decider
from oqv.model import AnalysisError, Program, Unit, dotted, norm, walk_local
from oqv.report import Check


# --------------------------------------------------------------------- O1
def _matmul_operands(e: ast.AST) -> Optional[Tuple[ast.AST, ast.AST]]:
    if isinstance(e, ast.BinOp) and isinstance(e.op, ast.MatMult):
        return e.left, e.right
    if isinstance(e, ast.Call):
        fn = dotted(e.func) or ""
        if fn.split(".")[-1] in ("matmul", "dot") and len(e.args) == 2 and \
                fn.split(".")[0] in ("np", "numpy"):
            return e.args[0], e.args[1]
        if isinstance(e.func, ast.Attribute) and e.func.attr == "dot" and len(e.args) == 1:
            return e.func.value, e.args[0]
    return None


def _fold_calls(u: Unit):
    """(call, function, sequence expression) for reduce(f, seq[, init]) / multi_dot(seq)."""
    for c in walk_local(u.node):
        if not isinstance(c, ast.Call):
            continue
        fn = (dotted(c.func) or "").split(".")[-1]
        if fn == "reduce" and len(c.args) >= 2:
            yield c, c.args[0], c.args[1]
        elif fn == "multi_dot" and c.args:
            yield c, None, c.args[0]


def _fold_puts_later_left(f: Optional[ast.AST]) -> Optional[bool]:
    """reduce(f, [s0, s1, ..]): does a later element end up LEFT of the earlier ones?
    np.matmul / np.dot / operator.matmul / lambda a, b: a @ b -> no (s0 @ s1 @ ..);
    lambda a, b: b @ a -> yes."""
    if f is None:
        return False
    d = (dotted(f) or "").split(".")[-1]
    if d in ("matmul", "dot"):
        return False
    if isinstance(f, ast.Lambda) and len(f.args.args) == 2:
        a, b = f.args.args[0].arg, f.args.args[1].arg
        ops = _matmul_operands(f.body)
        if ops is not None and isinstance(ops[0], ast.Name) and isinstance(ops[1], ast.Name):
            if (ops[0].id, ops[1].id) == (a, b):
                return False
            if (ops[0].id, ops[1].id) == (b, a):
                return True
    return None


def grouped_folds(prog: Program, chk: Check, rule: str) -> int:
    """itertools.groupby only merges *consecutive* items with equal keys: grouping the stacked
    controls of a step by site needs the sequence sorted by that key (stably, so that the
    insertion order within a site survives) - on the insertion-ordered list a control for
    another site in between splits a site's controls into two groups and the later group
    replaces the earlier one."""
    n = 0
    for u in prog.units_in("control"):
        if isinstance(u.node, ast.Lambda):
            continue
        du = None
        for c in walk_local(u.node):
            if not (isinstance(c, ast.Call) and (dotted(c.func) or "").split(".")[-1] == "groupby"
                    and c.args):
                continue
            n += 1
            if du is None:
                du = DefUse(u, CFG(u.node, exc_edges=False))
            seq = c.args[0]
            key = next((k.value for k in c.keywords if k.arg == "key"),
                       c.args[1] if len(c.args) > 1 else None)
            nid = du.node_of(c)
            cands = [seq]
            if isinstance(seq, ast.Name) and nid is not None:
                cands = [d.value for d in du.reaching(nid, seq.id) if d.value is not None]

            def key_text(k):
                return norm(k.body) if isinstance(k, ast.Lambda) else (norm(k) if k is not None else "")

            def sorted_by_key(e):
                if isinstance(e, ast.Call) and (dotted(e.func) or "") == "sorted":
                    k2 = next((k.value for k in e.keywords if k.arg == "key"), None)
                    if key is None and k2 is None:
                        return True
                    if isinstance(key, ast.Lambda) and isinstance(k2, ast.Lambda):
                        # same body up to the parameter name
                        import copy
                        a, b = copy.deepcopy(key), copy.deepcopy(k2)
                        for lam in (a, b):
                            pn = lam.args.args[0].arg
                            for x in ast.walk(lam.body):
                                if isinstance(x, ast.Name) and x.id == pn:
                                    x.id = "_"
                        return norm(a.body) == norm(b.body)
                    return key_text(key) == key_text(k2)
                return False
            ok = bool(cands) and all(sorted_by_key(e) for e in cands)
            chk.saw(u)
            chk.add(rule, u, f"groupby({norm(seq)[:30]}, key={key_text(key)[:30]})", ok,
                    "the sequence is sorted by the grouping key (sorted() is stable: insertion "
                    "order within a group survives)" if ok else
                    "groupby merges consecutive items only and the sequence is not sorted by the "
                    "grouping key: stacked controls of one slot that are separated by a control "
                    "for another slot fall into two groups, and the later group replaces the "
                    "earlier one instead of being composed with it", c)
    return n


def stacking_folds(prog: Program, chk: Check, rule: str, classes: Optional[Set[str]] = None) -> int:
    """Controls kept as a list per slot and folded when they are read: the product must have
    the operation added later on the left.  Returns the number of folds judged."""
    units = [u for u in prog.units_in("control") if not isinstance(u.node, ast.Lambda)
             and (classes is None or u.cls in classes)]
    # how operations enter list slots: {attribute: True if a later addition sits later in the list}
    containers: Dict[str, bool] = {}
    for u in units:
        params = set(u.params)
        for c in walk_local(u.node):
            if not (isinstance(c, ast.Call) and isinstance(c.func, ast.Attribute)
                    and c.func.attr in ("append", "insert") and c.args):
                continue
            base = c.func.value
            while True:
                if isinstance(base, ast.Subscript):
                    base = base.value
                elif isinstance(base, ast.Call) and isinstance(base.func, ast.Attribute) \
                        and base.func.attr in ("setdefault", "get"):
                    base = base.func.value
                else:
                    break
            d = dotted(base)
            if not (d and d.startswith("self.")):
                continue
            if not any(isinstance(x, ast.Name) and x.id in params for x in ast.walk(c.args[-1])):
                continue
            if c.func.attr == "append":
                containers[d] = True
            elif isinstance(c.args[0], ast.Constant) and c.args[0].value == 0:
                containers[d] = False
    n = 0
    for u in units:
        for (c, f, seq) in _fold_calls(u):
            attrs = [a for a in containers if any(dotted(x) == a for x in ast.walk(seq)
                                                  if isinstance(x, ast.Attribute))]
            if not attrs:
                continue
            n += 1
            later_is_later = containers[attrs[0]]
            rev = isinstance(seq, ast.Call) and (dotted(seq.func) or "") == "reversed" or (
                isinstance(seq, ast.Subscript) and isinstance(seq.slice, ast.Slice)
                and isinstance(seq.slice.step, ast.UnaryOp) and norm(seq.slice.step) == "-1")
            if rev:
                later_is_later = not later_is_later
            put = _fold_puts_later_left(f)
            ok = None if put is None else (put == later_is_later)
            chk.saw(u)
            chk.add(rule, u, f"fold {norm(c)[:70]}", ok,
                    "the operation added later ends up on the left (acts after the earlier ones)"
                    if ok else
                    ("the fold function is not one this rule can read" if ok is None else
                     "the stored operations are multiplied with the one added FIRST on the left: "
                     "an operation added later acts before the earlier ones (A then B gives A @ B "
                     "instead of B @ A) - two operators of a multi-time correlation that fall on "
                     "the same step are applied in the wrong order"), c)
    return n


def o1(prog: Program, chk: Check) -> None:
    chk.rule("O1", "at every accumulation slot' = X @ Y in the control module where one operand "
             "is the previously accumulated control of that slot, the newly added operation is "
             "the LEFT operand (it acts after the earlier ones); stacked chain controls are "
             "iterated in insertion order; a slot kept as a list is folded with the later "
             "addition on the left", floor=9)
    mod = prog.module("control")
    stacking_folds(prog, chk, "O1")
    grouped_folds(prog, chk, "O1")
    accumulation_order(prog, chk, "O1")
    # insertion-order iteration of the chain control lists
    cc = prog.cls("control:ChainControl")
    add = cc.methods.get("add_single_site_control")
    get = cc.methods.get("get_single_site_controls")
    if add is None or get is None:
        raise AnalysisError("O1: ChainControl.add_single_site_control/get_single_site_controls vanished")
    for c in walk_local(add.node):
        mc = method_call(c) if isinstance(c, ast.Call) else None
        if mc and mc[0].startswith("self._single_site_controls"):
            ok = mc[1] == "append"
            chk.add("O1", add, f"{mc[0]}.{mc[1]}(...)", ok,
                    "appended in insertion order" if ok else
                    "controls are not appended in insertion order", c)
    _o1_chain_iteration(prog, chk, get)


def accumulation_order(prog: Program, chk: Check, rule: str, classes: Optional[Set[str]] = None) -> int:
    n = 0
    for u in prog.units_in("control"):
        if isinstance(u.node, ast.Lambda) or (classes is not None and u.cls not in classes):
            continue
        for st in walk_local(u.node):
            target, ops = None, None
            if isinstance(st, ast.Assign) and len(st.targets) == 1:
                ops = _matmul_operands(st.value)
                target = st.targets[0]
            elif isinstance(st, ast.AugAssign) and isinstance(st.op, ast.MatMult):
                target = st.target
                ops = (st.target, st.value)
            if ops is None or target is None:
                continue
            tl = norm(target)
            left_is_acc = norm(ops[0]) == tl
            right_is_acc = norm(ops[1]) == tl
            if not (left_is_acc or right_is_acc):
                continue
            n += 1
            ok = right_is_acc and not left_is_acc
            chk.saw(u)
            chk.add(rule, u, f"{tl} = {norm(ops[0])} @ {norm(ops[1])}", ok,
                    "new operation applied after the accumulated ones" if ok else
                    "the accumulated operation is the left operand: a control added later "
                    "acts BEFORE the earlier ones (A then B gives A @ B)", st)
    return n


def _o1_chain_iteration(prog: Program, chk: Check, get: Unit) -> None:
    du = DefUse(get, CFG(get.node, exc_edges=False))
    chk.saw(get, du.cfg)
    for nd in du.cfg.nodes:
        if nd.kind != "iter":
            continue
        it = nd.ast.iter
        srcs = set()
        for x in walk_local(it):
            if isinstance(x, ast.Name) and isinstance(x.ctx, ast.Load):
                for d in du.reaching(nd.id, x.id):
                    if d.value is not None:
                        srcs.add(norm(d.value))
            elif isinstance(x, ast.Attribute):
                srcs.add(norm(x))
        over_lists = any(s.startswith("self._single_site_controls") for s in srcs)
        if not over_lists:
            continue
        forward = isinstance(it, ast.Name)
        chk.add("O1", get, f"for {norm(nd.ast.target)} in {norm(it)}", forward,
                "forward iteration over the insertion-ordered list" if forward else
                "stacked controls are not visited in insertion order (only a plain forward "
                "iteration over the list is recognised)", nd.ast)


# --------------------------------------------------------------------- O2
ORDER = ["PRE", "RECORD", "POST", "PROP1", "ENV", "PROP2"]


def _closure_returns_get_controls(prog: Program, u: Unit, fname: str) -> bool:
    for v in prog.nested_units(u):
        if v.name == fname:
            for x in walk_local(v.node):
                if isinstance(x, ast.Return) and isinstance(x.value, ast.Call):
                    mc = method_call(x.value)
                    if mc and mc[1] == "get_controls":
                        return True
    return False


def _call_kind(prog: Program, u: Unit, call: ast.AST) -> Optional[str]:
    """'controls' / 'propagators' for a call expression producing the
    (pre, post) pair or the (first, second) half-step propagators."""
    if not isinstance(call, ast.Call):
        return None
    mc = method_call(call)
    if mc and mc[1] == "get_controls":
        return "controls"
    fn = dotted(call.func)
    if fn is None:
        return None
    if _closure_returns_get_controls(prog, u, fn):
        return "controls"
    return None


def _listcomp_elt_kind(du: DefUse, nid: int, lc: ast.ListComp) -> Optional[str]:
    """'controls' for `[f(step) for f in fs]` where fs is a list of closures (lambdas, or
    calls of a factory) each of which asks a Control for its controls."""
    elt = lc.elt
    if not (isinstance(elt, ast.Call) and isinstance(elt.func, ast.Name) and len(lc.generators) == 1):
        return None
    gen = lc.generators[0]
    if not (isinstance(gen.target, ast.Name) and gen.target.id == elt.func.id
            and isinstance(gen.iter, ast.Name)):
        return None
    kinds = set()
    for d in du.reaching(nid, gen.iter.id):
        v = d.value
        makers = []
        if isinstance(v, ast.ListComp):
            makers = [v.elt]
        elif isinstance(v, (ast.List, ast.Tuple)):
            makers = list(v.elts)
        if not makers:
            return None
        for m in makers:
            if isinstance(m, ast.Lambda) and any(
                    isinstance(c, ast.Call) and isinstance(c.func, ast.Attribute)
                    and c.func.attr == "get_controls" for c in ast.walk(m.body)):
                kinds.add("controls")
            else:
                kinds.add(None)
    return "controls" if kinds == {"controls"} else None


def _product_operands(e: ast.AST) -> Optional[List[ast.AST]]:
    """[left, right] of a matrix product of two superoperators
    (`A @ B`, np.dot(A, B) / np.matmul(A, B), A.dot(B))."""
    if isinstance(e, ast.BinOp) and isinstance(e.op, ast.MatMult):
        return [e.left, e.right]
    if isinstance(e, ast.Call) and not e.keywords and isinstance(e.func, ast.Attribute) \
            and e.func.attr in ("dot", "matmul"):
        if dotted(e.func.value) in ("np", "numpy"):
            return [e.args[0], e.args[1]] if len(e.args) == 2 else None
        return [e.func.value, e.args[0]] if len(e.args) == 1 else None
    return None


def _copied_operand(e: ast.AST) -> Optional[ast.AST]:
    """x for `x.copy()`, np.copy(x), np.array(x), np.asarray(x), copy(x), deepcopy(x)."""
    if isinstance(e, ast.Call) and not e.keywords:
        if isinstance(e.func, ast.Attribute) and e.func.attr == "copy" and not e.args:
            return e.func.value
        fn = (dotted(e.func) or "").split(".")[-1]
        if fn in ("copy", "deepcopy", "array", "asarray") and len(e.args) == 1:
            return e.args[0]
    return None


def superop_roles(prog: Program, u: Unit, du: DefUse, nid: int, arg: ast.AST,
                  prop_names: Set[str], depth: int = 0):
    """Roles of the superoperator `arg` at node nid, one entry per way it can have been made:
    [(roles in order of application, defining node or None)], or None if some reaching
    definition is neither a control, a propagator, None, a copy nor a product of such.  A
    product `A @ B` applies B first."""
    if depth > 6:
        return None
    ops = _product_operands(arg)
    if ops is not None:
        left = superop_roles(prog, u, du, nid, ops[0], prop_names, depth + 1)
        right = superop_roles(prog, u, du, nid, ops[1], prop_names, depth + 1)
        if left is None or right is None:
            return None
        return [(r_ + l_, None) for (l_, _) in left for (r_, _) in right]
    if isinstance(arg, ast.Constant) and arg.value is None:
        return [((), None)]
    inner = _copied_operand(arg)
    if inner is not None:
        return superop_roles(prog, u, du, nid, inner, prop_names, depth + 1)
    if isinstance(arg, ast.Name):
        out = []
        for d in du.reaching(nid, arg.id):
            sub = _roles_of_def(prog, u, du, nid, arg, d, prop_names, depth)
            if sub is None:
                return None
            out += sub
        return out
    r = classify_superop_arg(prog, u, du, nid, arg, prop_names)
    return None if r is None else [((r,), None)]


def _roles_of_def(prog, u, du, nid, arg: ast.Name, d, prop_names, depth):
    if d.value is None or depth > 6:
        return None
    if d.sel and d.sel[0] == ("aug", "MatMult"):
        # x @= y: the object x had before, times y (y acts first)
        prior = []
        for pd in du.reaching(d.node, arg.id):
            if pd.id == d.id:
                continue
            sub = _roles_of_def(prog, u, du, d.node, arg, pd, prop_names, depth + 1)
            if sub is None:
                return None
            prior += [r for (r, _) in sub]
        right = superop_roles(prog, u, du, d.node, d.value, prop_names, depth + 1)
        if right is None or not prior:
            return None
        return [(r_ + l_, d.node) for l_ in prior for (r_, _) in right]
    if not d.sel and (_product_operands(d.value) is not None):
        sub = superop_roles(prog, u, du, d.node, d.value, prop_names, depth + 1)
        return None if sub is None else [(roles, d.node) for (roles, _) in sub]
    if not d.sel and isinstance(d.value, ast.Constant) and d.value.value is None:
        return [((), d.node)]
    if not d.sel and (isinstance(d.value, ast.Name) or _copied_operand(d.value) is not None
                      or (isinstance(d.value, ast.Attribute) and d.value.attr == "T")) \
            and d.node != nid:
        return superop_roles(prog, u, du, d.node, d.value, prop_names, depth + 1)
    r = classify_superop_arg(prog, u, du, nid, arg, prop_names, only_def=d)
    return None if r is None else [((r,), None)]


def classify_superop_arg(prog: Program, u: Unit, du: DefUse, nid: int, arg: ast.AST,
                         prop_names: Set[str], only_def=None) -> Optional[str]:
    """Role of the superoperator handed to _apply_system_superoperator."""
    transposed = False
    while isinstance(arg, ast.Attribute) and arg.attr == "T":
        arg = arg.value
        transposed = True
    if not isinstance(arg, ast.Name):
        return None
    # comprehension-bound name?
    owner = du.cfg.nodes[nid]
    for x in owner.walk():
        if isinstance(x, (ast.ListComp, ast.GeneratorExp)):
            for gen in x.generators:
                role = _comp_role(prog, u, du, nid, gen, arg.id, prop_names)
                if role:
                    return role
    roles = set()
    for d in ([only_def] if only_def is not None else du.reaching(nid, arg.id)):
        if d.value is None:
            return None
        idx = [s[1] for s in d.sel if s[0] == "idx"]
        kind = _call_kind(prog, u, d.value)
        if kind == "controls" and len(idx) == 1:
            roles.add("PRE" if idx[0] == 0 else "POST")
        elif isinstance(d.value, ast.Call) and dotted(d.value.func) in prop_names \
                and len(idx) == 1:
            roles.add("PROP1" if idx[0] == 0 else "PROP2")
        else:
            return None
    return roles.pop() if len(roles) == 1 else None


def _comp_role(prog, u, du, nid, gen: ast.comprehension, name: str,
               prop_names: Set[str]) -> Optional[str]:
    # for (a, b), (x, y) in zip(A, B): find position of `name`
    tgt = gen.target
    it = gen.iter
    if not (isinstance(it, ast.Call) and dotted(it.func) == "zip"):
        return None
    if not isinstance(tgt, ast.Tuple) or len(tgt.elts) != len(it.args):
        return None
    for el, src in zip(tgt.elts, it.args):
        if isinstance(el, ast.Tuple):
            for pos, sub in enumerate(el.elts):
                if isinstance(sub, ast.Name) and sub.id == name and isinstance(src, ast.Name):
                    # what does the source list hold?
                    kinds = set()
                    for d in du.reaching(nid, src.id):
                        v = d.value
                        if isinstance(v, ast.ListComp) and isinstance(v.elt, ast.Call):
                            k = _call_kind(prog, u, v.elt) or _listcomp_elt_kind(du, d.node, v)
                            if k == "controls":
                                kinds.add("PRE" if pos == 0 else "POST")
                            elif dotted(v.elt.func) in prop_names or (
                                    isinstance(v.elt.func, ast.Name)
                                    and _is_prop_comp(v, prop_names, du, d.node)):
                                kinds.add("PROP1" if pos == 0 else "PROP2")
                            else:
                                kinds.add("?")
                        else:
                            kinds.add("?")
                    if len(kinds) == 1 and "?" not in kinds:
                        return kinds.pop()
    return None


def _is_prop_comp(v: ast.ListComp, prop_names: Set[str], du: DefUse, nid: int) -> bool:
    """[propagators(step, ...) for propagators in propagators_list]"""
    if len(v.generators) != 1:
        return False
    gen = v.generators[0]
    if not (isinstance(gen.target, ast.Name) and isinstance(v.elt.func, ast.Name)
            and v.elt.func.id == gen.target.id and isinstance(gen.iter, ast.Name)):
        return False
    return gen.iter.id in prop_names


def stepper_events(prog: Program, u: Unit, du: DefUse,
                   composite: Optional[list] = None) -> Dict[int, str]:
    """node -> event.  `composite` (if given) receives (node, role, defining node, roles in
    order of application) for superoperators made as products of controls / propagators."""
    g = du.cfg
    # names bound to get_propagators(...) results (closures or lists of them)
    prop_names: Set[str] = set()
    for d in du.defs:
        v = d.value
        if isinstance(v, ast.Call) and method_call(v) and method_call(v)[1] == "get_propagators":
            prop_names.add(d.name)
        if isinstance(v, ast.ListComp) and isinstance(v.elt, ast.Call) and method_call(v.elt) \
                and method_call(v.elt)[1] == "get_propagators":
            prop_names.add(d.name)
    events: Dict[int, str] = {}
    for n in g.nodes:
        if n.copy_of:
            continue
        for c in n.calls():
            fn = call_name(c)
            if fn == "_apply_system_superoperator":
                if len(c.args) < 3:
                    raise AnalysisError(f"O2: unexpected call shape at {u.loc(c)}")
                role = classify_superop_arg(prog, u, du, n.id, c.args[2], prop_names)
                if role is None:
                    ways = superop_roles(prog, u, du, n.id, c.args[2], prop_names)
                    if ways is None or not any(r for (r, _) in ways):
                        raise AnalysisError(
                            f"O2: cannot classify the superoperator `{norm(c.args[2])}` applied "
                            f"at {u.loc(c)} (neither control nor propagator by provenance)")
                    # the role every way of making it agrees on first; the others are
                    # conditional on the definition that fuses them in
                    firsts = {r[0] for (r, _) in ways if r}
                    role = sorted(firsts, key=ORDER.index)[0]
                    for (r, dnode) in ways:
                        for k in r:
                            if k != role or len(r) > 1:
                                if composite is not None:
                                    composite.append((n.id, k, dnode, r))
                events[n.id] = role
            elif fn == "_apply_pt_mpos":
                events[n.id] = "ENV"
            else:
                mc = method_call(c)
                if mc and mc[1] == "append" and c.args:
                    # RECORD: the appended value derives from _apply_caps
                    if _derives_from_caps(du, n.id, c.args[0]):
                        events[n.id] = "RECORD"
    return events


def _derives_from_caps(du: DefUse, nid: int, e: ast.AST, depth: int = 0) -> bool:
    if depth > 6:
        return False
    for x in walk_local(e):
        if isinstance(x, ast.Call) and call_name(x) == "_apply_caps":
            return True
        if isinstance(x, ast.Name) and isinstance(x.ctx, ast.Load):
            for d in du.reaching(nid, x.id):
                if d.value is not None and d.node != nid and \
                        _derives_from_caps(du, d.node, d.value, depth + 1):
                    return True
    return False


def check_stepper_order(chk: Check, u: Unit, g: CFG, events: Dict[int, str],
                        rule: str = "O2", order: List[str] = ORDER,
                        also_present: Set[str] = frozenset()) -> None:
    no_back = lambda a, b, l: l != "loop"
    kinds = {}
    for nid, k in events.items():
        kinds.setdefault(k, []).append(nid)
    for k in order:
        if k not in kinds and k not in also_present:
            chk.add(rule, u, f"{k} event present", False,
                    f"the stepper never performs the {k} event")
    for j, later in enumerate(order):
        for i in range(j):
            earlier = order[i]
            bad = None
            for a in kinds.get(later, []):
                starts = [b for (b, l) in g.succ[a] if l != "loop"]
                targets = set(kinds.get(earlier, []))
                p = g.find_path(starts, lambda x: x in targets, edge_ok=no_back)
                if p is not None:
                    bad = [a] + p
                    break
            if earlier in kinds and later in kinds:
                chk.add(rule, u, f"{earlier} before {later}", bad is None,
                        "" if bad is None else
                        f"within one step {later} can be followed by {earlier}",
                        node=g.nodes[bad[0]].ast if bad else None,
                        path=None if bad is None else
                        [l for l in g.describe_path(bad, u.loc)][:12])
    for k in ("PRE", "POST"):
        bad = None
        for a in kinds.get(k, []):
            starts = [b for (b, l) in g.succ[a] if l != "loop"]
            p = g.find_path(starts, lambda x: x in kinds[k], edge_ok=no_back)
            if p is not None:
                bad = [a] + p
        if k in kinds:
            chk.add(rule, u, f"{k} applied at most once per step", bad is None,
                    "" if bad is None else f"{k} control is applied twice in one step")


def _check_composite(chk: Check, u: Unit, du: DefUse, ev: Dict[int, str], composite: list) -> None:
    """Superoperators made as products of controls / propagators (fused before they are
    applied): inside the product the factors act in the order of the cycle, and each fused-in
    role obeys the order rule along the paths that are feasible under the conditions of the
    statement that fused it in."""
    g = du.cfg
    seen = set()
    for (nid, role, dnode, roles) in composite:
        if (nid, role, dnode) in seen:
            continue
        seen.add((nid, role, dnode))
        idx = [ORDER.index(k) for k in roles]
        inner_ok = idx == sorted(idx) and len(set(idx)) == len(idx)
        chk.add("O2", u, f"fused superoperator {' then '.join(roles)}", inner_ok,
                "factors act in the order of the step cycle" if inner_ok else
                f"inside the product the factors act as {' then '.join(roles)}, the step cycle "
                f"is {' -> '.join(ORDER)}", g.nodes[nid].ast)
        facts: List[Tuple[ast.AST, bool]] = []
        if dnode is not None:
            for (t, br) in branch_context(u.node, g.nodes[dnode].ast):
                facts += _atomic_facts(t, br)
        decide = fact_decider(du, facts, dnode if dnode is not None else nid)

        def lookup(n_, e, decide=decide):
            r = decide(n_, e)
            return ae.UNKNOWN if r is None else r
        feas = ae.feasible_edges(g, lookup)
        edge_ok = lambda a, b, l, feas=feas: l != "loop" and feas(a, b, l)
        why = " and ".join(f"{norm(t)} is {tv}" for (t, tv) in facts) or "unconditionally"
        for earlier in ORDER[:ORDER.index(role)]:
            targets = {n for n, k in ev.items() if k == earlier and n != nid}
            if not targets:
                continue
            starts = [b for (b, l) in g.succ[nid] if edge_ok(nid, b, l)]
            p = g.find_path(starts, lambda x: x in targets, edge_ok=edge_ok)
            chk.add("O2", u, f"{earlier} before fused-in {role}", p is None,
                    f"no feasible path ({why})" if p is None else
                    f"the {role} factor fused into the superoperator applied here ({why}) can be "
                    f"followed by {earlier} within the same step: it acts on the wrong side",
                    g.nodes[nid].ast,
                    path=None if p is None else g.describe_path([nid] + p, u.loc)[:10])


def _pre_before_final_record(chk: Check, u: Unit, du: DefUse, ev: Dict[int, str],
                             rule: str = "O2") -> None:
    """The state recorded after the loop (last step) is preceded, in the same
    iteration, by the pre-measurement control of that step."""
    g = du.cfg
    loops = [n for n in g.nodes if n.kind == "iter" and "num_steps" in norm(n.ast.iter)
             and "reversed" not in norm(n.ast.iter)]
    if not loops:
        raise AnalysisError(f"{rule}: stepping loop of {u.qual} not found")
    loop = loops[0]
    in_loop = g.reachable([b for b, l in g.succ[loop.id] if l == "it"],
                          edge_ok=lambda a, b, l: True)
    body = {n for n in in_loop if g.find_path([n], lambda x: x == loop.id) is not None}
    finals = [n for n, k in ev.items() if k == "RECORD" and n not in body]
    pre = {n for n, k in ev.items() if k == "PRE" and n in body}
    # a test `X is not None` on a PRE control also discharges the obligation (no control)
    pre_vars = set()
    for n in pre:
        for c in g.nodes[n].calls():
            if call_name(c) == "_apply_system_superoperator" and isinstance(c.args[2], ast.Name):
                pre_vars.add(c.args[2].id)
    tests = {n.id for n in g.nodes if n.kind == "test" and isinstance(n.ast, ast.Compare)
             and dotted(n.ast.left) in pre_vars}
    if not finals:
        chk.add(rule, u, "final state recorded after the loop", False,
                "no state is recorded after the last step")
        return
    starts = [b for b, l in g.succ[loop.id] if l == "it"]
    p = g.find_path(starts, lambda x: x in finals, blocked=lambda x: x in pre or x in tests,
                    edge_ok=lambda a, b, l: l != "loop")
    chk.add(rule, u, "pre-control of the last step precedes the final record", p is None,
            "" if p is None else
            "the loop can be left and the final state recorded without applying the "
            "pre-measurement control of the last step",
            path=None if p is None else g.describe_path(p, u.loc)[:8])
    # The loop can also end by running out of steps.  Then the last thing that happened is a
    # propagation: the state has reached a step whose pre-measurement control was never
    # applied.  That exit is harmless only if it cannot be taken: the loop variable runs over
    # range(B) and some iteration-ending `break` is guarded by `<loop var> == B - 1` (the last
    # iteration always leaves through the break).
    it = loop.ast.iter
    always_breaks = False
    if isinstance(loop.ast.target, ast.Name) and isinstance(it, ast.Call) \
            and dotted(it.func) == "range" and len(it.args) == 1:
        var = loop.ast.target.id

        def leaf(x):
            return Poly.sym(norm(x)) if isinstance(x, (ast.Name, ast.Attribute)) else None
        bound = eval_form(it.args[0], leaf)
        for n in g.nodes:
            if n.id in body and n.kind == "test" and isinstance(n.ast, ast.Compare) \
                    and len(n.ast.ops) == 1 and isinstance(n.ast.ops[0], (ast.Eq, ast.GtE)):
                sides = [n.ast.left, n.ast.comparators[0]]
                other = [s_ for s_ in sides if not (isinstance(s_, ast.Name) and s_.id == var)]
                if len(other) != 1:
                    continue
                f = eval_form(other[0], leaf)
                leads_to_break = any(g.nodes[b].kind == "stmt" and isinstance(g.nodes[b].ast, ast.Break)
                                     for (b, l) in g.succ[n.id] if l == "t")
                if bound is not None and f is not None and leads_to_break \
                        and (bound - f) == Poly.const(1):
                    always_breaks = True
    prop_after_pre = any(k in ("PROP1", "ENV", "PROP2") and n in body for n, k in ev.items())
    exhaust = [b for b, l in g.succ[loop.id] if l not in ("it",)]
    p2 = None
    if not always_breaks and prop_after_pre and exhaust:
        post_loop_pre = {n for n, k in ev.items() if k == "PRE" and n not in body}
        # `if <pre control> is not None:` around it also discharges the obligation (no control)
        post_vars = set()
        for n in post_loop_pre:
            for c in g.nodes[n].calls():
                if call_name(c) == "_apply_system_superoperator" and len(c.args) > 2 \
                        and isinstance(c.args[2], ast.Name):
                    post_vars.add(c.args[2].id)
        post_tests = {n.id for n in g.nodes if n.kind == "test" and n.id not in body
                      and isinstance(n.ast, ast.Compare) and dotted(n.ast.left) in post_vars}
        p2 = g.find_path(exhaust, lambda x: x in finals,
                         blocked=lambda x: x in post_loop_pre or x in post_tests,
                         edge_ok=lambda a, b, l: l != "loop")
    chk.add(rule, u, "the loop cannot run out of steps between the last propagation and the final "
            "record" + (" (last iteration always breaks)" if always_breaks else ""), p2 is None,
            "" if p2 is None else
            "when the loop runs out of steps the state has just been propagated to the final "
            "step, whose pre-measurement control is never applied before the final state is "
            "recorded (a control at step == num_steps is silently dropped)",
            path=None if p2 is None else g.describe_path([loop.id] + p2, u.loc)[:8])


def final_step_controls(prog: Program, chk: Check, rule: str) -> None:
    """The pre-measurement control of the last step reaches the final state, in all steppers."""
    for q in ("system_dynamics:compute_dynamics", "system_dynamics:compute_dynamics_with_field",
              "gradient:compute_gradient_and_dynamics"):
        u = prog.unit(q)
        du = DefUse(u, CFG(u.node, exc_edges=False))
        chk.saw(u, du.cfg)
        ev = stepper_events(prog, u, du, [])
        if q.startswith("gradient"):
            ev = _forward_only(du.cfg, ev)
        _pre_before_final_record(chk, u, du, ev, rule)


def o2(prog: Program, chk: Check) -> None:
    chk.rule("O2", "every stepper performs PRE-control -> RECORD -> POST-control -> PROPAGATE "
             "(first half, environments, second half) in this order on every path of a step, "
             "PRE and POST at most once; PT-TEBD follows the same cycle around its step counter",
             floor=30)
    for q in ("system_dynamics:compute_dynamics", "system_dynamics:compute_dynamics_with_field",
              "gradient:compute_gradient_and_dynamics"):
        u = prog.unit(q)
        du = DefUse(u, CFG(u.node, exc_edges=False))
        chk.saw(u, du.cfg)
        composite: list = []
        ev = stepper_events(prog, u, du, composite)
        if q.startswith("gradient"):
            # forward pass only: events before the first reversed() loop
            ev = _forward_only(du.cfg, ev)
        check_stepper_order(chk, u, du.cfg, ev, also_present={r for (_, r, _, _) in composite})
        _pre_before_final_record(chk, u, du, ev)
        _check_composite(chk, u, du, ev, composite)
    # PT-TEBD
    cyc = ["PRE", "RECORD", "POST", "INC", "PROP"]
    for q in ("pt_tebd:PtTebd.initialize", "pt_tebd:PtTebd.compute_step"):
        u = prog.unit(q)
        g = CFG(u.node, exc_edges=False)
        chk.saw(u, g)
        seqs = _tebd_sequences(u, g)
        for seq in seqs:
            ok, why = _is_cyclic_subsequence(seq, cyc)
            chk.add("O2", u, " -> ".join(seq), ok, why)
        if q.endswith("compute_step"):
            flat = seqs[0] if seqs else []
            need = {"POST", "INC", "PROP", "PRE", "RECORD"}
            chk.add("O2", u, "compute_step performs a full cycle", need <= set(flat),
                    "" if need <= set(flat) else f"missing events {sorted(need - set(flat))}")
        else:
            flat = seqs[0] if seqs else []
            chk.add("O2", u, "initialize applies PRE then RECORD",
                    [e for e in flat if e in ("PRE", "RECORD")] == ["PRE", "RECORD"])


def split_forward_backward(g: CFG):
    """The forward pass of compute_gradient_and_dynamics ends where the Dynamics
    object is built; everything reachable from there is the backward pass."""
    cut = [n.id for n in g.nodes if not n.copy_of
           and any(call_name(c) == "Dynamics" for c in n.calls())]
    if len(cut) != 1:
        raise AnalysisError("O2/H: the `Dynamics(...)` construction separating forward and "
                            "backward pass of compute_gradient_and_dynamics was not found")
    return cut[0], g.reachable([cut[0]])


def _forward_only(g: CFG, ev: Dict[int, str]) -> Dict[int, str]:
    _, back = split_forward_backward(g)
    return {nid: k for nid, k in ev.items() if nid not in back}


def _tebd_event(n) -> Optional[str]:
    for c in n.calls():
        mc = method_call(c)
        if not mc:
            continue
        if mc[1] == "_apply_controls":
            post = None
            for k in c.keywords:
                if k.arg == "post":
                    post = k.value
            if post is None and len(c.args) >= 2:
                post = c.args[1]
            if isinstance(post, ast.Constant):
                return "POST" if post.value else "PRE"
            raise AnalysisError("O2: _apply_controls(post=<non-constant>)")
        if mc[1] == "_append_results":
            return "RECORD"
        if mc[1] in ("apply_nn_gate_layer", "apply_process_tensors"):
            return "PROP"
    if n.kind == "stmt" and isinstance(n.ast, ast.AugAssign) and \
            dotted(n.ast.target) == "self._step" and isinstance(n.ast.op, ast.Add):
        return "INC"
    return None


def _tebd_sequences(u: Unit, g: CFG) -> List[List[str]]:
    """Event sequences along every acyclic path (loops visited once)."""
    seqs: Set[Tuple[str, ...]] = set()

    def dfs(nid, seq, seen):
        n = g.nodes[nid]
        e = _tebd_event(n)
        if e and (not seq or seq[-1] != e or e in ("PRE", "POST", "INC", "RECORD")):
            seq = seq + (e,)
        if nid == g.exit:
            seqs.add(seq)
            return
        for (b, l) in g.succ[nid]:
            if (nid, b) in seen:
                continue
            dfs(b, seq, seen | {(nid, b)})
    dfs(g.entry, (), frozenset())
    # collapse repeated PROP runs
    out = []
    for s in seqs:
        c: List[str] = []
        for e in s:
            if e == "PROP" and c and c[-1] == "PROP":
                continue
            c.append(e)
        if c not in out:
            out.append(c)
    return sorted(out, key=len, reverse=True)


def _is_cyclic_subsequence(seq: List[str], cyc: List[str]) -> Tuple[bool, str]:
    if not seq:
        return True, "no events"
    if seq[0] not in cyc:
        return False, f"unknown event {seq[0]}"
    i = cyc.index(seq[0])
    for e in seq:
        if cyc[i % len(cyc)] != e:
            return False, f"expected {cyc[i % len(cyc)]} but found {e}: controls/record/step " \
                          f"counter are out of order"
        i += 1
    return True, ""


# --------------------------------------------------------------------- O3
def o3(prog: Program, chk: Check) -> None:
    _PROG["prog"] = prog
    chk.rule("O3", "float-time controls are mapped to steps by round((t - start_time)/dt); "
             "`None` means no control and _apply_system_superoperator skips it", floor=3)
    u = prog.unit("control:Control.get_controls")
    du = DefUse(u, CFG(u.node, exc_edges=False))
    chk.saw(u, du.cfg)
    n = 0
    for nd in du.cfg.nodes:
        for x in nd.walk():
            if isinstance(x, ast.Compare) and len(x.ops) == 1 and isinstance(x.ops[0], ast.Eq):
                sides = [x.left, x.comparators[0]]
                if not any(isinstance(s, ast.Name) and s.id == "step" for s in sides):
                    continue
                other = [s for s in sides if not (isinstance(s, ast.Name) and s.id == "step")][0]
                n += 1
                ok, why = _is_rounded_relative_time(du, nd.id, other)
                chk.add("O3", u, f"{norm(x)}", ok, why, x)
    if n < 2:
        raise AnalysisError("O3: the float-time selection `a == step` was not found twice in get_controls")
    ap = prog.unit("system_dynamics:_apply_system_superoperator")
    g = CFG(ap.node, exc_edges=False)
    chk.saw(ap, g)
    pname = ap.params[2]
    tests = {nd.id for nd in g.nodes if nd.kind == "test" and isinstance(nd.ast, ast.Compare)
             and dotted(nd.ast.left) == pname and isinstance(nd.ast.ops[0], (ast.Is, ast.IsNot))
             and isinstance(nd.ast.comparators[0], ast.Constant)
             and nd.ast.comparators[0].value is None}
    uses = {nd.id for nd in g.nodes for x in nd.walk()
            if isinstance(x, ast.Attribute) and dotted(x.value) == pname}
    p = g.find_path([g.entry], lambda x: x in uses, blocked=lambda x: x in tests)
    chk.add("O3", ap, f"`{pname} is None` tested before use", p is None and bool(tests),
            "" if p is None and tests else "a None control reaches tensor code")
    # and the None branch returns the node unchanged
    ret_ok = False
    for nd in g.nodes:
        if nd.id in tests:
            for (b, l) in g.succ[nd.id]:
                is_none_branch = (l == "t") == isinstance(nd.ast.ops[0], ast.Is)
                if is_none_branch:
                    nb = g.nodes[b]
                    if isinstance(nb.ast, ast.Return) and isinstance(nb.ast.value, ast.Tuple) and \
                            [dotted(e) for e in nb.ast.value.elts] == ap.params[:2]:
                        ret_ok = True
    chk.add("O3", ap, "None control returns the inputs unchanged", ret_ok)


def o3b(prog: Program, chk: Check) -> None:
    """pre/post bookkeeping: which container a control goes to and comes from."""
    u = prog.unit("control:Control.add_single")
    vals = {}
    # the container key: the local that subscripts the control containers
    key_names = {x.slice.id for x in walk_local(u.node) if isinstance(x, ast.Subscript)
                 and isinstance(x.slice, ast.Name)
                 and dotted(x.value) in ("self._step_controls", "self._time_controls",
                                         "self._control_times")}
    if len(key_names) != 1:
        raise AnalysisError("O3: Control.add_single no longer selects its containers by one key")
    key_name = next(iter(key_names))
    for st in walk_local(u.node):
        if isinstance(st, ast.Assign) and dotted(st.targets[0]) == key_name \
                and isinstance(st.value, ast.Constant):
            ctx = [br for (t, br) in branch_context(u.node, st) if dotted(t) == "post"]
            if len(ctx) == 1:
                vals[ctx[0]] = st.value.value
    ok = vals == {True: "post", False: "pre"}
    chk.add("O3", u, f"post flag -> container key {vals}", ok,
            "" if ok else "pre- and post-measurement controls are stored under swapped keys")
    u = prog.unit("control:Control.get_controls")
    du = DefUse(u, CFG(u.node, exc_edges=False))
    rets = [n for n in du.cfg.nodes if n.kind == "stmt" and isinstance(n.ast, ast.Return)]
    for rn in rets:
        v = rn.ast.value
        if not (isinstance(v, ast.Tuple) and len(v.elts) == 2):
            chk.add("O3", u, f"return {norm(v)}", False, "get_controls must return (pre, post)")
            continue
        kinds = []
        for el in v.elts:
            keys = set()
            seen = set()
            work = [(rn.id, el)]
            while work:
                nid, e = work.pop()
                for x in ast.walk(e):
                    if isinstance(x, ast.Subscript) and isinstance(x.slice, ast.Constant) \
                            and x.slice.value in ("pre", "post"):
                        keys.add(x.slice.value)
                    if isinstance(x, ast.Name) and isinstance(x.ctx, ast.Load):
                        for d in du.reaching(nid, x.id):
                            if d.id not in seen and d.value is not None:
                                seen.add(d.id)
                                work.append((d.node, d.value))
            kinds.append(sorted(keys))
        ok = kinds == [["pre"], ["post"]]
        chk.add("O3", u, f"return ({kinds[0]}, {kinds[1]})", ok,
                "" if ok else "the returned pair does not carry (pre controls, post controls)",
                rn.ast)
    cc = prog.cls("control:ChainControl")
    for mname in ("add_single_site_control", "get_single_site_controls"):
        mu = cc.methods[mname]
        seen = {}
        for x in walk_local(mu.node):
            d = dotted(x) if isinstance(x, ast.Attribute) else None
            if d in ("self._single_site_controls_pre", "self._single_site_controls_post"):
                ctx = branch_context(mu.node, x)
                for (t, br) in ctx:
                    neg = False
                    tt = t
                    while isinstance(tt, ast.UnaryOp) and isinstance(tt.op, ast.Not):
                        neg = not neg
                        tt = tt.operand
                    if dotted(tt) == "post":
                        post_true = br != neg
                        seen[d.split("_")[-1]] = post_true
        ok = seen == {"pre": False, "post": True}
        chk.add("O3", mu, f"post flag selects {seen}", ok,
                "" if ok else "ChainControl stores / returns pre- and post-controls swapped")
    ap = prog.unit("pt_tebd:PtTebd._apply_controls")
    fw = [c for c in walk_local(ap.node) if isinstance(c, ast.Call)
          and method_call(c) and method_call(c)[1] == "get_single_site_controls"]
    ok = len(fw) == 1 and [norm(a) for a in fw[0].args] == ["step", "post"]
    chk.add("O3", ap, f"get_single_site_controls({', '.join(norm(a) for a in fw[0].args) if fw else ''})",
            ok, "" if ok else "step / post are not forwarded unchanged")


def _rounds_in(unit_node: ast.AST, du: Optional[DefUse] = None) -> List[ast.Call]:
    from oqv.dataflow import expand
    out = []
    for c in ast.walk(unit_node):
        if isinstance(c, ast.Call) and (dotted(c.func) or "").split(".")[-1] in \
                ("round", "rint", "around") and c.args:
            arg = c.args[0]
            if du is not None and du.node_of(c) is not None:
                arg = expand(du, du.node_of(c), arg)       # the quotient may sit in a temporary
            if any(isinstance(x, ast.BinOp) and isinstance(x.op, ast.Div) for x in ast.walk(arg)):
                out.append(c)
    return out


_PROG = {}


def _is_rounded_relative_time(du: DefUse, nid: int, e: ast.AST) -> Tuple[bool, str]:
    """e (or its unique definition) is round/rint((T - start_time)/dt); a call of
    a helper method of the same class is followed into the helper."""
    e0 = e
    for _ in range(3):
        if isinstance(e0, ast.Name):
            d0 = du.unique_value(nid, e0.id)
            if d0 is None or d0.value is None or d0.sel:
                break
            nid0, e0 = d0.node, d0.value
        else:
            break
    if isinstance(e0, ast.Call) and method_call(e0) and method_call(e0)[0] == "self" \
            and _PROG.get("prog") is not None:
        prog = _PROG["prog"]
        ci = prog.class_of_unit(du.unit)
        hu = prog.find_method(ci, method_call(e0)[1]) if ci else None
        if hu is not None:
            hdu = DefUse(hu, CFG(hu.node, exc_edges=False))
            rs = _rounds_in(hu.node, hdu)
            if not rs:
                return False, f"helper {hu.name} does not round a time quotient"
            for r in rs:
                ok, why = _round_form_ok(hdu, r)
                if not ok:
                    return False, f"in helper {hu.name}: {why}"
            return True, f"rounded in helper {hu.name}: (T - START)/DT"
    return _is_rounded_relative_time_local(du, nid, e)


def _round_form_ok(du: DefUse, r: ast.Call) -> Tuple[bool, str]:
    from oqv.dataflow import form_at

    def res(x):
        d = dotted(x)
        if d == "start_time":
            return Poly.sym("START")
        if d == "dt":
            return Poly.sym("DT")
        if isinstance(x, (ast.Subscript, ast.Name)) and "_control_times" in norm(x):
            return Poly.sym("T")
        if isinstance(x, ast.Name):
            dd = du.unique_value(du.node_of(r), x.id)
            if dd is not None and dd.value is not None and "_control_times" in norm(dd.value):
                return Poly.sym("T")
        return None
    f = eval_form(r.args[0], res)
    want = (Poly.sym("T") - Poly.sym("START")).div(Poly.sym("DT"))
    return f == want, (f"round({f})" if f == want else
                       f"float control times are rounded as {f}, not (T - START)/DT")


def _is_rounded_relative_time_local(du: DefUse, nid: int, e: ast.AST) -> Tuple[bool, str]:
    for _ in range(4):
        if isinstance(e, ast.Subscript):
            e = e.value          # an element of the rounded array is rounded the same way
        elif isinstance(e, ast.Name):
            d = du.unique_value(nid, e.id)
            if d is None or d.value is None or d.sel:
                return False, f"`{e.id}` has no unique definition"
            nid, e = d.node, d.value
        else:
            break
    if not (isinstance(e, ast.Call) and (dotted(e.func) or "").split(".")[-1] in ("round", "rint", "around")):
        return False, f"step index `{norm(e)}` is not obtained by rounding"

    def res(x):
        d = dotted(x)
        if d == "start_time":
            return Poly.sym("START")
        if d == "dt":
            return Poly.sym("DT")
        if isinstance(x, ast.Subscript) and "_control_times" in norm(x):
            return Poly.sym("T")
        return None
    from oqv.dataflow import form_at
    f = form_at(du, nid, e.args[0], res)
    want = (Poly.sym("T") - Poly.sym("START")).div(Poly.sym("DT"))
    if f is None:
        return False, f"cannot read the form of `{norm(e.args[0])}`"
    return (f == want), (f"round({f})" if f == want else
                         f"float control times are rounded as {f}, not (T - START)/DT")


def o4(prog: Program, chk: Check) -> None:
    """No stale step cache in the control module (memo-key completeness, shared with C20 A7)."""
    from rules.c20 import _a7_unit
    chk.rule("O4", "the control module keeps no memo of step indices whose key / validity test "
             "omits a parameter the cached value depends on (dt, start_time): such a cache makes "
             "a control act at the step of an EARLIER computation", floor=1)
    n = 0
    for u in prog.units_in("control"):
        if isinstance(u.node, ast.Lambda) or u.cls is None:
            continue
        for (st, attr, key_expr, covered, missing) in _a7_unit(u):
            n += 1
            chk.add("O4", u, f"memo {attr}[{norm(key_expr)}]", not missing,
                    f"keyed / validated by {covered}" if not missing else
                    f"cached value depends on {missing} but is looked up without it", st)
    chk.add("O4", prog.module("control"), f"{n} hand-written memo(s) in the control module", True,
            "none stale", function="<module>")


# --------------------------------------------------------------------- O5
def o5(prog: Program, chk: Check) -> None:
    chk.rule("O5", "every float-time control that rounds to the current step acts, each once: on "
             "each side (pre / post) the control times are selected by the full equality mask of "
             "the rounded times with `step` and every selected time is applied (a loop over the "
             "selection, possibly with its first element peeled off)", floor=2)
    from oqv.dataflow import origin, origin_text
    u = prog.unit("control:Control.get_controls")
    du = DefUse(u, CFG(u.node, exc_edges=False))
    chk.saw(u, du.cfg)
    for side in ("pre", "post"):
        apps = []      # (key expression, node) of  self._time_controls[side][KEY] @ ...
        for n in du.cfg.nodes:
            if n.copy_of:
                continue
            for x in n.walk():
                if isinstance(x, ast.Subscript) and isinstance(x.value, ast.Subscript) \
                        and dotted(x.value.value) == "self._time_controls" \
                        and isinstance(x.value.slice, ast.Constant) and x.value.slice.value == side \
                        and isinstance(x.ctx, ast.Load):
                    apps.append((x.slice, n.id))
        if not apps:
            raise AnalysisError(f"O5: no application of float-time {side} controls in get_controls")
        keys = [origin(du, nid, k) for (k, nid) in apps]
        texts = [norm(k) for k in keys]
        # the selection the keys are drawn from
        sel = None
        whole_loop = False
        peeled_first = peeled_rest = False
        for k in keys:
            if isinstance(k, ast.Call) and isinstance(k.func, ast.Name) and k.func.id == "ELEM":
                base = k.args[0]
                if isinstance(base, ast.Subscript) and isinstance(base.slice, ast.Slice) \
                        and norm(base.slice) == "1:":
                    peeled_rest, sel = True, base.value
                else:
                    whole_loop, sel = True, base
            elif isinstance(k, ast.Subscript) and isinstance(k.slice, ast.Constant) \
                    and k.slice.value == 0:
                peeled_first = True
                sel = sel or k.value
        covered = whole_loop or (peeled_first and peeled_rest)
        sel_text = norm(sel) if sel is not None else ""
        full_mask = ("== step" in sel_text or "step ==" in sel_text) and \
            not any(w in sel_text for w in ("searchsorted", "argmax", "argmin", "index("))
        ok = covered and full_mask
        chk.add("O5", u, f"{side}: float-time controls applied at keys {texts}", ok,
                "all times selected by the equality mask are applied" if ok else
                ("only one of the control times that round to this step is applied: a second "
                 "control given at a different float time of the same step is silently dropped"
                 if not covered else
                 "the control times of a step are not selected by the full equality mask of the "
                 "rounded times with `step`"), None)


def o6(prog: Program, chk: Check) -> None:
    chk.rule("O6", "controls and propagators are combined without touching the objects they came "
             "in: no in-place update (augmented assignment, subscript store, in-place method, "
             "out=) of an array the stepping code does not own - the propagator closure of a "
             "time-independent system hands out the same two arrays for every step, so a control "
             "multiplied into one of them in place acts again in every later step", floor=10)
    from rules.ownership import inplace_updates
    inplace_updates(prog, chk, "O6", modules={"system_dynamics", "gradient", "pt_tebd", "control",
                                               "backends.tempo_backend", "backends.pt_tempo_backend",
                                               "backends.pt_tebd_backend", "system"}, floor=1)


def o7(prog: Program, chk: Check) -> None:
    chk.rule("O7", "each system of a mean-field computation (each site of a chain) gets the "
             "controls that were registered for it: no closure that looks controls up and is "
             "kept beyond the loop iteration / comprehension that made it reads a variable the "
             "loop rebinds (all of them would use the Control object of the last system). "
             "Expected count is zero; a built-in example is judged on every run", floor=1)
    from rules import latebinding
    latebinding.self_check("O7")
    n = latebinding.late_binding(prog, chk, "O7", modules={"system_dynamics", "gradient", "pt_tebd",
                                                            "control", "tempo"})
    chk.add("O7", prog.module("system_dynamics"), f"{n} closures created in loops / comprehensions "
            f"examined; built-in example judged as expected", True, "")


def run(prog: Program, chk: Check) -> None:
    chk.explanation = (
        "Decides the order clauses of C18: O1 composition order of stacked controls in Control "
        "and ChainControl (new operation is the left factor, lists visited in insertion order); "
        "O2 the pre-control / record / post-control / propagate event order of the four "
        "steppers on every CFG path of a step (events classified by provenance of the applied "
        "superoperator: tuple position of get_controls / get_propagators results); O3 rounding "
        "of float control times relative to start_time and the None convention.")
    chk.not_decided = "Exactness of the superoperator arithmetic itself (plain `@`)."
    chk.assumptions = ["`A @ B` applied to a vectorised state applies B first",
                       "tensornetwork: node @ node contracts shared edges (order-free)"]
    chk.call(o1, prog, chk)
    chk.call(o2, prog, chk)
    chk.call(o3, prog, chk)
    chk.call(o3b, prog, chk)
    chk.call(o4, prog, chk)
    chk.call(o5, prog, chk)
    chk.call(o6, prog, chk)
    chk.call(o7, prog, chk)
    # a re-initialised chain applies its controls like a fresh one (no "already applied" flag
    # survives initialize())
    from rules.c13 import restart_resets
    chk.call(restart_resets, prog, chk, "O8", records=False)
