"""E1 program model: modules, classes, functions (units), imports, MRO.

All lookups fail closed: a vanished anchor raises AnalysisError, which the
CLI turns into exit code 2 (analysis broken), never into a pass.
"""
from __future__ import annotations

import ast
import os
from dataclasses import dataclass, field
from typing import Dict, Iterator, List, Optional, Tuple


class AnalysisError(Exception):
    """The analysis cannot be trusted (vanished anchor, unparsable file,
    instance floor not met, unclassifiable construct at a must-classify
    site).  Exit code 2."""


PKG = "oqupy"
MIN_MODULES = 25


def dotted(node: ast.AST) -> Optional[str]:
    """'a.b.c' for Name/Attribute chains, else None."""
    parts = []
    while isinstance(node, ast.Attribute):
        parts.append(node.attr)
        node = node.value
    if isinstance(node, ast.Name):
        parts.append(node.id)
        return ".".join(reversed(parts))
    return None


def norm(node: ast.AST) -> str:
    """Layout-independent text of a node (used in keys and messages)."""
    try:
        return ast.unparse(node)
    except Exception:  # pragma: no cover
        return ast.dump(node)


SCOPE_NODES = (ast.FunctionDef, ast.AsyncFunctionDef, ast.Lambda, ast.ClassDef)


def walk_local(node: ast.AST, include_root: bool = True) -> Iterator[ast.AST]:
    """ast.walk that does not descend into nested function/class/lambda
    bodies (their default/decorator expressions are still visited)."""
    stack = [node]
    first = True
    while stack:
        n = stack.pop()
        if not (first and not include_root):
            yield n
        if isinstance(n, SCOPE_NODES) and not first:
            # visit only what is evaluated in the enclosing scope
            if isinstance(n, (ast.FunctionDef, ast.AsyncFunctionDef)):
                stack.extend(n.decorator_list)
                stack.extend(n.args.defaults)
                stack.extend(d for d in n.args.kw_defaults if d is not None)
            elif isinstance(n, ast.Lambda):
                stack.extend(n.args.defaults)
            elif isinstance(n, ast.ClassDef):
                stack.extend(n.decorator_list)
                stack.extend(n.bases)
            first = False
            continue
        first = False
        stack.extend(reversed(list(ast.iter_child_nodes(n))))


@dataclass
class Module:
    name: str            # e.g. 'oqupy.tempo'
    short: str           # e.g. 'tempo' or 'backends.tempo_backend'
    path: str            # path relative to repo root
    tree: ast.Module
    source: str
    imports: Dict[str, str] = field(default_factory=dict)

    def loc(self, node: ast.AST) -> str:
        if isinstance(node, ast.withitem):
            node = node.context_expr
        return f"{self.path}:{getattr(node, 'lineno', 0)}"


@dataclass
class Unit:
    qual: str            # 'tempo:Tempo.compute'
    module: Module
    node: ast.AST        # FunctionDef or Lambda
    cls: Optional[str]   # enclosing class name (innermost) or None
    parent: Optional["Unit"]
    name: str

    @property
    def params(self) -> List[str]:
        a = self.node.args
        return [x.arg for x in a.posonlyargs + a.args + a.kwonlyargs] + \
            ([a.vararg.arg] if a.vararg else []) + \
            ([a.kwarg.arg] if a.kwarg else [])

    @property
    def body(self) -> List[ast.stmt]:
        if isinstance(self.node, ast.Lambda):
            return [ast.Return(value=self.node.body, lineno=self.node.lineno,
                               col_offset=self.node.col_offset)]
        return self.node.body

    def loc(self, node: Optional[ast.AST] = None) -> str:
        return self.module.loc(node if node is not None else self.node)


@dataclass
class ClassInfo:
    qual: str            # 'tempo:Tempo'
    name: str
    module: Module
    node: ast.ClassDef
    bases: List[str]     # dotted names as written
    methods: Dict[str, Unit] = field(default_factory=dict)


_SWAPPED = {ast.Lt: ast.Gt, ast.Gt: ast.Lt, ast.LtE: ast.GtE, ast.GtE: ast.LtE,
            ast.Eq: ast.Eq, ast.NotEq: ast.NotEq}


def _is_literal(e: ast.AST) -> bool:
    if isinstance(e, ast.UnaryOp) and isinstance(e.op, (ast.USub, ast.UAdd)):
        e = e.operand
    return isinstance(e, ast.Constant) or \
        (isinstance(e, ast.Attribute) and dotted(e) in ("np.inf", "numpy.inf", "math.inf"))


class _CanonCompare(ast.NodeTransformer):
    """One spelling for a comparison with a literal: the literal on the right
    (`0 < x` is read as `x > 0`, `'anti' == order` as `order == 'anti'`), so that rules see the
    subject of a test on the left whatever the author wrote.  Positions are kept."""

    def visit_Compare(self, node):
        self.generic_visit(node)
        if len(node.ops) == 1 and type(node.ops[0]) in _SWAPPED and _is_literal(node.left) \
                and not _is_literal(node.comparators[0]):
            new = ast.Compare(left=node.comparators[0], ops=[_SWAPPED[type(node.ops[0])]()],
                              comparators=[node.left])
            return ast.copy_location(new, node)
        return node


def _collect_signatures(trees: Dict[str, ast.AST]) -> Dict[str, List[str]]:
    """Positional parameter names of package callables that a call site can be matched to by
    name alone: module-level functions ("f"), methods (".m": every class that defines the name
    agrees on the parameter list; without self) and classes ("C": parameters of __init__).
    Callables with *args, positional-only parameters or decorators that change the call
    (staticmethod / classmethod / property / setters) are left out."""
    seen: Dict[str, List[Optional[List[str]]]] = {}

    def params(f: ast.FunctionDef, drop_self: bool) -> Optional[List[str]]:
        a = f.args
        if a.vararg or a.posonlyargs:
            return None
        names = [x.arg for x in a.args]
        return names[1:] if drop_self else names
    for tree in trees.values():
        for node in ast.walk(tree):
            if isinstance(node, ast.ClassDef):
                for f in node.body:
                    if not isinstance(f, ast.FunctionDef):
                        continue
                    deco = [norm(d) for d in f.decorator_list]
                    if any(d in ("staticmethod", "classmethod", "property") or d.endswith(".setter")
                           or d.endswith(".deleter") for d in deco):
                        seen.setdefault("." + f.name, []).append(None)
                        continue
                    seen.setdefault("." + f.name, []).append(params(f, True))
                    if f.name == "__init__":
                        seen.setdefault(node.name, []).append(params(f, True))
        for f in tree.body:
            if isinstance(f, ast.FunctionDef):
                seen.setdefault(f.name, []).append(None if f.decorator_list else params(f, False))
    out = {}
    for k, v in seen.items():
        if any(x is None for x in v):
            continue
        if all(x == v[0] for x in v):
            out[k] = v[0]
    return out


class _CanonCalls(ast.NodeTransformer):
    """One spelling for the arguments of calls to package callables: as many leading
    parameters as possible are passed positionally (`f(a, y=b)` is read as `f(a, b)`), the rest
    stay keywords.  A rule that looks at "the third argument" or "the argument called x" then
    sees the same thing whatever the author wrote (rules bind by name through
    Program.bound_args)."""

    def __init__(self, sigs: Dict[str, List[str]], module_funcs: Set[str]):
        self.sigs = sigs
        self.module_funcs = module_funcs

    def signature_of(self, node: ast.Call) -> Optional[List[str]]:
        f = node.func
        if isinstance(f, ast.Name):
            if f.id in self.module_funcs and f.id in self.sigs:
                return self.sigs[f.id]
            return None
        if isinstance(f, ast.Attribute) and not (isinstance(f.value, ast.Name)
                                                 and f.value.id in ("np", "numpy", "scipy", "tn", "os",
                                                                    "math", "integrate", "linalg")):
            return self.sigs.get("." + f.attr)
        return None

    def visit_Call(self, node):
        self.generic_visit(node)
        if any(isinstance(a, ast.Starred) for a in node.args):
            return node
        params = self.signature_of(node)
        if params is None or len(node.args) > len(params):
            return node
        kws = {k.arg: k for k in node.keywords if k.arg is not None}
        moved = []
        for name in params[len(node.args):]:
            if name in kws:
                moved.append(kws[name])
            else:
                break
        if not moved:
            return node
        node.args = list(node.args) + [k.value for k in moved]
        node.keywords = [k for k in node.keywords if k not in moved]
        return node


_CURRENT: List["Program"] = []


def kw_of(call: ast.Call) -> Dict[str, ast.AST]:
    """Arguments of `call` by parameter name for the program loaded last (positional arguments
    of package callables are bound through their signature), else the keywords as written."""
    if _CURRENT:
        return _CURRENT[-1].bound_args(call)
    return {k.arg: k.value for k in call.keywords if k.arg}


class Program:
    def __init__(self, repo_root: str):
        self.root = os.path.abspath(repo_root)
        _CURRENT.append(self)
        self.modules: Dict[str, Module] = {}
        self.units: Dict[str, Unit] = {}
        self.classes: Dict[str, ClassInfo] = {}
        self.classes_by_name: Dict[str, List[ClassInfo]] = {}
        self._load()

    # ------------------------------------------------------------------ load
    def _load(self) -> None:
        pkg_dir = os.path.join(self.root, PKG)
        if not os.path.isdir(pkg_dir):
            raise AnalysisError(f"package directory {pkg_dir} not found")
        for dirpath, dirnames, filenames in os.walk(pkg_dir):
            dirnames[:] = sorted(d for d in dirnames if d != "__pycache__")
            for fn in sorted(filenames):
                if not fn.endswith(".py"):
                    continue
                full = os.path.join(dirpath, fn)
                rel = os.path.relpath(full, self.root)
                modname = rel[:-3].replace(os.sep, ".")
                if modname.endswith(".__init__"):
                    modname = modname[: -len(".__init__")]
                with open(full, "r", encoding="utf-8") as fh:
                    src = fh.read()
                try:
                    tree = ast.parse(src, filename=rel)
                except SyntaxError as e:
                    raise AnalysisError(f"{rel} does not parse: {e}") from e
                # private helpers that did not exist at the analysed baseline are written out at
                # their call sites (undoes extract-method refactorings; oqv/inline.py)
                from .inline import write_out_new_helpers
                from .canon import split_conditional_assignments
                tree = split_conditional_assignments(tree)
                tree, n_inl, new_names = write_out_new_helpers(tree)
                self.inlined_helper_calls = getattr(self, "inlined_helper_calls", 0) + n_inl
                if new_names:
                    self.new_private_names = getattr(self, "new_private_names", {})
                    self.new_private_names[rel] = sorted(new_names)
                from .canon import canonicalise
                tree = canonicalise(tree)
                tree = _CanonCompare().visit(tree)
                short = modname[len(PKG) + 1:] if modname != PKG else ""
                m = Module(modname, short, rel, tree, src)
                self._index_imports(m)
                self.modules[modname] = m
        # one spelling for the arguments of calls to package callables
        self.signatures = _collect_signatures({n: m.tree for n, m in self.modules.items()})
        for m in self.modules.values():
            funcs = {f.name for f in m.tree.body if isinstance(f, ast.FunctionDef)}
            funcs |= {k for k, v in m.imports.items() if v.startswith(PKG + ".")}
            funcs |= {c.name for c in ast.walk(m.tree) if isinstance(c, ast.ClassDef)}
            m.tree = _CanonCalls(self.signatures, funcs).visit(m.tree)
        if len(self.modules) < MIN_MODULES:
            raise AnalysisError(
                f"only {len(self.modules)} modules parsed under {PKG}/ "
                f"(floor {MIN_MODULES})")
        for m in self.modules.values():
            self._index_units(m)

    def _index_imports(self, m: Module) -> None:
        for node in ast.walk(m.tree):
            if isinstance(node, ast.Import):
                for a in node.names:
                    if a.asname:
                        m.imports[a.asname] = a.name
                    else:
                        m.imports[a.name.split(".")[0]] = a.name.split(".")[0]
            elif isinstance(node, ast.ImportFrom) and node.module:
                for a in node.names:
                    m.imports[a.asname or a.name] = f"{node.module}.{a.name}"

    def _index_units(self, m: Module) -> None:
        counters: Dict[str, int] = {}

        def visit(node, prefix, cls, parent):
            for child in ast.iter_child_nodes(node):
                if isinstance(child, ast.ClassDef):
                    q = f"{m.short}:{prefix}{child.name}"
                    ci = ClassInfo(q, child.name, m, child,
                                   [dotted(b) or norm(b) for b in child.bases])
                    self.classes[q] = ci
                    self.classes_by_name.setdefault(child.name, []).append(ci)
                    visit(child, f"{prefix}{child.name}.", child.name, parent)
                elif isinstance(child, (ast.FunctionDef, ast.AsyncFunctionDef)):
                    q = f"{m.short}:{prefix}{child.name}"
                    n = counters.get(q, 0)
                    counters[q] = n + 1
                    if n:
                        q = f"{q}#{n}"
                    u = Unit(q, m, child, cls, parent, child.name)
                    self.units[q] = u
                    if cls and isinstance(node, ast.ClassDef):
                        ci = self.classes[f"{m.short}:{prefix[:-1]}"]
                        # keep the last definition with a given name unless
                        # it is a property setter/deleter
                        deco = [norm(d) for d in child.decorator_list]
                        if not any(d.endswith(".setter") or d.endswith(".deleter")
                                   for d in deco):
                            ci.methods[child.name] = u
                        else:
                            ci.methods[f"{child.name}.{deco[0].split('.')[-1]}"] = u
                    visit(child, f"{prefix}{child.name}.<locals>.", cls, u)
                elif isinstance(child, ast.Lambda):
                    q = f"{m.short}:{prefix}<lambda>"
                    n = counters.get(q, 0)
                    counters[q] = n + 1
                    q = f"{q}#{n}"
                    u = Unit(q, m, child, cls, parent, "<lambda>")
                    self.units[q] = u
                    visit(child, f"{prefix}<lambda>#{n}.", cls, u)
                else:
                    visit(child, prefix, cls, parent)

        visit(m.tree, "", None, None)

    def bound_args(self, call: ast.Call) -> Dict[str, ast.AST]:
        """Arguments of a call to a package callable by parameter name ({} if the callee's
        signature is not known by name)."""
        f = call.func
        key = f.id if isinstance(f, ast.Name) else ("." + f.attr if isinstance(f, ast.Attribute) else None)
        params = self.signatures.get(key) if key else None
        if params is None and isinstance(f, ast.Attribute) and isinstance(f.value, ast.Name) \
                and f.value.id in self.package_module_aliases():
            # a module-level function reached through the alias of a package module (`opr.f(..)`)
            params = self.signatures.get(f.attr)
        out: Dict[str, ast.AST] = {}
        if params is not None:
            for i, a in enumerate(call.args):
                if i < len(params) and not isinstance(a, ast.Starred):
                    out[params[i]] = a
        for k in call.keywords:
            if k.arg:
                out[k.arg] = k.value
        return out

    def package_module_aliases(self) -> Set[str]:
        if not hasattr(self, "_pkg_aliases"):
            al = set()
            for m in self.modules.values():
                for alias, target in m.imports.items():
                    if target.startswith(PKG + ".") and target in self.modules:
                        al.add(alias)
            self._pkg_aliases = al
        return self._pkg_aliases

    # --------------------------------------------------------------- lookups
    def module(self, short: str) -> Module:
        name = f"{PKG}.{short}" if short else PKG
        if name not in self.modules:
            raise AnalysisError(f"anchor vanished: module {name}")
        return self.modules[name]

    def unit(self, qual: str) -> Unit:
        if qual not in self.units:
            raise AnalysisError(f"anchor vanished: function {qual}")
        return self.units[qual]

    def has_unit(self, qual: str) -> bool:
        return qual in self.units

    def cls(self, qual: str) -> ClassInfo:
        if qual not in self.classes:
            raise AnalysisError(f"anchor vanished: class {qual}")
        return self.classes[qual]

    def units_in(self, short: str) -> List[Unit]:
        return [u for q, u in self.units.items() if q.startswith(short + ":")]

    def nested_units(self, u: Unit) -> List[Unit]:
        return [v for v in self.units.values() if v.parent is u]

    def all_nested(self, u: Unit) -> List[Unit]:
        out = []
        for v in self.nested_units(u):
            out.append(v)
            out.extend(self.all_nested(v))
        return out

    # ------------------------------------------------------------- hierarchy
    def resolve_class_name(self, m: Module, name: str) -> Optional[ClassInfo]:
        """A class name as written in module m -> ClassInfo inside package."""
        base = name.split(".")[-1]
        target = m.imports.get(name.split(".")[0])
        cands = self.classes_by_name.get(base, [])
        if not cands:
            return None
        for c in cands:
            if c.module is m:
                return c
        if target:
            for c in cands:
                if target.startswith(c.module.name) or \
                        target == f"{c.module.name}.{c.name}":
                    return c
        return cands[0] if len(cands) == 1 else None

    def mro(self, ci: ClassInfo) -> List[ClassInfo]:
        out, seen = [], set()

        def rec(c):
            if c.qual in seen:
                return
            seen.add(c.qual)
            out.append(c)
            for b in c.bases:
                bc = self.resolve_class_name(c.module, b)
                if bc is not None:
                    rec(bc)
        rec(ci)
        return out

    def find_method(self, ci: ClassInfo, name: str) -> Optional[Unit]:
        for c in self.mro(ci):
            if name in c.methods:
                return c.methods[name]
        return None

    def subclasses(self, ci: ClassInfo, strict: bool = False) -> List[ClassInfo]:
        out = []
        for c in self.classes.values():
            if c is ci:
                if not strict:
                    out.append(c)
                continue
            if any(x is ci for x in self.mro(c)):
                out.append(c)
        return out

    def class_of_unit(self, u: Unit) -> Optional[ClassInfo]:
        if not u.cls:
            return None
        for c in self.classes_by_name.get(u.cls, []):
            if c.module is u.module:
                return c
        return None

    # --------------------------------------------------- attribute sources
    def attr_sources(self, ci: ClassInfo, attr: str,
                     include_bases: bool = True
                     ) -> List[Tuple[Unit, ast.stmt, ast.AST, Optional[int]]]:
        """All `self.<attr> = rhs` stores in the class (and its package
        bases).  Tuple targets yield (unit, stmt, rhs, index)."""
        out = []
        classes = self.mro(ci) if include_bases else [ci]
        for c in classes:
            for u in c.methods.values():
                for st in walk_local(u.node):
                    if isinstance(st, ast.Assign):
                        for t in st.targets:
                            out.extend(self._match_self_store(u, st, t, st.value, attr))
                    elif isinstance(st, ast.AnnAssign) and st.value is not None:
                        out.extend(self._match_self_store(u, st, st.target, st.value, attr))
        return out

    @staticmethod
    def _match_self_store(u, st, target, value, attr):
        if isinstance(target, ast.Attribute) and isinstance(target.value, ast.Name) \
                and target.value.id == "self" and target.attr == attr:
            return [(u, st, value, None)]
        if isinstance(target, (ast.Tuple, ast.List)):
            res = []
            for i, el in enumerate(target.elts):
                if isinstance(el, ast.Attribute) and isinstance(el.value, ast.Name) \
                        and el.value.id == "self" and el.attr == attr:
                    res.append((u, st, value, i))
            return res
        return []
